import I2N.Lemmas.Trav
import I2N.Lemmas.TravResults
import I2N.Lemmas.TravBudget
import I2N.Lemmas.TravPatient
import I2N.Model.TravMon
/-!
# C03 — No test is executed more often than its retry budget per reuse scope
-/
namespace I2N.Props.C03
open I2N.Trav

/-- What the count monitor decides: for every execution `j` (the test proper, not the creation
pre-step) the executions of the same class within the scope of `j`'s worker number at most
`max(max_tries, 1)` — unless one of them was preceded by an execution of the class that overran its
timeout budget (the documented recovery path raises the concurrency limit then). -/
theorem countOk_iff (g : Graph) (t : List MEv) :
    countOk g t = true ↔
      ∀ j ∈ (intervals t).filter (·.main),
        let same := ((intervals t).filter (·.main)).filter (fun i => i.cls == j.cls && inScope g j.cls j.w i.w)
        same.length ≤ triesOf g j.cls j.w ∨ same.any (fun i => overran g (intervals t) i) = true := by
  unfold countOk countViolations
  rw [filterMap_ite_isEmpty]
  constructor
  · intro h j hj
    have := h j hj
    simp only [Bool.and_eq_false_imp, decide_eq_true_eq, Bool.not_eq_false'] at this
    intro same
    by_cases hc : same.length > triesOf g j.cls j.w
    · right; exact this hc
    · left; omega
  · intro h j hj
    simp only [Bool.and_eq_false_imp, decide_eq_true_eq, Bool.not_eq_false']
    intro hc
    rcases h j hj with h1 | h1
    · omega
    · exact h1

/-- What the attempt monitor decides: as `countOk_iff`, but over ALL execution intervals — a creation of an object that
ended with a failed pre-step is an execution too. -/
theorem attemptOk_iff (g : Graph) (t : List MEv) :
    attemptOk g t = true ↔
      ∀ j ∈ intervals t,
        let same := (intervals t).filter (fun i => i.cls == j.cls && inScope g j.cls j.w i.w)
        same.length ≤ triesOf g j.cls j.w ∨ same.any (fun i => overran g (intervals t) i) = true := by
  unfold attemptOk attemptViolations
  rw [filterMap_ite_isEmpty]
  constructor
  · intro h j hj
    have := h j hj
    simp only [Bool.and_eq_false_imp, decide_eq_true_eq, Bool.not_eq_false'] at this
    intro same
    by_cases hc : same.length > triesOf g j.cls j.w
    · right; exact this hc
    · left; omega
  · intro h j hj
    simp only [Bool.and_eq_false_imp, decide_eq_true_eq, Bool.not_eq_false']
    intro hc
    rcases h j hj with h1 | h1
    · omega
    · exact h1

/-- Clone sources, flat (not yet expanded) tests, dry runs and the shared root are never executed:
the run decision is `False`, nothing is requested from the state control and no state changes. -/
theorem never_run_flat_or_clone_source (g : Graph) (s : State) (n w : Nat)
    (h : (g.node n).flat = true ∨ (g.node n).cloneSource = true ∨ (g.node n).dryRun = true ∨ (g.node n).sharedRoot = true) :
    runDecision g s n w = .ok (false, s, []) := by
  unfold runDecision
  rcases h with h | h | h | h
  · by_cases a : (g.node n).sharedRoot = true <;> by_cases b : (g.node n).dryRun = true <;> simp [a, b, h]
  · by_cases a : (g.node n).sharedRoot = true <;> by_cases b : (g.node n).dryRun = true <;>
      by_cases c : (g.node n).flat = true <;> simp [a, b, c, h]
  · by_cases a : (g.node n).sharedRoot = true <;> simp [a, h]
  · simp [h]

/-- … and neither are they re-run. -/
theorem never_rerun_flat_or_clone_source (g : Graph) (s : State) (n w : Nat)
    (h : (g.node n).flat = true ∨ (g.node n).cloneSource = true ∨ (g.node n).dryRun = true) :
    shouldRerun g s n w = .ok false := by
  unfold shouldRerun
  rcases h with h | h | h
  · by_cases a : (s.nd n).rerunDisabled = true <;> by_cases b : (g.node n).dryRun = true <;> simp [a, b, h]
  · by_cases a : (s.nd n).rerunDisabled = true <;> by_cases b : (g.node n).dryRun = true <;>
      by_cases c : (g.node n).flat = true <;> simp [a, b, c, h]
  · by_cases a : (s.nd n).rerunDisabled = true <;> simp [a, h]

/-- A setup test whose resulting states are all found in the own pool of the worker the copy was parsed for
(`g.netOf n w`: the state request carries the parameters of the COPY, so it is that worker's pool that is examined —
the examining worker's own pool whenever the copy is its own, i.e. always under `OwnerNames`) or the shared
pool (as far as those scopes are enabled) when it is first examined — nobody of the scope finished
it, no result in scope yet — is not executed: the decision is `False`, the only request to the state
control is the `check`, the store is untouched, and reruns are switched off for this copy. -/
theorem present_not_run (g : Graph) (s : State) (n w : Nat)
    (hroot : (g.node n).sharedRoot = false) (hdry : (g.node n).dryRun = false) (hflat : (g.node n).flat = false)
    (hclone : (g.node n).cloneSource = false) (hid : g.idIn w n = true) (hsets : (g.node n).sets.isEmpty = false)
    (hfirst : isFinished g s n w 1 = false)
    (hnone : (sharedFilteredResults g s n (s.nd n).started).isEmpty = true)
    (hn : n < s.nodes.length)
    (hpresent : (g.node n).sets.all (fun vs =>
        ((g.node n).scope.contains "own" && (storeGet s.store (g.worker (g.netOf n w)).id).contains vs) ||
        ((g.node n).scope.contains "shared" && (storeGet s.store "shared").contains vs)) = true) :
    ∃ s', runDecision g s n w = .ok (false, s', [Event.door (g.worker (g.netOf n w)).id "check" (g.node n).sets (g.node n).scope true]) ∧
      s'.store = s.store ∧ (s'.nd n).rerunDisabled = true ∧ ∀ m, (s'.nd m).results = (s.nd m).results := by
  have hscan : scanStates g s n w = (false, [Event.door (g.worker (g.netOf n w)).id "check" (g.node n).sets (g.node n).scope true]) := by
    unfold scanStates
    simp only [hsets, Bool.false_eq_true, if_false]
    simp only [hpresent, Bool.not_true]
  refine ⟨disableRerun s n, ?_, rfl, ?_, ?_⟩
  · have hre : shouldRerun g (disableRerun s n) n w = .ok false := by
      unfold shouldRerun disableRerun
      rw [nd_setNd_eq _ _ _ hn]; simp
    unfold runDecision runDecisionStateful runDecisionStatefulCore
    simp only [hroot, hdry, hflat, hclone, hid, hsets, hfirst, hscan, hnone, hre, Except.map, Bool.false_eq_true, if_false,
      Bool.not_true, Bool.not_false, Bool.and_self, if_true, Bool.and_false]
  · unfold disableRerun; rw [nd_setNd_eq _ _ _ hn]
  · intro m
    exact nd_disableRerun_proj (·.results) (fun _ => rfl) s n m

/-!
## Bookkeeping along every run

Inductive invariants over `ReachableR g ncls store s`: the states reachable from `initState g ncls store` by
any sequence of `resume` steps of real workers (`w < g.workers.length`), with any outcomes (including "never
reported") and any positive fuel.  (With fuel 0 the model stops a step before the program counter is reset —
an artefact of the driver's iteration bound — so fuel 0 is excluded.)  Hypotheses on the graph are decidable:
`graphWF g` (root and edge end points are node indices), `namesInjB g` (distinct copies have distinct names),
`preFreshB g` (no test proper is named like a creation pre-step).
-/

section results

/-- **results_monotone.**  Along any step of worker `w` the result list of every node copy `m` keeps all its
elements in their order — whatever is new is appended behind — except for the UNKNOWN placeholder whose `tag`
is the one in `w`'s own program counter, awaited at `m` (`removable`): only `resumeTest` of the worker owning
the tag takes a placeholder away.  Consequences: every non-UNKNOWN result stays; every placeholder with another
tag stays; and if `w` is not awaiting a test proper at `m`, the list of `m` is an initial segment of the new one. -/
theorem results_monotone {g : Graph} (hwf : graphWF g = true) {ncls : Nat} {store : List (String × List (String × String))}
    {s : State} (hr : ReachableR g ncls store s) (w : Nat) (out : Outcome) (fuel : Nat)
    (hw : w < g.workers.length) (hf : 0 < fuel) (m : Nat) :
    ((s.nd m).results.filter (fun r => !removable s w m r)).Sublist ((resume g s w out fuel).1.nd m).results ∧
    (∀ r ∈ (s.nd m).results, r.status ≠ "UNKNOWN" → r ∈ ((resume g s w out fuel).1.nd m).results) ∧
    (∀ r ∈ (s.nd m).results, (∀ n ph dir uid tag wait, (s.wd w).pc = .test n ph dir uid tag wait → tag ≠ r.tag) →
      r ∈ ((resume g s w out fuel).1.nd m).results) ∧
    ((∀ n ph dir uid tag wait, (s.wd w).pc = .test n ph dir uid tag wait → ph = .pre ∨ n ≠ m) →
      (s.nd m).results <+: ((resume g s w out fuel).1.nd m).results) := by
  have b := hr.basic hwf
  have hws : w < s.workers.length := by rw [b.workersLen]; exact hw
  have h1 := resume_results_sublist g (GraphWF.of_bool hwf) s w out fuel hf hws (b.paths w) m
  refine ⟨h1, ?_, ?_, resume_results_prefix g (GraphWF.of_bool hwf) s w out fuel hf hws (b.paths w) m⟩
  · intro r hr' hst
    refine h1.subset (List.mem_filter.mpr ⟨hr', ?_⟩)
    unfold removable isPh
    split <;> simp [hst]
  · intro r hr' htag
    refine h1.subset (List.mem_filter.mpr ⟨hr', ?_⟩)
    unfold removable isPh
    split
    · rfl
    · rename_i n ph dir uid tag wait _ hpc
      have := htag n ph dir uid tag wait hpc
      simp [Ne.symm this]
    · rfl

/-- **unknown_before_suspend.**  In every reachable state, a worker suspended in a test proper (phase plain or
main) of copy `n` — in particular right after the step that started it — has its placeholder
`{status := "UNKNOWN", tag}` in the results of `n`, hence in the `sharedResults` every other worker's
`shouldRerun` looks at through its own copy `n'` of the class: the execution in flight is counted. -/
theorem unknown_before_suspend {g : Graph} (hwf : graphWF g = true) {ncls : Nat} {store : List (String × List (String × String))}
    {s : State} (hr : ReachableR g ncls store s) (w n : Nat) (ph : Phase) (dir : Dir) (uid : String) (tag wait : Nat)
    (hpc : (s.wd w).pc = .test n ph dir uid tag wait) (hph : ph ≠ .pre) :
    phOf (g.node n).name tag ∈ (s.nd n).results ∧
    ∀ n', (g.node n').flat = false → (g.node n).cls = (g.node n').cls → phOf (g.node n).name tag ∈ sharedResults g s n' := by
  have b := hr.basic hwf
  have h := (b.placeholder w n ph dir uid tag wait trivial hpc).1 hph
  exact ⟨h, fun n' hflat hcls => mem_sharedResults g s n n' _ (b.pcOK w n ph dir uid tag wait trivial hpc).1 hflat hcls h⟩

/-- … while the placeholder of a creation pre-step lives on the worker's private copy of the results. -/
theorem unknown_before_suspend_pre {g : Graph} (hwf : graphWF g = true) {ncls : Nat} {store : List (String × List (String × String))}
    {s : State} (hr : ReachableR g ncls store s) (w n : Nat) (dir : Dir) (uid : String) (tag wait : Nat)
    (hpc : (s.wd w).pc = .test n .pre dir uid tag wait) :
    phOf (s.wd w).preName tag ∈ (s.wd w).preResults ∧ (g.node n).objectRoot = true := by
  have b := hr.basic hwf
  refine ⟨(b.placeholder w n .pre dir uid tag wait trivial hpc).2 rfl, ?_⟩
  have := (b.pcOK w n .pre dir uid tag wait trivial hpc).2.2.2.1
  cases hc : (g.node n).objectRoot
  · exact absurd (this.mp hc) (by decide)
  · rfl

/-- the tags of executions in flight are pairwise distinct and below the tag counter -/
theorem tags_distinct {g : Graph} (hwf : graphWF g = true) {ncls : Nat} {store : List (String × List (String × String))}
    {s : State} (hr : ReachableR g ncls store s) (v v' n n' : Nat) (ph ph' : Phase) (dir dir' : Dir) (uid uid' : String)
    (tag tag' wait wait' : Nat) (hvv : v ≠ v')
    (hpc : (s.wd v).pc = .test n ph dir uid tag wait) (hpc' : (s.wd v').pc = .test n' ph' dir' uid' tag' wait') :
    tag ≠ tag' ∧ tag < s.nextTag :=
  ⟨(hr.basic hwf).tagsDistinct v v' n ph dir uid tag wait n' ph' dir' uid' tag' wait' trivial trivial hvv hpc hpc',
   ((hr.basic hwf).pcOK v n ph dir uid tag wait trivial hpc).2.2.1⟩

/-! Witness of known finding `count:object-root-creation-hidden-from-retry-budget`: while `net1` creates the vm
(pre-step of the object root, retries enabled), the results the other worker's decision looks at are empty;
`net2` starts a second creation of the same class although `max_tries = 1`. -/

def gR : Graph :=
  { workers := [{ id := "net1", swarm := "localhost" }, { id := "net2", swarm := "localhost" }],
    nodes := [
      { cls := 0, owner := some 0, name := "all.root.vms.vm1.nets.localhost.net1", pfx := "1a1", objectRoot := true,
        sets := [("vm1", "root")], objs := ["vm1"], setup := [(2, ["vm1"])], maxTries := some 1, mct := some 2 },
      { cls := 0, owner := some 1, name := "all.root.vms.vm1.nets.localhost.net2", pfx := "1b1", objectRoot := true,
        sets := [("vm1", "root")], objs := ["vm1"], setup := [(2, ["vm1"])], maxTries := some 1, mct := some 2 },
      { cls := 1, owner := none, name := "all.internal.stateless.noop", pfx := "1", flat := true, sharedRoot := true,
        cleanup := [(0, ["vm1"]), (1, ["vm1"])] }],
    root := 2 }

/-- is worker `w` suspended in phase `ph` of copy `n` -/
def inTestAt (s : State) (w n : Nat) (ph : Phase) : Bool :=
  match (s.wd w).pc with
  | .test n' ph' _ _ _ _ => n' == n && ph' == ph
  | _ => false

def sR1 : State := (resume gR (initState gR 2 []) 0 { status := none } 20).1
def sR2 : State := (resume gR sR1 1 { status := none } 20).1

example : graphWF gR = true := by decide
example : inTestAt sR1 0 0 .pre = true ∧ ((sR1.wd 0).preResults.map (·.status)) = ["UNKNOWN"] ∧
    sharedResults gR sR1 1 = [] := by decide
example : inTestAt sR2 0 0 .pre = true ∧ inTestAt sR2 1 1 .pre = true := by decide

end results

section identifiers

/-- **uids_distinct_trav.**  In every reachable state the job records of the parsed copies of classes without
object roots carry pairwise distinct (name, uid): the list of the keys of `jobResults`, restricted to the names
of such copies, has no duplicates.  (Each `startTest` of a test proper uses `uidOf pfx k` with `k` the number
of results of the whole class, which only grows — `results_monotone`, placeholder exactly once — and is raised
by the placeholder before anybody else can start; `uidOf` is injective in `k`; distinct copies have distinct
names.) -/
theorem uids_distinct_trav {g : Graph} (hwf : graphWF g = true) (hN : namesInjB g = true) (hP : preFreshB g = true)
    {ncls : Nat} {store : List (String × List (String × String))} {s : State} (hr : ReachableR g ncls store s) :
    ((s.jobResults.map (fun r => (r.1, r.2.1))).filter (fun k => goodName g k.1)).Nodup :=
  (hr.uids hwf (namesInjB_sound hN) (preFreshB_sound hP)).nodup

/-- … and the executions in flight (reported or not, "never reported" included) carry identifiers that differ
from each other, each being `uidOf pfx k` for a counter `k` below the current number of results of the class. -/
theorem uids_inflight_distinct {g : Graph} (hwf : graphWF g = true) (hN : namesInjB g = true) (hP : preFreshB g = true)
    {ncls : Nat} {store : List (String × List (String × String))} {s : State} (hr : ReachableR g ncls store s)
    (v n : Nat) (dir : Dir) (uid : String) (tag wait : Nat) (hpc : (s.wd v).pc = .test n .plain dir uid tag wait)
    (hg : good g n = true) :
    (∃ k, k < classLen g s (g.node n).cls ∧ uid = uidOf (g.node n).pfx k) ∧
    ∀ v' n' dir' uid' tag' wait', v ≠ v' → (s.wd v').pc = .test n' .plain dir' uid' tag' wait' →
      ((g.node n).name, uid) ≠ ((g.node n').name, uid') := by
  have u := hr.uids hwf (namesInjB_sound hN) (preFreshB_sound hP)
  exact ⟨u.inflight v n dir uid tag wait trivial hpc hg,
    fun v' n' dir' uid' tag' wait' hvv hpc' => u.distinct v v' n dir uid tag wait n' dir' uid' tag' wait' trivial trivial hvv hpc hpc' hg⟩

/-- **own_result_read.**  In every reachable state, an execution in flight of a test proper has no job record
under its (name, uid) yet.  Hence the lookup of `resumeTest` — the first record with this (name, uid), after
the stub appended the outcome at `wait = 0` — finds exactly the record reported by this very execution and
never a stale one; and when nothing is reported it finds nothing. -/
theorem own_result_read {g : Graph} (hwf : graphWF g = true) (hN : namesInjB g = true) (hP : preFreshB g = true)
    {ncls : Nat} {store : List (String × List (String × String))} {s : State} (hr : ReachableR g ncls store s)
    (w n : Nat) (dir : Dir) (uid : String) (tag wait : Nat) (hpc : (s.wd w).pc = .test n .plain dir uid tag wait)
    (hg : good g n = true) :
    s.jobResults.find? (fun r => r.1 == (g.node n).name && r.2.1 == uid) = none ∧
    ∀ st d, (s.jobResults ++ [((g.node n).name, uid, st, d)]).find? (fun r => r.1 == (g.node n).name && r.2.1 == uid) =
      some ((g.node n).name, uid, st, d) := by
  have u := hr.uids hwf (namesInjB_sound hN) (preFreshB_sound hP)
  have hnone : s.jobResults.find? (fun r => r.1 == (g.node n).name && r.2.1 == uid) = none := by
    rw [List.find?_eq_none]
    intro x hx hp
    simp only [Bool.and_eq_true, beq_iff_eq] at hp
    apply u.unreported w n dir uid tag wait trivial hpc hg
    unfold keys
    exact List.mem_map.mpr ⟨x, hx, by rw [hp.1, hp.2]⟩
  refine ⟨hnone, fun st d => ?_⟩
  rw [List.find?_append, hnone]
  simp

/-- … and the step in which an execution of a test proper reports outcome `st` files, on the copy it ran on,
a result with this execution's uid, the reported duration and the reported status (a PASS may be downgraded
to WARN by the duration rule) — the result read is the worker's own. -/
theorem own_result_filed {g : Graph} (hwf : graphWF g = true) (hN : namesInjB g = true) (hP : preFreshB g = true)
    {ncls : Nat} {store : List (String × List (String × String))} {s : State} (hr : ReachableR g ncls store s)
    (w n : Nat) (dir : Dir) (uid : String) (tag : Nat) (hpc : (s.wd w).pc = .test n .plain dir uid tag 0)
    (hg : good g n = true) (out : Outcome) (st : String) (hst : out.status = some st) (fuel : Nat) (hf : 0 < fuel) :
    ∃ res ∈ ((resume g s w out fuel).1.nd n).results, res.uid = uid ∧ res.dur = out.dur ∧
      (res.status = st ∨ (st = "PASS" ∧ res.status = "WARN")) :=
  resume_files_own_result (GraphWF.of_bool hwf) (hr.basic hwf) (hr.uids hwf (namesInjB_sound hN) (preFreshB_sound hP))
    w n dir uid tag hpc hg out st hst fuel hf

end identifiers

section budget

/-- a stateless test is run only while its class has fewer results — of whatever status, the placeholders of
executions in flight included — than `max(max_tries, 1)`; the decision leaves the state alone -/
theorem stateless_run_rule (g : Graph) (s : State) (n w : Nat) (s1 : State) (evs : List Event)
    (hsets : (g.node n).sets.isEmpty = true) (h : runDecision g s n w = .ok (true, s1, evs)) :
    s1 = s ∧ ((sharedResults g s n).length : Int) < max ((g.node n).maxTries.getD 1) 1 :=
  ⟨(runDecision_true_stateless g s n w s1 evs hsets h).1, (runDecision_true_stateless g s n w s1 evs hsets h).2.2⟩

/-- every start of a test proper (or of the second step of a creation) appends exactly one result — the
placeholder — to the copy it runs on and none elsewhere -/
theorem start_appends_one (g : Graph) (s : State) (n w : Nat) (ph : Phase) (dir : Dir) (hph : ph ≠ .pre)
    (hn : n < s.nodes.length) :
    ((startTest g s n w ph dir).1.nd n).results = (s.nd n).results ++ [phOf (g.node n).name s.nextTag] ∧
    ∀ j, j ≠ n → ((startTest g s n w ph dir).1.nd j).results = (s.nd j).results := by
  constructor
  · rcases startTest_results g s n w ph dir n with h | ⟨_, _, _, h⟩
    · exfalso
      have := (startTest_nonpre_len g s n w ph dir hph hn).1
      rw [h] at this; omega
    · exact h
  · intro j hj
    rcases startTest_results g s n w ph dir j with h | ⟨_, h, _⟩
    · exact h
    · exact absurd h hj

/-- **budget_stateless** (C03 for stateless classes, global scope).  For a class `c` of stateless tests proper
(no set states, no object root) whose copies agree on `max_tries = M`: in every reachable state the class has
at most `max(M, 1)` results, placeholders of executions in flight included.  Since every start appends exactly
one result (`start_appends_one`), results of such classes are never removed or added otherwise
(`results_monotone`; a placeholder is replaced by the result of its own execution), the class is started at
most `max(max_tries, 1)` times along any run, by whichever workers. -/
theorem budget_stateless {g : Graph} (hwf : graphWF g = true) {ncls : Nat} {store : List (String × List (String × String))}
    {s : State} (hr : ReachableR g ncls store s) (c : Nat) (M : Option Int) (hc : statelessClass g c M = true) :
    (classLen g s c : Int) ≤ max (M.getD 1) 1 ∧
    ∀ i, i < g.nodes.length → (g.node i).flat = false → (g.node i).cls = c →
      ((sharedResults g s i).length : Int) ≤ max (M.getD 1) 1 := by
  have h := hr.budget hwf c M hc
  refine ⟨h, fun i hi hflat hcls => ?_⟩
  rw [sharedResults_length g s i hi hflat, hcls]
  exact h

/-- **budget_stateful_partial.**  For stateful tests only the one-step rule is proved: a stateful test is run
only (a) on the scan path — nobody of the scope finished the class and the state control reports a set state
missing; neither earlier results nor executions in flight are looked at — or (b) by the rerun rule,
`max_tries ≠ 1` and fewer counted results in the reuse scope (placeholders included) than `max_tries`.
The run-level bound built on this rule is `budget_stateful` below (classes without object roots; the bound is
`max(max_tries, 1, largest is_occupied threshold)`, which is `max(max_tries, 1)` when `max_concurrent_tries` is unset or
within `max(max_tries, 1)` and no re-entrancy bump happened) and `budget_stateful_roots` (classes with object roots and
`max_tries ≤ 1`: creations in flight counted as results-to-be; with `max_tries ≤ 1` the rerun rule never fires, and on
the scan path creations and results together number at most the marks in scope).  For object roots with
`max_tries ≥ 2` the bound is false (`root_creation_hidden`), as it is for `max_concurrent_tries > max_tries`
(witness below). -/
theorem budget_stateful_partial (g : Graph) (s : State) (n w : Nat) (s1 : State) (evs : List Event)
    (hsets : (g.node n).sets.isEmpty = false) (h : runDecision g s n w = .ok (true, s1, evs)) :
    (isFinished g s n w 1 = false ∧ (scanStates g s n w).1 = true) ∨
    (((countedResults g s1 n w).length : Int) < (g.node n).maxTries.getD 1 ∧ (g.node n).maxTries.getD 1 ≠ 1) :=
  runDecision_true_stateful g s n w s1 evs hsets h

/-! Witness of known finding `count:mct>max_tries`: `max_tries = 1`, `max_concurrent_tries = 2`, a stateful
setup class, two workers — two `startTest`s of the class happen (both executions in flight, two results in the
class), reached by explicit `resume` steps. -/

def gW : Graph :=
  { workers := [{ id := "net1", swarm := "localhost" }, { id := "net2", swarm := "localhost" }],
    nodes := [
      { cls := 0, owner := some 0, name := "all.install.vms.vm1.nets.localhost.net1", pfx := "1a1",
        sets := [("vm1", "install")], objs := ["vm1"], setup := [(2, ["vm1"])], maxTries := some 1, mct := some 2 },
      { cls := 0, owner := some 1, name := "all.install.vms.vm1.nets.localhost.net2", pfx := "1b1",
        sets := [("vm1", "install")], objs := ["vm1"], setup := [(2, ["vm1"])], maxTries := some 1, mct := some 2 },
      { cls := 1, owner := none, name := "all.internal.stateless.noop", pfx := "1", flat := true, sharedRoot := true,
        cleanup := [(0, ["vm1"]), (1, ["vm1"])] }],
    root := 2 }

def sW1 : State := (resume gW (initState gW 2 []) 0 { status := none } 20).1
def sW2 : State := (resume gW sW1 1 { status := none } 20).1

example : ReachableR gW 2 [] sW2 :=
  .step 1 _ 20 (.step 0 _ 20 (.init []) (by decide) (by decide)) (by decide) (by decide)
example : inTestAt sW2 0 0 .plain = true ∧ inTestAt sW2 1 1 .plain = true ∧ classLen gW sW2 0 = 2 ∧
    (max ((gW.node 0).maxTries.getD 1) 1 = 1) := by decide

/-! Non-vacuity: a stateless class with `max_tries = 2` and two workers; both executions allowed by the budget
are started (the second one counts the placeholder of the first: uid `…r1`), the first fails, nothing more is
started. -/

def gS : Graph :=
  { workers := [{ id := "net1", swarm := "localhost" }, { id := "net2", swarm := "localhost" }],
    nodes := [
      { cls := 0, owner := some 0, name := "all.quicktest.vms.vm1.nets.localhost.net1", pfx := "1a1",
        objs := ["vm1"], setup := [(2, ["vm1"])], maxTries := some 2 },
      { cls := 0, owner := some 1, name := "all.quicktest.vms.vm1.nets.localhost.net2", pfx := "1b1",
        objs := ["vm1"], setup := [(2, ["vm1"])], maxTries := some 2 },
      { cls := 1, owner := none, name := "all.internal.stateless.noop", pfx := "1", flat := true, sharedRoot := true,
        cleanup := [(0, ["vm1"]), (1, ["vm1"])] }],
    root := 2 }

def sS1 : State := (resume gS (initState gS 2 []) 0 { status := none } 20).1
def sS2 : State := (resume gS sS1 1 { status := none } 20).1
def sS3 : State := (resume gS sS2 0 { status := some "FAIL", dur := 3 } 20).1

example : graphWF gS = true ∧ namesInjB gS = true ∧ preFreshB gS = true ∧ statelessClass gS 0 (some 2) = true ∧
    good gS 0 = true ∧ good gS 1 = true := by decide
example : ReachableR gS 2 [] sS3 :=
  .step 0 _ 20 (.step 1 _ 20 (.step 0 _ 20 (.init []) (by decide) (by decide)) (by decide) (by decide)) (by decide) (by decide)
/-- states of a lazily expanded run (nodes not parsed yet are `hidden`) are covered as well -/
example : ReachableR gS 2 [] (resume gS (initState gS 2 [] [0, 1]) 0 { status := none } 20).1 :=
  .step 0 _ 20 (.init [0, 1]) (by decide) (by decide)
example : inTestAt sS2 0 0 .plain = true ∧ inTestAt sS2 1 1 .plain = true ∧ classLen gS sS2 0 = 2 := by decide +kernel
example : (match (sS2.wd 0).pc, (sS2.wd 1).pc with
    | .test _ _ _ u _ _, .test _ _ _ u' _ _ => (u, u')
    | _, _ => ("", "")) = ("1a1", "1b1r1") := by decide +kernel
example : sS3.jobResults = [("all.quicktest.vms.vm1.nets.localhost.net1", "1a1", "FAIL", 3)] ∧
    (sS3.nd 0).results.map (·.status) = ["FAIL"] ∧ (sS3.nd 1).results.map (·.status) = ["UNKNOWN"] ∧
    inTestAt sS3 0 0 .plain = false := by decide +kernel

/-!
### The budget of stateful (setup) classes along every run

Vocabulary (`Lemmas/TravBudget.lean`, `Lemmas/TravExcl.lean`): `sharedFilteredResults g s n (some v)` is the very list
`should_rerun` counts for copy `n` with `started_worker = v` (`shared_filtered_results`: the results of all bridged copies
whose name contains the scope filter of `v`); `classLimit g s c` is the largest threshold `is_occupied` has had in force
for a copy of class `c` (`max(max_concurrent_tries (default max_tries (default 1)), 1)`, plus the re-entrancy bumps);
`NoBump s`: no bounce has outlasted the timeout budget of the node it waited for (the documented recovery path raises
the threshold then, and the guarantee is void, as in C04).

`statefulClass g c M sh` (decidable, static) — each clause is needed, witnesses below and in `design.d/C03.md`:
* the copies of class `c` are parsed, have set states (stateless classes: `budget_stateless`), agree on `max_tries = M`
  and on the scope shape `sh` (C04's `mixed_shapes_overlap`), and the root of the graph is not one of them;
* no copy is an object root — FALSE otherwise for `max_tries ≥ 2`: `root_creation_exceeds_budget` (known finding
  `count:object-root-creation-hidden-from-retry-budget`);
* a copy is cared for by at most one worker (`worker.id in name` holds for one worker only) — the `started` and `finished`
  marks of a copy are single slots, a second worker on the same copy overwrites them;
* the filter on result names agrees with the scope of `is_started`/`is_finished`: observer `v` counts the results of
  `u`'s copy iff `u` is within `v`'s scope (`own`: `u = v`, `swarm`: same swarm, `global`: always).
-/

/-- **budget_stateful** (C03 for setup classes).  In every reachable state — any graph, any number of workers, any
interleaving, any outcomes, lazy expansion included — for a class `c` of stateful tests proper satisfying the static,
decidable `statefulClass g c M sh`: the results of the class that any observer `v` counts in its reuse scope
(placeholders of executions in flight included, `unknown_before_suspend`) number at most
`max(max_tries, 1, largest is_occupied threshold of the class so far)`; and when `max_concurrent_tries` is unset or at
most `max(max_tries, 1)` on every copy and no re-entrancy bump has happened, at most `max(max_tries, 1)`.
Every start appends exactly one result (`start_appends_one`), a placeholder is replaced by the result of its own
execution (`results_monotone`): within one reuse scope the class is started at most that often along any run. -/
theorem budget_stateful {g : Graph} (hwf : graphWF g = true) {ncls : Nat} {store : List (String × List (String × String))}
    {s : State} (hr : ReachableR g ncls store s) (c : Nat) (M : Option Int) (sh : Shape)
    (hc : statefulClass g c M sh = true) (n : Nat) (hn : n < g.nodes.length) (hnc : (g.node n).cls = c)
    (v : Nat) (hv : v < g.workers.length) :
    ((sharedFilteredResults g s n (some v)).length : Int) ≤ max (max (M.getD 1) 1) (classLimit g s c) ∧
    (mctWithin g c M = true → NoBump s →
      ((sharedFilteredResults g s n (some v)).length : Int) ≤ max (M.getD 1) 1) := by
  have h := hr.budgetStateful hwf hc n hn hnc v hv
  refine ⟨h, fun hm hb => ?_⟩
  have := classLimit_le_of_mctWithin (statefulClass_spec hc) hm s hb
  omega

/-- what made the scan path countable: in every reachable state, a copy of the class has results only if its
worker's scope is past the scan path (somebody of the scope carries the `finished` mark of a copy), or else the only
result is the placeholder of the execution in flight on that very copy, whose worker holds the copy's `started` mark -/
theorem scan_phase_results {g : Graph} (hwf : graphWF g = true) {ncls : Nat} {store : List (String × List (String × String))}
    {s : State} (hr : ReachableR g ncls store s) (c : Nat) (M : Option Int) (sh : Shape)
    (hc : statefulClass g c M sh = true) (j : Nat) (hj : j < g.nodes.length) (hjc : (g.node j).cls = c)
    (hne : (s.nd j).results ≠ []) :
    (∃ u tag ph dir uid wait, (s.wd u).pc = .test j ph dir uid tag wait ∧ (s.nd j).results = [phOf (g.node j).name tag] ∧
      (s.nd j).started = some u ∧ g.idIn u j = true) ∨
    (∃ u, u < g.workers.length ∧ g.idIn u j = true ∧ FinIn g s c sh u) := by
  have b := hr.binv hwf (statefulClass_spec hc)
  rcases b.p1 j hj hjc hne with ⟨u, tag, _, ⟨ph, dir, uid, wait, hpc, _⟩, hres⟩ | h
  · obtain ⟨_, _, h3, h4⟩ := b.infl u trivial j ph dir uid tag wait hpc hjc
    exact Or.inl ⟨u, tag, ph, dir, uid, wait, hpc, hres, h4, h3⟩
  · exact Or.inr h

/-! Non-vacuity, and the bound is attained: three workers, a setup class with `max_tries = 2` (threshold 2).  net1 and
net2 both start it on the scan path (nobody has finished yet — the scan path does not look at results), net3 finds the
class occupied; net1 fails; net3 comes back, finds the class finished and the budget used up, and does not run. -/

def gT : Graph :=
  { workers := [{ id := "net1", swarm := "lh" }, { id := "net2", swarm := "lh" }, { id := "net3", swarm := "lh" }],
    nodes := [
      { cls := 0, owner := some 0, name := "install.vm1.lh.net1", pfx := "1a1",
        sets := [("vm1", "install")], objs := ["vm1"], setup := [(3, ["vm1"])], maxTries := some 2 },
      { cls := 0, owner := some 1, name := "install.vm1.lh.net2", pfx := "1b1",
        sets := [("vm1", "install")], objs := ["vm1"], setup := [(3, ["vm1"])], maxTries := some 2 },
      { cls := 0, owner := some 2, name := "install.vm1.lh.net3", pfx := "1c1",
        sets := [("vm1", "install")], objs := ["vm1"], setup := [(3, ["vm1"])], maxTries := some 2 },
      { cls := 1, owner := none, name := "noop", pfx := "1", flat := true, sharedRoot := true,
        cleanup := [(0, ["vm1"]), (1, ["vm1"]), (2, ["vm1"])] }],
    root := 3 }

def sT1 : State := (resume gT (initState gT 2 []) 0 { status := none } 20).1
def sT2 : State := (resume gT sT1 1 { status := none } 20).1
def sT3 : State := (resume gT sT2 2 { status := none } 20).1
def sT4 : State := (resume gT sT3 0 { status := some "FAIL", dur := 1 } 20).1
def sT5 : State := (resume gT sT4 2 { status := none } 20).1

example : graphWF gT = true ∧ statefulClass gT 0 (some 2) .global = true ∧ mctWithin gT 0 (some 2) = true := by decide +kernel
example : ReachableR gT 2 [] sT5 :=
  .step 2 _ 20 (.step 0 _ 20 (.step 2 _ 20 (.step 1 _ 20 (.step 0 _ 20 (.init []) (by decide) (by decide))
    (by decide) (by decide)) (by decide) (by decide)) (by decide) (by decide)) (by decide) (by decide)
set_option maxRecDepth 100000 in
example : inTestAt sT3 0 0 .plain = true ∧ inTestAt sT3 1 1 .plain = true ∧ isOccupied gT sT3 2 2 = true ∧
    (sharedFilteredResults gT sT3 2 (some 2)).length = 2 ∧ sT3.nodes.all (fun d => d.bump == 0) = true := by decide +kernel
set_option maxRecDepth 100000 in
example : (sT5.nd 0).results.map (·.status) = ["FAIL"] ∧ (sT5.nd 1).results.map (·.status) = ["UNKNOWN"] ∧
    (sT5.nd 2).results = [] ∧ (sT5.nd 2).finished = some 2 ∧ inTestAt sT5 2 2 .plain = false ∧
    (sharedFilteredResults gT sT5 2 (some 2)).length = 2 := by decide +kernel

/-! Why object roots must be excluded (known finding `count:object-root-creation-hidden-from-retry-budget`, here with
retries configured and `max_concurrent_tries` unset: `max_tries = 2`).  The creation pre-step keeps its placeholder on a
private copy of the results, and its success starts the test proper WITHOUT a further decision
(`creation_success_starts_unconditionally`), so creations in flight are results-to-be that nobody counts.  In `sRR` both
workers are inside the creation (threshold 2) and the class has no result.  From there (evaluated with the compiled model,
`design.d/C03.md`; the kernel cannot evaluate `String.splitOn` in the pre-step's name): net2's creation fails — one result
— net2 is let in again by the rerun rule (1 < 2) and starts a second creation; then both creations succeed and both tests
proper start: three results with `max(max_tries, 1) = 2`, no bump. -/

/-- a successful creation pre-step is followed by the start of the test proper, whatever the results of the class
are by then: no run decision, no look at the budget -/
theorem creation_success_starts_unconditionally (g : Graph) (w n : Nat) (dir : Dir) (fuel : Nat) (s : State) (evs : List Event) :
    resumeTest.continueAfter g w n .pre dir fuel s true evs =
      ((startTest g s n w .main dir).1, evs ++ (startTest g s n w .main dir).2.1) := rfl

def gRR : Graph :=
  { workers := [{ id := "net1", swarm := "localhost" }, { id := "net2", swarm := "localhost" }],
    nodes := [
      { cls := 0, owner := some 0, name := "all.root.vms.vm1.nets.localhost.net1", pfx := "1a1", objectRoot := true,
        sets := [("vm1", "root")], objs := ["vm1"], setup := [(2, ["vm1"])], maxTries := some 2 },
      { cls := 0, owner := some 1, name := "all.root.vms.vm1.nets.localhost.net2", pfx := "1b1", objectRoot := true,
        sets := [("vm1", "root")], objs := ["vm1"], setup := [(2, ["vm1"])], maxTries := some 2 },
      { cls := 1, owner := none, name := "all.internal.stateless.noop", pfx := "1", flat := true, sharedRoot := true,
        cleanup := [(0, ["vm1"]), (1, ["vm1"])] }],
    root := 2 }

def sRR : State := (resume gRR (resume gRR (initState gRR 2 []) 0 { status := none } 20).1 1 { status := none } 20).1

set_option maxRecDepth 100000 in
theorem root_creation_hidden :
    ReachableR gRR 2 [] sRR ∧ statefulClass gRR 0 (some 2) .global = false ∧ mctWithin gRR 0 (some 2) = true ∧
    (inTestAt sRR 0 0 .pre = true ∧ inTestAt sRR 1 1 .pre = true ∧ classLen gRR sRR 0 = 0 ∧ classLimit gRR sRR 0 = 2) :=
  ⟨.step 1 _ 20 (.step 0 _ 20 (.init []) (by decide) (by decide)) (by decide) (by decide),
   by decide +kernel, by decide +kernel, by decide +kernel⟩

/-!
### Object roots with `max_tries ≤ 1`

An object root is created in two phases: the creation pre-step (`pc = .test n .pre …`) runs on a copy of the root's
results kept by the worker — its placeholder is invisible to everybody else — and its success starts the test proper
without a decision.  A creation in flight is therefore a result-to-be, and the statement that is TRUE counts it:
`creationsInFlight g s c sh v` lists the workers inside the creation pre-step of a copy of class `c` that observer `v`
sees.  A failed pre-step files its result at the root (under the name of the pre-step, /repo fix 7ba7970) and finishes
the root; a pre-step that was never reported files its UNKNOWN placeholder there — in all cases exactly what the creation
in flight stood for.

`statefulClassRoots g c M sh` (decidable, static) is `statefulClass` without "no copy is an object root", with
* `max_tries` unset or `≤ 1` — otherwise FALSE (`root_creation_hidden`, `max_tries = 2`: the rerun rule does not see
  the creations in flight);
* an observer whose name filter matches the name of the creation pre-step of a root (`preNameOf`) sees the root — the
  results a failed pre-step files carry that name.  (For the `global` shape the clause is void; for `own`/`swarm` it
  contains `String.splitOn`, which `#eval` evaluates but the kernel does not reduce.)
-/

/-- **budget_stateful_roots** (C03 for setup classes with object roots, `max_tries ≤ 1`).  In every reachable state —
any graph, any number of workers, any interleaving, any outcomes incl. never reported, lazy expansion included — for a
class `c` satisfying the static, decidable `statefulClassRoots g c M sh`: the results of the class any observer `v` counts
in its reuse scope (placeholders of tests proper in flight included) TOGETHER WITH the creations in flight on copies it
sees number at most `max(1, largest is_occupied threshold of the class so far)`; and at most 1 when
`max_concurrent_tries` is unset or `≤ 1` on every copy and no re-entrancy bump has happened.  Every creation in flight
ends as exactly one result or none more (`creation_success_starts_unconditionally`, failed pre-step accounting), so the
root is created-and-run at most that often per reuse scope along any run. -/
theorem budget_stateful_roots {g : Graph} (hwf : graphWF g = true) {ncls : Nat} {store : List (String × List (String × String))}
    {s : State} (hr : ReachableR g ncls store s) (c : Nat) (M : Option Int) (sh : Shape)
    (hc : statefulClassRoots g c M sh = true) (n : Nat) (hn : n < g.nodes.length) (hnc : (g.node n).cls = c)
    (v : Nat) (hv : v < g.workers.length) :
    (((sharedFilteredResults g s n (some v)).length + (creationsInFlight g s c sh v).length : Nat) : Int) ≤
      max 1 (classLimit g s c) ∧
    (mctWithin g c M = true → NoBump s →
      (sharedFilteredResults g s n (some v)).length + (creationsInFlight g s c sh v).length ≤ 1) := by
  have h := hr.budgetStatefulRoots hwf hc n hn hnc v hv
  refine ⟨h, fun hm hb => ?_⟩
  obtain ⟨hC, hM⟩ := statefulClassRoots_spec hc
  have := classLimit_le_of_mctWithin hC hm s hb
  omega

/-- the general form behind both run-level theorems: under the (undecided) hypotheses `BClass` — copies are object
roots only if `max_tries ≤ 1` — results in scope plus creations in flight in scope stay within
`max(max_tries, 1, largest threshold)` -/
theorem budget_stateful_general {g : Graph} (hwf : graphWF g = true) {ncls : Nat} {store : List (String × List (String × String))}
    {s : State} (hr : ReachableR g ncls store s) (c : Nat) (M : Option Int) (sh : Shape)
    (hc : BClass g c M sh) (n : Nat) (hn : n < g.nodes.length) (hnc : (g.node n).cls = c)
    (v : Nat) (hv : v < g.workers.length) :
    (((sharedFilteredResults g s n (some v)).length + (creationsInFlight g s c sh v).length : Nat) : Int) ≤
      max (max (M.getD 1) 1) (classLimit g s c) :=
  hr.budgetB hwf hc n hn hnc v hv

/-! Non-vacuity, and the general bound is attained with the creations counted (and only with them): `gR` (two object
roots, `max_tries = 1`, `max_concurrent_tries = 2`, the graph of the known finding) — in `sR2` both workers are inside
the creation, the class has no result: 0 + 2 = threshold 2.  `gQ`: `max_concurrent_tries` unset — net2 finds the class
occupied while net1 creates: 0 + 1 ≤ 1, the sharp bound. -/

example : graphWF gR = true ∧ statefulClassRoots gR 0 (some 1) .global = true ∧ mctWithin gR 0 (some 1) = false := by
  decide +kernel
example : ReachableR gR 2 [] sR2 :=
  .step 1 _ 20 (.step 0 _ 20 (.init []) (by decide) (by decide)) (by decide) (by decide)
set_option maxRecDepth 100000 in
example : (sharedFilteredResults gR sR2 0 (some 0)).length = 0 ∧ creationsInFlight gR sR2 0 .global 0 = [0, 1] ∧
    classLimit gR sR2 0 = 2 := by decide +kernel
/-- with retries configured the hypothesis fails, and so does the bound (`root_creation_hidden`) -/
example : statefulClassRoots gRR 0 (some 2) .global = false := by decide +kernel

def gQ : Graph :=
  { workers := [{ id := "net1", swarm := "localhost" }, { id := "net2", swarm := "localhost" }],
    nodes := [
      { cls := 0, owner := some 0, name := "all.root.vms.vm1.nets.localhost.net1", pfx := "1a1", objectRoot := true,
        sets := [("vm1", "root")], objs := ["vm1"], setup := [(2, ["vm1"])] },
      { cls := 0, owner := some 1, name := "all.root.vms.vm1.nets.localhost.net2", pfx := "1b1", objectRoot := true,
        sets := [("vm1", "root")], objs := ["vm1"], setup := [(2, ["vm1"])] },
      { cls := 1, owner := none, name := "all.internal.stateless.noop", pfx := "1", flat := true, sharedRoot := true,
        cleanup := [(0, ["vm1"]), (1, ["vm1"])] }],
    root := 2 }

def sQ1 : State := (resume gQ (initState gQ 2 []) 0 { status := none } 20).1
def sQ2 : State := (resume gQ sQ1 1 { status := none } 20).1

example : graphWF gQ = true ∧ statefulClassRoots gQ 0 none .global = true ∧ mctWithin gQ 0 none = true := by decide +kernel
example : ReachableR gQ 2 [] sQ2 :=
  .step 1 _ 20 (.step 0 _ 20 (.init []) (by decide) (by decide)) (by decide) (by decide)
set_option maxRecDepth 100000 in
example : inTestAt sQ2 0 0 .pre = true ∧ inTestAt sQ2 1 1 .pre = false ∧ isOccupied gQ sQ1 1 1 = true ∧
    (sharedFilteredResults gQ sQ2 1 (some 1)).length = 0 ∧ creationsInFlight gQ sQ2 0 .global 1 = [0] ∧
    sQ2.nodes.all (fun d => d.bump == 0) = true := by decide +kernel

/-!
### Where the threshold grows

`classLimit` in the general bounds is the largest `is_occupied` threshold a copy of the class has had.  It depends on the
state only through the `bump` counters, and those are written in one place: the back-off branch of the loop (`iter`:
the worker stands again before an occupied node it bounced off before and `occWait > timeout * max_tries`).  Whether a
step takes that branch is decided by the stepping worker's back-off record at the beginning of the step
(`overWaited g s w`, `Lemmas/TravPatient.lean`).
-/

/-- **classLimit_grows_only_by_backoff.**  A step of a worker that has not waited longer than `timeout * max_tries` at
an occupied node leaves every bump counter, hence the largest threshold of every class, as it was; in particular it
preserves `NoBump`.  (Any state, any worker, any outcome, any fuel; no hypothesis on the graph.) -/
theorem classLimit_grows_only_by_backoff (g : Graph) (s : State) (w : Nat) (out : Outcome) (fuel : Nat)
    (h : ¬ overWaited g s w) :
    (∀ i, ((resume g s w out fuel).1.nd i).bump = (s.nd i).bump) ∧
    (∀ c, classLimit g (resume g s w out fuel).1 c = classLimit g s c) ∧
    (NoBump s → NoBump (resume g s w out fuel).1) :=
  ⟨resume_bump_eq g s w out fuel h, resume_classLimit_eq g s w out fuel h, resume_noBump g s w out fuel h⟩

/-- **budget_patient** — the sharp bounds for all runs in which no worker ever waited longer than `timeout * max_tries`
at occupied nodes (`ReachableP`: every step is taken by a worker with `¬ overWaited`): with `max_concurrent_tries`
unset or within `max(max_tries, 1)` on every copy, a stateful class without object roots has at most
`max(max_tries, 1)` counted results per reuse scope, and a class with object roots (`max_tries ≤ 1`) at most one counted
result or creation in flight. -/
theorem budget_patient {g : Graph} (hwf : graphWF g = true) {ncls : Nat} {store : List (String × List (String × String))}
    {s : State} (hr : ReachableP g ncls store s) (c : Nat) (M : Option Int) (sh : Shape) (hm : mctWithin g c M = true)
    (n : Nat) (hn : n < g.nodes.length) (hnc : (g.node n).cls = c) (v : Nat) (hv : v < g.workers.length) :
    NoBump s ∧
    (statefulClass g c M sh = true → ((sharedFilteredResults g s n (some v)).length : Int) ≤ max (M.getD 1) 1) ∧
    (statefulClassRoots g c M sh = true →
      (sharedFilteredResults g s n (some v)).length + (creationsInFlight g s c sh v).length ≤ 1) :=
  ⟨hr.noBump,
   fun hc => (budget_stateful hwf hr.reachableR c M sh hc n hn hnc v hv).2 hm hr.noBump,
   fun hc => (budget_stateful_roots hwf hr.reachableR c M sh hc n hn hnc v hv).2 hm hr.noBump⟩

/-- non-vacuity: the run to `sQ2` (net1 creates the root, net2 bounces off) is of this kind -/
example : ReachableP gQ 2 [] sQ2 :=
  .step 1 _ 20 (.step 0 _ 20 (.init []) (by decide) (by decide) (not_overWaited_of_nil (by decide)))
    (by decide) (by decide) (not_overWaited_of_nil (by decide +kernel))
/-- … and so is the run to `sT3` (two executions of a setup class with `max_tries = 2`, the third worker bounces) -/
example : ReachableP gT 2 [] sT3 :=
  .step 2 _ 20 (.step 1 _ 20 (.step 0 _ 20 (.init []) (by decide) (by decide) (not_overWaited_of_nil (by decide)))
    (by decide) (by decide) (not_overWaited_of_nil (by decide +kernel))) (by decide) (by decide)
    (not_overWaited_of_nil (by decide +kernel))

/-! Why a copy must be cared for by one worker only (`worker.id in params["name"]` is a substring test: `"net1"` occurs
in the name of `net11`'s copy).  `net1` picks `net11`'s copy as if it were its own and starts the setup test on it; `net11`
is not kept out (`own` scope: occupied only if `net11` itself holds the class), overwrites the `started` mark and starts the
same copy again: two executions in flight on ONE copy, two results in `net11`'s own scope with `max_tries = 1`, threshold 1,
no bump.  The real code does the same (`design.d/C03.md`: `net1` executes `net11`'s copy, the copy is executed three times). -/

def gU : Graph :=
  { workers := [{ id := "net11", swarm := "lh" }, { id := "net1", swarm := "lh" }],
    nodes := [
      { cls := 0, owner := some 0, name := "setup.vm1.lh.net11", pfx := "1a1", shape := .own,
        sets := [("vm1", "s01")], objs := ["vm1"], setup := [(2, ["vm1"])] },
      { cls := 0, owner := some 1, name := "setup.vm1.lh.net1", pfx := "1b1", shape := .own,
        sets := [("vm1", "s01")], objs := ["vm1"], setup := [(2, ["vm1"])] },
      { cls := 1, owner := none, name := "noop", pfx := "1", flat := true, sharedRoot := true,
        cleanup := [(0, ["vm1"]), (1, ["vm1"])] }],
    root := 2 }

def sU : State := (resume gU (resume gU (initState gU 2 []) 1 { status := none } 20).1 0 { status := none } 20).1

set_option maxRecDepth 100000 in
theorem shared_copy_exceeds_budget :
    ReachableR gU 2 [] sU ∧ statefulClass gU 0 none .own = false ∧ mctWithin gU 0 none = true ∧
    (inTestAt sU 0 0 .plain = true ∧ inTestAt sU 1 0 .plain = true ∧
      (sharedFilteredResults gU sU 0 (some 0)).length = 2 ∧ classLimit gU sU 0 = 1) :=
  ⟨.step 0 _ 20 (.step 1 _ 20 (.init []) (by decide) (by decide)) (by decide) (by decide),
   by decide +kernel, by decide +kernel, by decide +kernel⟩

end budget

end I2N.Props.C03
