import I2N.Lemmas.Trav
import I2N.Model.TravMon
/-!
# C03 — No test is executed more often than its retry budget per reuse scope
-/
namespace I2N.Props.C03
open I2N.Trav

/-- What the count monitor decides: for every execution `j` (the test proper, not the creation
pre-step) the executions of the same class within the scope of `j`'s worker number at most
`max(max_tries, 1)` — unless one of them was preceded by an execution of the class that overran its
timeout budget (the documented recovery path raises the concurrency limit then). -/
theorem countOk_iff (g : Graph) (t : List MEv) :
    countOk g t = true ↔
      ∀ j ∈ (intervals t).filter (·.main),
        let same := ((intervals t).filter (·.main)).filter (fun i => i.cls == j.cls && inScope g j.cls j.w i.w)
        same.length ≤ triesOf g j.cls j.w ∨ same.any (fun i => overran g (intervals t) i) = true := by
  unfold countOk countViolations
  rw [filterMap_ite_isEmpty]
  constructor
  · intro h j hj
    have := h j hj
    simp only [Bool.and_eq_false_imp, decide_eq_true_eq, Bool.not_eq_false'] at this
    intro same
    by_cases hc : same.length > triesOf g j.cls j.w
    · right; exact this hc
    · left; omega
  · intro h j hj
    simp only [Bool.and_eq_false_imp, decide_eq_true_eq, Bool.not_eq_false']
    intro hc
    rcases h j hj with h1 | h1
    · omega
    · exact h1

/-- Clone sources, flat (not yet expanded) tests, dry runs and the shared root are never executed:
the run decision is `False`, nothing is requested from the state control and no state changes. -/
theorem never_run_flat_or_clone_source (g : Graph) (s : State) (n w : Nat)
    (h : (g.node n).flat = true ∨ (g.node n).cloneSource = true ∨ (g.node n).dryRun = true ∨ (g.node n).sharedRoot = true) :
    runDecision g s n w = .ok (false, s, []) := by
  unfold runDecision
  rcases h with h | h | h | h
  · by_cases a : (g.node n).sharedRoot = true <;> by_cases b : (g.node n).dryRun = true <;> simp [a, b, h]
  · by_cases a : (g.node n).sharedRoot = true <;> by_cases b : (g.node n).dryRun = true <;>
      by_cases c : (g.node n).flat = true <;> simp [a, b, c, h]
  · by_cases a : (g.node n).sharedRoot = true <;> simp [a, h]
  · simp [h]

/-- … and neither are they re-run. -/
theorem never_rerun_flat_or_clone_source (g : Graph) (s : State) (n w : Nat)
    (h : (g.node n).flat = true ∨ (g.node n).cloneSource = true ∨ (g.node n).dryRun = true) :
    shouldRerun g s n w = .ok false := by
  unfold shouldRerun
  rcases h with h | h | h
  · by_cases a : (s.nd n).rerunDisabled = true <;> by_cases b : (g.node n).dryRun = true <;> simp [a, b, h]
  · by_cases a : (s.nd n).rerunDisabled = true <;> by_cases b : (g.node n).dryRun = true <;>
      by_cases c : (g.node n).flat = true <;> simp [a, b, c, h]
  · by_cases a : (s.nd n).rerunDisabled = true <;> simp [a, h]

/-- A setup test whose resulting states are all found in the examining worker's own or the shared
pool (as far as those scopes are enabled) when it is first examined — nobody of the scope finished
it, no result in scope yet — is not executed: the decision is `False`, the only request to the state
control is the `check`, the store is untouched, and reruns are switched off for this copy. -/
theorem present_not_run (g : Graph) (s : State) (n w : Nat)
    (hroot : (g.node n).sharedRoot = false) (hdry : (g.node n).dryRun = false) (hflat : (g.node n).flat = false)
    (hclone : (g.node n).cloneSource = false) (hid : g.idIn w n = true) (hsets : (g.node n).sets.isEmpty = false)
    (hfirst : isFinished g s n w 1 = false)
    (hnone : (sharedFilteredResults g s n (s.nd n).started).isEmpty = true)
    (hn : n < s.nodes.length)
    (hpresent : (g.node n).sets.all (fun vs =>
        ((g.node n).scope.contains "own" && (storeGet s.store (g.worker w).id).contains vs) ||
        ((g.node n).scope.contains "shared" && (storeGet s.store "shared").contains vs)) = true) :
    ∃ s', runDecision g s n w = .ok (false, s', [Event.door (g.worker w).id "check" (g.node n).sets (g.node n).scope true]) ∧
      s'.store = s.store ∧ (s'.nd n).rerunDisabled = true ∧ ∀ m, (s'.nd m).results = (s.nd m).results := by
  have hscan : scanStates g s n w = (false, [Event.door (g.worker w).id "check" (g.node n).sets (g.node n).scope true]) := by
    unfold scanStates
    simp only [hsets, Bool.false_eq_true, if_false]
    simp only [hpresent, Bool.not_true]
  refine ⟨disableRerun s n, ?_, rfl, ?_, ?_⟩
  · have hre : shouldRerun g (disableRerun s n) n w = .ok false := by
      unfold shouldRerun disableRerun
      rw [nd_setNd_eq _ _ _ hn]; simp
    unfold runDecision runDecisionStateful runDecisionStatefulCore
    simp only [hroot, hdry, hflat, hclone, hid, hsets, hfirst, hscan, hnone, hre, Except.map, Bool.false_eq_true, if_false,
      Bool.not_true, Bool.not_false, Bool.and_self, if_true, Bool.and_false]
  · unfold disableRerun; rw [nd_setNd_eq _ _ _ hn]
  · intro m
    exact nd_disableRerun_proj (·.results) (fun _ => rfl) s n m

end I2N.Props.C03
