import I2N.Lemmas.Trav
import I2N.Model.TravMon
/-!
# C01 — Every test starts only with its required object states available

The full statement (`start_has_states`: at every start of the model, every required state is
available-or-excepted) is NOT proved — and it is false of the current code (known findings F5, F10
of DESIGN.md: a state left only in a peer's own pool; swarm sharing with the swarm scope disabled).
What is proved are the structural facts the argument rests on (the inverse-DFS discipline of
`traverse_object_trees`) and what the run-time monitor `statesOk` means; the monitor is applied to
every implementation trace and to the model's traces.
-/
namespace I2N.Props.C01
open I2N.Trav

/-- What the state monitor decides: at every start of a test proper (of the copy `n` the starting
worker owns), every state the test is configured to start from is at hand (`stateAvailable`). -/
theorem statesOk_iff (g : Graph) (init : Store) (t : List MEv) :
    statesOk g init t = true ↔
      ∀ x ∈ mainStarts g t, ∀ vs ∈ (g.node x.2.2).gets, stateAvailable g init t x.2.1 x.1 x.2.2 vs = true := by
  unfold statesOk statesViolations
  simp only [List.isEmpty_iff, List.flatMap_eq_nil_iff, List.map_eq_nil_iff, List.filter_eq_nil_iff]
  constructor
  · intro h x hx vs hvs
    have := h x hx vs hvs
    simpa using this
  · intro h x hx vs hvs
    simp [h x hx vs hvs]

/-- … and "at hand" means: in the starting worker's own pool, or in a listed location the worker may
use under the test's pool scope (shared pool: `shared` enabled; a worker of the same swarm: `swarm`;
of another swarm: `cluster`), or nobody in the graph produces it for this test (externally provided state of a
permanent object, taken as given), or its producing class / the creation of the object has a non-passing
attempt earlier in the run.  The store is the one the run's own events imply (`replayStore`). -/
theorem stateAvailable_iff (g : Graph) (init : Store) (t : List MEv) (i : Nat) (e : MEv) (n : Nat) (vs : String × String) :
    stateAvailable g init t i e n vs = true ↔
      ((g.node n).setup.any (fun (_, vms) => vms.contains vs.1)) = false ∨
      (storeGet (replayStore g init (t.take i)) (g.worker e.w).id).contains vs = true ∨
      (∃ loc ∈ (match e.locs.find? (·.1 == vs.1) with | some (_, l) => l | none => []),
          allowedLoc g n e.w loc = true ∧
          (storeGet (replayStore g init (t.take i)) (if loc == "" then "shared" else loc)).contains vs = true) ∨
      excepted g t i n vs.1 = true := by
  unfold stateAvailable
  simp only [Bool.or_eq_true, List.any_eq_true, Bool.and_eq_true]
  constructor
  · rintro (((h | h) | h) | h)
    · exact Or.inl (by simpa using h)
    · exact Or.inr (Or.inl h)
    · exact Or.inr (Or.inr (Or.inl h))
    · exact Or.inr (Or.inr (Or.inr h))
  · rintro (h | h | h | h)
    · exact Or.inl (Or.inl (Or.inl (by simpa using h)))
    · exact Or.inl (Or.inl (Or.inr h))
    · exact Or.inl (Or.inr h)
    · exact Or.inr h

/-- Inverse DFS: a test is started only from a node that is setup-ready for the worker — every
parent the worker has to care about (its own copies and flat nodes) was dropped by it before. -/
theorem start_only_when_setup_ready (g : Graph) (s s' : State) (w : Nat) (evs : List Event) (f : Flow)
    (h : iter g s w = (s', evs, f)) (hstart : ∃ cls uid locs k, Event.start (g.worker w).id cls uid locs k ∈ evs) :
    ∃ next, (s.wd w).path.getLast? = some next ∧ isSetupReady g s next w = true := by
  unfold iter at h
  obtain ⟨cls, uid, locs, k, hmem⟩ := hstart
  by_cases hr : isCleanupReady g s g.root w = true
  · simp only [hr, if_true] at h
    split at h <;> (simp only [Prod.mk.injEq] at h; obtain ⟨_, he, _⟩ := h; subst he; simp at hmem)
  · have hr' : isCleanupReady g s g.root w = false := by simpa using hr
    simp only [hr', Bool.false_eq_true, if_false] at h
    cases hl : (s.wd w).path.getLast? with
    | none => simp [hl] at h; obtain ⟨_, he, _⟩ := h; subst he; simp at hmem
    | some next =>
      refine ⟨next, rfl, ?_⟩
      simp only [hl] at h
      by_cases h1 : (s.wd w).path.length = 1
      · simp only [h1, beq_self_eq_true, if_true] at h
        cases hp : pickChild g s next w with
        | none => simp [hp] at h; obtain ⟨_, he, _⟩ := h; subst he; simp at hmem
        | some r => simp [hp] at h; obtain ⟨_, he, _⟩ := h; subst he; simp at hmem
      · have h1' : ((s.wd w).path.length == 1) = false := by simpa using h1
        simp only [h1', Bool.false_eq_true, if_false] at h
        by_cases hocc : isOccupied g s next w = true
        · simp only [hocc, if_true, Prod.mk.injEq] at h
          obtain ⟨_, he, _⟩ := h; subst he; simp at hmem
        · simp only [hocc, if_false] at h
          by_cases hready : isSetupReady g s next w = true
          · exact hready
          · exfalso
            have hready' : isSetupReady g s next w = false := by simpa using hready
            simp only [hready', Bool.false_eq_true, if_false, Bool.not_false, if_true] at h
            split at h
            · cases hp : pickParent g s next w with
              | none => simp [hp] at h; obtain ⟨_, he, _⟩ := h; subst he; simp at hmem
              | some r => simp [hp] at h; obtain ⟨_, he, _⟩ := h; subst he; simp at hmem
            · split at h
              · cases hp : pickParent g s next w with
                | none => simp [hp] at h; obtain ⟨_, he, _⟩ := h; subst he; simp at hmem
                | some r => simp [hp] at h; obtain ⟨_, he, _⟩ := h; subst he; simp at hmem
              · simp only [Prod.mk.injEq] at h; obtain ⟨_, he, _⟩ := h; subst he; simp at hmem

/-- … and setup-readiness is exactly "every relevant parent dropped by this worker". -/
theorem setup_ready_iff (g : Graph) (s : State) (n w : Nat) :
    isSetupReady g s n w = true ↔
      ∀ p ∈ (g.node n).setup, relevant g w p.1 = true →
        w ∈ regWorkers (s.cr (g.node n).cls).droppedSetup (some (g.node p.1).cls) := by
  unfold isSetupReady
  rw [List.all_eq_true]
  constructor
  · intro h p hp hrel
    have := h p hp
    obtain ⟨p1, vms⟩ := p
    simp only at this hrel ⊢
    simpa [hrel] using this
  · intro h p hp
    obtain ⟨p1, vms⟩ := p
    simp only
    cases hrel : relevant g w p1
    · simp
    · have := h (p1, vms) hp hrel
      simpa using this

/-- A parent is dropped on the way up only after `traverse_node` decided that it needs no (more)
running: the second evaluation of the run decision, after `pull_locations` and a possible run. -/
theorem parent_dropped_only_when_decided (g : Graph) (s : State) (w next prev : Nat) (s' : State) (evs : List Event)
    (f : Flow) (h : afterTraverse g s w next prev Dir.up = (s', evs, f))
    (hdrop : (regWorkers (s'.cr (g.node prev).cls).droppedSetup (some (g.node next).cls)).length
      ≠ (regWorkers (s.cr (g.node prev).cls).droppedSetup (some (g.node next).cls)).length) :
    ∃ s1 e1, runDecision g s next w = .ok (false, s1, e1) := by
  unfold afterTraverse at h
  cases hd : runDecision g s next w with
  | error e =>
    simp only [hd, Prod.mk.injEq] at h
    rw [← h.1] at hdrop; exact absurd rfl hdrop
  | ok r =>
    obtain ⟨run, s1, e1⟩ := r
    cases run with
    | false => exact ⟨s1, e1, rfl⟩
    | true =>
      exfalso
      simp only [hd, Bool.not_true, Bool.false_eq_true, if_false, Prod.mk.injEq] at h
      apply hdrop
      rw [← h.1]
      -- the run decision itself does not touch the registers
      have hcr : s1.cr (g.node prev).cls = s.cr (g.node prev).cls := by
        rcases runDecision_state g s next w true s1 e1 hd with h' | h'
        · rw [h']
        · rw [h']; rfl
      show (regWorkers ((popPath s1 w).cr (g.node prev).cls).droppedSetup _).length = _
      simp only [popPath, cr_setWd, hcr]

end I2N.Props.C01
