import I2N.Lemmas.TravStates
import I2N.Lemmas.TravStatesRm
import I2N.Model.TravMon
/-!
# C01 — Every test starts only with its required object states available

The full statement (`start_has_states`: at every start of the model, every required state is
available-or-excepted) is NOT proved — and it is false of the current code (known findings F5, F10
of DESIGN.md: a state left only in a peer's own pool; swarm sharing with the swarm scope disabled).
What is proved are the structural facts the argument rests on (the inverse-DFS discipline of
`traverse_object_trees`) and what the run-time monitor `statesOk` means; the monitor is applied to
every implementation trace and to the model's traces.
-/
namespace I2N.Props.C01
open I2N.Trav

/-- What the state monitor decides: at every start of a test proper (of the copy `n` the starting
worker owns), every state the test is configured to start from is at hand (`stateAvailable`). -/
theorem statesOk_iff (g : Graph) (init : Store) (t : List MEv) :
    statesOk g init t = true ↔
      ∀ x ∈ mainStarts g t, ∀ vs ∈ (g.node x.2.2).gets, stateAvailable g init t x.2.1 x.1 x.2.2 vs = true := by
  unfold statesOk statesViolations
  simp only [List.isEmpty_iff, List.flatMap_eq_nil_iff, List.map_eq_nil_iff, List.filter_eq_nil_iff]
  constructor
  · intro h x hx vs hvs
    have := h x hx vs hvs
    simpa using this
  · intro h x hx vs hvs
    simp [h x hx vs hvs]

/-- … and "at hand" means: in the starting worker's own pool, or in a listed location the worker may
use under the test's pool scope (shared pool: `shared` enabled; a worker of the same swarm: `swarm`;
of another swarm: `cluster`), or nobody in the graph produces it for this test (externally provided state of a
permanent object, taken as given), or its producing class / the creation of the object has a non-passing
attempt earlier in the run.  The store is the one the run's own events imply (`replayStore`). -/
theorem stateAvailable_iff (g : Graph) (init : Store) (t : List MEv) (i : Nat) (e : MEv) (n : Nat) (vs : String × String) :
    stateAvailable g init t i e n vs = true ↔
      ((g.node n).setup.any (fun (_, vms) => vms.contains vs.1)) = false ∨
      (storeGet (replayStore g init (t.take i)) (g.worker e.w).id).contains vs = true ∨
      (∃ loc ∈ (match e.locs.find? (·.1 == vs.1) with | some (_, l) => l | none => []),
          allowedLoc g n e.w loc = true ∧
          (storeGet (replayStore g init (t.take i)) (if loc == "" then "shared" else loc)).contains vs = true) ∨
      excepted g t i n vs.1 = true := by
  unfold stateAvailable
  simp only [Bool.or_eq_true, List.any_eq_true, Bool.and_eq_true]
  constructor
  · rintro (((h | h) | h) | h)
    · exact Or.inl (by simpa using h)
    · exact Or.inr (Or.inl h)
    · exact Or.inr (Or.inr (Or.inl h))
    · exact Or.inr (Or.inr (Or.inr h))
  · rintro (h | h | h | h)
    · exact Or.inl (Or.inl (Or.inl (by simpa using h)))
    · exact Or.inl (Or.inl (Or.inr h))
    · exact Or.inl (Or.inr h)
    · exact Or.inr h

/-- Inverse DFS: a test is started only from a node that is setup-ready for the worker — every
parent the worker has to care about (its own copies and flat nodes) was dropped by it before. -/
theorem start_only_when_setup_ready (g : Graph) (s s' : State) (w : Nat) (evs : List Event) (f : Flow)
    (h : iter g s w = (s', evs, f)) (hstart : ∃ cls uid locs k, Event.start (g.worker w).id cls uid locs k ∈ evs) :
    ∃ next, (s.wd w).path.getLast? = some next ∧ isSetupReady g s next w = true := by
  unfold iter at h
  obtain ⟨cls, uid, locs, k, hmem⟩ := hstart
  by_cases hr : isCleanupReady g s g.root w = true
  · simp only [hr, if_true] at h
    split at h <;> (simp only [Prod.mk.injEq] at h; obtain ⟨_, he, _⟩ := h; subst he; simp at hmem)
  · have hr' : isCleanupReady g s g.root w = false := by simpa using hr
    simp only [hr', Bool.false_eq_true, if_false] at h
    cases hl : (s.wd w).path.getLast? with
    | none => simp [hl] at h; obtain ⟨_, he, _⟩ := h; subst he; simp at hmem
    | some next =>
      refine ⟨next, rfl, ?_⟩
      simp only [hl] at h
      by_cases h1 : (s.wd w).path.length = 1
      · simp only [h1, beq_self_eq_true, if_true] at h
        cases hp : pickChild g s next w with
        | none => simp [hp] at h; obtain ⟨_, he, _⟩ := h; subst he; simp at hmem
        | some r => simp [hp] at h; obtain ⟨_, he, _⟩ := h; subst he; simp at hmem
      · have h1' : ((s.wd w).path.length == 1) = false := by simpa using h1
        simp only [h1', Bool.false_eq_true, if_false] at h
        by_cases hocc : isOccupied g s next w = true
        · simp only [hocc, if_true, Prod.mk.injEq] at h
          obtain ⟨_, he, _⟩ := h; subst he; simp at hmem
        · simp only [hocc, if_false] at h
          by_cases hready : isSetupReady g s next w = true
          · exact hready
          · exfalso
            have hready' : isSetupReady g s next w = false := by simpa using hready
            simp only [hready', Bool.false_eq_true, if_false, Bool.not_false, if_true] at h
            split at h
            · cases hp : pickParent g s next w with
              | none => simp [hp] at h; obtain ⟨_, he, _⟩ := h; subst he; simp at hmem
              | some r => simp [hp] at h; obtain ⟨_, he, _⟩ := h; subst he; simp at hmem
            · split at h
              · cases hp : pickParent g s next w with
                | none => simp [hp] at h; obtain ⟨_, he, _⟩ := h; subst he; simp at hmem
                | some r => simp [hp] at h; obtain ⟨_, he, _⟩ := h; subst he; simp at hmem
              · simp only [Prod.mk.injEq] at h; obtain ⟨_, he, _⟩ := h; subst he; simp at hmem

/-- … and setup-readiness is exactly "every relevant parent dropped by this worker". -/
theorem setup_ready_iff (g : Graph) (s : State) (n w : Nat) :
    isSetupReady g s n w = true ↔
      ∀ p ∈ (g.node n).setup, relevant g w p.1 = true →
        w ∈ regWorkers (s.cr (g.node n).cls).droppedSetup (some (g.node p.1).cls) := by
  unfold isSetupReady
  rw [List.all_eq_true]
  constructor
  · intro h p hp hrel
    have := h p hp
    obtain ⟨p1, vms⟩ := p
    simp only at this hrel ⊢
    simpa [hrel] using this
  · intro h p hp
    obtain ⟨p1, vms⟩ := p
    simp only
    cases hrel : relevant g w p1
    · simp
    · have := h (p1, vms) hp hrel
      simpa using this

/-- A parent is dropped on the way up only after `traverse_node` decided that it needs no (more)
running: the second evaluation of the run decision, after `pull_locations` and a possible run. -/
theorem parent_dropped_only_when_decided (g : Graph) (s : State) (w next prev : Nat) (s' : State) (evs : List Event)
    (f : Flow) (h : afterTraverse g s w next prev Dir.up = (s', evs, f))
    (hdrop : (regWorkers (s'.cr (g.node prev).cls).droppedSetup (some (g.node next).cls)).length
      ≠ (regWorkers (s.cr (g.node prev).cls).droppedSetup (some (g.node next).cls)).length) :
    ∃ s1 e1, runDecision g s next w = .ok (false, s1, e1) := by
  unfold afterTraverse at h
  cases hd : runDecision g s next w with
  | error e =>
    simp only [hd, Prod.mk.injEq] at h
    rw [← h.1] at hdrop; exact absurd rfl hdrop
  | ok r =>
    obtain ⟨run, s1, e1⟩ := r
    cases run with
    | false => exact ⟨s1, e1, rfl⟩
    | true =>
      exfalso
      simp only [hd, Bool.not_true, Bool.false_eq_true, if_false, Prod.mk.injEq] at h
      apply hdrop
      rw [← h.1]
      -- the run decision itself does not touch the registers
      have hcr : s1.cr (g.node prev).cls = s.cr (g.node prev).cls := by
        rcases runDecision_state g s next w true s1 e1 hd with h' | h'
        · rw [h']
        · rw [h']; rfl
      show (regWorkers ((popPath s1 w).cr (g.node prev).cls).droppedSetup _).length = _
      simp only [popPath, cr_setWd, hcr]

/-! ## the inverse-DFS invariants over ALL reachable states

`ReachH g ncls store H0 s` (`Lemmas/TravReady.lean`): `s` is reached from the initial state in which exactly the nodes `H0`
are not parsed yet (`[]`: pre-parsed graph) by any finite sequence of `resume` steps of any workers with any outcomes and
any fuel.  Hypotheses on the graph, all decidable: `graphWF g` (edges and root are node indices), the root is flat (the
shared root), `OwnerNames g` (a worker's id occurs in the names of exactly its own parsed copies — decidable form
`ownerNamesB`; without it a copy could be traversed by a foreign worker, which is the substring-identity trap of the
code), `FlatClass g` (the copies of a class are all flat or all parsed). -/

/-- The `finished` mark of a parsed copy is only ever written with the worker that owns the copy: `traverse_node` is
called with nodes of the worker's path only, and the path holds flat nodes and own copies only. -/
theorem finished_means_traversed_by_owner (g : Graph) (hwf : graphWF g = true) (hroot : (g.node g.root).flat = true)
    (hO : OwnerNames g) {ncls : Nat} {store : Store} {H0 : List Nat} {s : State} (hr : ReachH g ncls store H0 s)
    (n v : Nat) (hn : n < g.nodes.length) (hf : (g.node n).flat = false) (h : (s.nd n).finished = some v) :
    (g.node n).owner = some v :=
  (hO v n hn hf).mp ((hr.trv (GraphWF.of_bool hwf) hroot hO.uniq).finOwner n v hn hf h)

/-- … and once a worker has traversed its copy, the mark stays (no step of any worker overwrites it). -/
theorem traversed_mark_stable (g : Graph) (hwf : graphWF g = true) (hroot : (g.node g.root).flat = true)
    (hO : OwnerNames g) {ncls : Nat} {store : Store} {H0 : List Nat} {s : State} (hr : ReachH g ncls store H0 s)
    (v : Nat) (out : Outcome) (fuel : Nat) (p w : Nat) (hp : p < g.nodes.length) (hf : (g.node p).flat = false)
    (h : (s.nd p).finished = some w) : ((resume g s v out fuel).1.nd p).finished = some w :=
  (hr.trv (GraphWF.of_bool hwf) hroot hO.uniq).stable (GraphWF.of_bool hwf) hroot hO.uniq v out fuel p w hp hf h

/-- A parent is dropped only after this worker traversed it: in every reachable state, if worker `w` is registered in
`droppedSetup` of the class of `n` for the class of a parsed parent `p`, then `w`'s own copy of `p`'s class carries
`w`'s `finished` mark (`traverse_node` ran to its end on it for `w`: the run decision said "no (more) running"). -/
theorem dropped_parent_was_traversed (g : Graph) (hwf : graphWF g = true) (hroot : (g.node g.root).flat = true)
    (hO : OwnerNames g) (hF : FlatClass g) {ncls : Nat} {store : Store} {H0 : List Nat} {s : State}
    (hr : ReachH g ncls store H0 s) (n p w : Nat) (hp : p < g.nodes.length) (hfp : (g.node p).flat = false)
    (h : w ∈ regWorkers (s.cr (g.node n).cls).droppedSetup (some (g.node p).cls)) :
    ∃ p', p' < g.nodes.length ∧ (g.node p').cls = (g.node p).cls ∧ (g.node p').owner = some w ∧
      (s.nd p').finished = some w :=
  ((hr.trv (GraphWF.of_bool hwf) hroot hO.uniq).dropS _ _ w h).owned hO hF hp hfp

/-- Setup-readiness therefore means "traversed": in a state satisfying the invariant (every reachable state, and every
intermediate state of a step), a node that is setup-ready for `w` on a graph `gv` with the nodes of `g` (the graph as parsed
so far) has all its relevant parsed parents traversed by `w`. -/
theorem setup_ready_parents_traversed (g : Graph) (hwf : graphWF g = true) (hO : OwnerNames g) (hF : FlatClass g)
    {H0 : List Nat} {s : State} (t : Trv g H0 s) (gv : Graph) (hsn : SameNodes gv g)
    (hsub : ∀ n p, p ∈ (gv.node n).setup → p ∈ (g.node n).setup) (n w : Nat)
    (h : isSetupReady gv s n w = true) :
    ∀ p ∈ (gv.node n).setup, relevant g w p.1 = true → (g.node p.1).flat = false →
      ∃ p', p' < g.nodes.length ∧ (g.node p').cls = (g.node p.1).cls ∧ (g.node p').owner = some w ∧
        (s.nd p').finished = some w := by
  intro p hp hrel hfp
  have h1 := (setup_ready_iff' gv s n w).mp h p hp (by rw [relevant_sameNodes hsn]; exact hrel)
  rw [hsn.cls, hsn.cls] at h1
  exact (t.dropS _ _ w h1).owned hO hF ((GraphWF.of_bool hwf).setup_lt n p (hsub n p hp)) hfp

/-- Every start happens after the parents were traversed: whenever a `resume` step of worker `w` emits a `start` event,
it is the start of (a phase `ph` of) a node `n` that `w` owns, and in the state `sd` of this step in which the test was
started (`sd` satisfies the invariant `Trv`, and the other workers' records are those of `s`) every relevant parsed parent
of `n` — on the graph visible with `hid` hidden, where `hid` lies between what is hidden in `sd` and what was hidden
initially; for the two-step creation of an object root it is the graph visible when the creation was started — has been
traversed by `w`: `w`'s own copy of its class carries `w`'s `finished` mark. -/
theorem start_after_parents_traversed (g : Graph) (hwf : graphWF g = true) (hroot : (g.node g.root).flat = true)
    (hO : OwnerNames g) (hF : FlatClass g) {ncls : Nat} {store : Store} {H0 : List Nat} {s : State}
    (hr : ReachH g ncls store H0 s) (w : Nat) (out : Outcome) (fuel : Nat)
    (wid cname uid : String) (locs : List (String × String)) (k : Nat)
    (he : Event.start wid cname uid locs k ∈ (resume g s w out fuel).2) :
    wid = (g.worker w).id ∧ ∃ n ph sd hid, cname = clsName g n ph ∧ n < g.nodes.length ∧ (g.node n).owner = some w ∧
      (g.node n).flat = false ∧ (∀ h ∈ sd.hidden, h ∈ hid) ∧ (∀ h ∈ hid, h ∈ H0) ∧ Trv g H0 sd ∧
      (∀ v, v ≠ w → sd.wd v = s.wd v) ∧
      ∀ p ∈ ((visH g hid).node n).setup, relevant g w p.1 = true → (g.node p.1).flat = false →
        ∃ p', p' < g.nodes.length ∧ (g.node p').cls = (g.node p.1).cls ∧ (g.node p').owner = some w ∧
          (sd.nd p').finished = some w := by
  have t := hr.trv (GraphWF.of_bool hwf) hroot hO.uniq
  obtain ⟨h0, n, ph, sd, h1, h2, hn, hid, hfl, hd, h3, h4, h5⟩ :=
    ((resume_ok g H0 (GraphWF.of_bool hwf) hroot s w out fuel t).2 _ he).2 wid cname uid locs k rfl
  have td := t.upd hO.uniq h2
  exact ⟨h0, n, ph, sd, hd, h1, hn, (hO w n hn hfl).mp hid, hfl, h3, h4, td, h2.others,
    setup_ready_parents_traversed g hwf hO hF td (visH g hd) (sameNodes_visH g hd) (fun n p => visH_setup_sub g hd n p) n w h5⟩

/-- … on a pre-parsed graph (nothing hidden initially) these are all parents of `n`. -/
theorem start_after_parents_traversed_eager (g : Graph) (hwf : graphWF g = true) (hroot : (g.node g.root).flat = true)
    (hO : OwnerNames g) (hF : FlatClass g) {ncls : Nat} {store : Store} {s : State}
    (hr : ReachH g ncls store [] s) (w : Nat) (out : Outcome) (fuel : Nat)
    (wid cname uid : String) (locs : List (String × String)) (k : Nat)
    (he : Event.start wid cname uid locs k ∈ (resume g s w out fuel).2) :
    wid = (g.worker w).id ∧ ∃ n ph sd, cname = clsName g n ph ∧ n < g.nodes.length ∧ (g.node n).owner = some w ∧
      Trv g [] sd ∧ (∀ v, v ≠ w → sd.wd v = s.wd v) ∧
      ∀ p ∈ (g.node n).setup, relevant g w p.1 = true → (g.node p.1).flat = false →
        ∃ p', p' < g.nodes.length ∧ (g.node p').cls = (g.node p.1).cls ∧ (g.node p').owner = some w ∧
          (sd.nd p').finished = some w := by
  obtain ⟨h0, n, ph, sd, hid, h1, hn, ho, _, _, h4, td, h5, h6⟩ :=
    start_after_parents_traversed g hwf hroot hO hF hr w out fuel wid cname uid locs k he
  have : hid = [] := by
    cases hid with
    | nil => rfl
    | cons a r => exact absurd (h4 a List.mem_cons_self) (by simp)
  subst this
  exact ⟨h0, n, ph, sd, h1, hn, ho, td, h5, h6⟩

/-! ### non-vacuity (the instance `exGraph` of `Lemmas/TravReady.lean`) -/

example : graphWF exGraph = true ∧ (exGraph.node exGraph.root).flat = true ∧ ownerNamesB exGraph = true := by decide
example : FlatClass exGraph := by decide
example : ReachH exGraph 3 [] [] exS2 := reachH_runSched exGraph 3 [] [] 100 _ _ ReachH.init

set_option maxRecDepth 100000 in
/-- after `a` passed, net1 is registered as having dropped the parent class `a` (0) of its node `b` (class 1), its copy of
`a` carries its mark, and the step that did this emitted the start of `b` -/
example : 0 ∈ regWorkers (exS2.cr (exGraph.node 2).cls).droppedSetup (some (exGraph.node 0).cls) ∧
    (exS2.nd 0).finished = some 0 ∧ (exGraph.node 0).owner = some 0 ∧
    Event.start "net1" "1" "2a1" [("vm1", ":/pool/shared net1:/pool/swarm")] 1 ∈ (resume exGraph exS1 0 exPass 100).2 := by
  decide +kernel

/-! lazy expansion: initially the four parsed nodes are hidden (`H0 = [0, 1, 2, 3]`); net1 reveals its copies (2 and its
ancestor 0) at the flat node, runs `a`, drops it and starts `b` -/

example : graphWF exLazy = true ∧ (exLazy.node exLazy.root).flat = true ∧ ownerNamesB exLazy = true := by decide
example : FlatClass exLazy := by decide
example : ReachH exLazy 4 [] [0, 1, 2, 3] exL2 := reachH_runSched exLazy 4 [] _ 100 _ _ ReachH.init

set_option maxRecDepth 100000 in
example : exL2.hidden = [1, 3] ∧
    0 ∈ regWorkers (exL2.cr (exLazy.node 2).cls).droppedSetup (some (exLazy.node 0).cls) ∧
    (exL2.nd 0).finished = some 0 ∧
    Event.start "net1" "1" "2a1" [("vm1", ":/pool/shared net1:/pool/swarm")] 1 ∈ (resume exLazy exL1 0 exPass 100).2 := by
  decide +kernel

set_option maxRecDepth 100000 in
/-- `OwnerNames` is needed: when a worker's id is a substring of the name of a foreign copy (`net1` in `…net11`), the
worker traverses the foreign copy and leaves its own mark on it — `finished_means_traversed_by_owner` fails. -/
theorem owner_names_needed :
    ownerNamesB exBad = false ∧ graphWF exBad = true ∧ (exBad.node exBad.root).flat = true ∧
    ReachH exBad 2 [] [] (runSched exBad 100 (initState exBad 2 [] []) [(0, exNoOut), (0, exPass)]) ∧
    ((runSched exBad 100 (initState exBad 2 [] []) [(0, exNoOut), (0, exPass)]).nd 0).finished = some 0 ∧
    (exBad.node 0).owner = some 1 :=
  ⟨by decide, by decide, by decide, reachH_runSched exBad 2 [] [] 100 _ _ ReachH.init, by decide +kernel, by decide⟩

/-! ## the semantic core in a restricted setting: `start_has_states_partial`

`ReachS` (`Lemmas/TravStates.lean`) is `ReachH` with steps of workers of the run and positive fuel (what the identifier
invariant of C03 needs).  Hypotheses besides those above, all decidable, each excluding a known finding or a gap of
the statement: `SemHyp g` = `FullScope` (every parsed node has the `global` shape and all four pool scopes — excludes
finding F10, witness `f10_swarm_scope_disabled`), `PlainNodes` (parsed nodes are neither shared root, dry run, clone
source nor object root: the creation of objects and cloning are not covered), `NoRemoval` (no `f.` unset mode,
`pool_filter` ∈ {reuse, block}: `sync_states` never touches the store — removal is C05's concern), `ProducerSets` (a
parsed parent sets what the child gets through the edge — C07's concern), `UniqueProducer` (a state is set by one class
only: otherwise a worker skips a producer because it holds the state from another class and nobody is told its pool),
`SetsClass` (copies of a class set the same states), `OwnersReal` (owners are workers of the run); `InitShared store`
(initial states are in the shared pool only — excludes finding F5, witness `f5_state_only_in_peer_pool`);
`NamesInj g`, `PreNamesFresh g` (C03's hypotheses for distinct result identifiers: the record a worker reads is the
one its own execution reported — otherwise a stale PASS could be read without a production).  Retries are NOT excluded. -/

/-- Whenever a `resume` step of worker `w` emits a `start` event, it is the start of the test proper of a node `n` that
`w` owns, told the locations `locs` = the `get_location` entries of `n` in the state `sd` in which the start was
decided, and for every state `vs` that `n` gets through a setup edge `e` (visible then) from a parsed parent relevant to
`w`: `vs` is in `w`'s own pool, or in the shared pool, or in the pool of a worker `v` whose location is contained in the
entry of `vs`'s vm in `locs` and which `w` may use, or the parent's class has a result that did not pass ("excepted").

Partial w.r.t. the full C01 statement in exactly the hypotheses listed above (and the states obtained through flat
parents / without producer edge, e.g. of permanent objects, are not covered). -/
theorem start_has_states_partial (g : Graph) (hwf : graphWF g = true) (hroot : (g.node g.root).flat = true)
    (hO : OwnerNames g) (hF : FlatClass g) (hy : SemHyp g) (hN : NamesInj g) (hP : PreNamesFresh g)
    {ncls : Nat} {store : Store} (hI : InitShared store) {H0 : List Nat} {s : State}
    (hr : ReachS g ncls store H0 s) (w : Nat) (out : Outcome) (fuel : Nat)
    (wid cname uid : String) (locs : List (String × String)) (k : Nat)
    (he : Event.start wid cname uid locs k ∈ (resume g s w out fuel).2) :
    ∃ n sd hid, cname = clsName g n .plain ∧ locs = (sd.nd n).getLoc ∧ n < g.nodes.length ∧ (g.node n).owner = some w ∧
      (∀ h ∈ sd.hidden, h ∈ hid) ∧ (∀ h ∈ hid, h ∈ H0) ∧ Trv g H0 sd ∧
      ∀ e ∈ ((visH g hid).node n).setup, (g.node e.1).flat = false → relevant g w e.1 = true →
        ∀ vs ∈ (g.node n).gets, vs.1 ∈ e.2 →
          vs ∈ storeGet sd.store (g.worker w).id ∨ vs ∈ storeGet sd.store "shared" ∨
          (∃ v, vs ∈ storeGet sd.store (g.worker v).id ∧ HasLoc locs vs.1 (workerLoc g v) ∧ mayUse g n w v = true) ∨
          (∃ r ∈ sharedResults g sd e.1, r.status ≠ "PASS") := by
  have sc : SemCtx g store := ⟨hy, hO, hF, hI⟩
  have hw := GraphWF.of_bool hwf
  obtain ⟨n, sd, hid, h1, h2, hn, hidn, hfl, h3, h4, td, _, hav⟩ :=
    (resume_sem g H0 hw hroot sc s w out fuel (hr.reachR.basic hwf) (hr.reachR.uids hwf hN hP)
      (hr.reachH.trv hw hroot hO.uniq) (hr.sem hwf hroot sc hN hP)).2 _ he wid cname uid locs k rfl
  refine ⟨n, sd, hid, h1, h2, hn, (hO w n hn hfl).mp hidn, h3, h4, td, fun e hemem hfp hrel vs hvs hvm => ?_⟩
  rcases hav e hemem hfp hrel vs hvs hvm with h | ⟨v, hv, hl⟩ | h
  · exact Or.inr (Or.inl h)
  · exact Or.inr (Or.inr (Or.inl ⟨v, hv, by rw [h2]; exact hl, mayUse_full hy.fullScope hn hfl w v⟩))
  · exact Or.inr (Or.inr (Or.inr h))

/-- … and the invariant behind it, for every reachable state: (i) what is in a pool was there initially or was produced
by the pool's worker on one of its own parsed copies, which has a result; (ii) the states set by a traversed parsed
copy are sourced — shared pool, pool of a worker `pull_locations` names for the class, or a non-passing result. -/
theorem states_sourced (g : Graph) (hwf : graphWF g = true) (hroot : (g.node g.root).flat = true)
    (hO : OwnerNames g) (hF : FlatClass g) (hy : SemHyp g) (hN : NamesInj g) (hP : PreNamesFresh g)
    {ncls : Nat} {store : Store} (hI : InitShared store) {H0 : List Nat} {s : State} (hr : ReachS g ncls store H0 s) :
    Sem g store s :=
  hr.sem hwf hroot ⟨hy, hO, hF, hI⟩ hN hP

/-- … on a pre-parsed graph (nothing hidden initially): for all setup edges of `n`. -/
theorem start_has_states_partial_eager (g : Graph) (hwf : graphWF g = true) (hroot : (g.node g.root).flat = true)
    (hO : OwnerNames g) (hF : FlatClass g) (hy : SemHyp g) (hN : NamesInj g) (hP : PreNamesFresh g)
    {ncls : Nat} {store : Store} (hI : InitShared store) {s : State}
    (hr : ReachS g ncls store [] s) (w : Nat) (out : Outcome) (fuel : Nat)
    (wid cname uid : String) (locs : List (String × String)) (k : Nat)
    (he : Event.start wid cname uid locs k ∈ (resume g s w out fuel).2) :
    ∃ n sd, cname = clsName g n .plain ∧ locs = (sd.nd n).getLoc ∧ n < g.nodes.length ∧ (g.node n).owner = some w ∧
      Trv g [] sd ∧
      ∀ e ∈ (g.node n).setup, (g.node e.1).flat = false → relevant g w e.1 = true →
        ∀ vs ∈ (g.node n).gets, vs.1 ∈ e.2 →
          vs ∈ storeGet sd.store (g.worker w).id ∨ vs ∈ storeGet sd.store "shared" ∨
          (∃ v, vs ∈ storeGet sd.store (g.worker v).id ∧ HasLoc locs vs.1 (workerLoc g v) ∧ mayUse g n w v = true) ∨
          (∃ r ∈ sharedResults g sd e.1, r.status ≠ "PASS") := by
  obtain ⟨n, sd, hid, h1, h2, hn, ho, _, h4, td, hav⟩ :=
    start_has_states_partial g hwf hroot hO hF hy hN hP hI hr w out fuel wid cname uid locs k he
  have : hid = [] := by
    cases hid with
    | nil => rfl
    | cons a r => exact absurd (h4 a List.mem_cons_self) (by simp)
  subst this
  exact ⟨n, sd, h1, h2, hn, ho, td, hav⟩

/-! ### non-vacuity and the two findings the hypotheses exclude (instances `exSt…` of `Lemmas/TravStates.lean`:
test `a` sets `vm1/a`, net2's test `b` gets it; net1 has a copy of `a` only) -/

theorem exSt_hyps : graphWF exSt = true ∧ (exSt.node exSt.root).flat = true ∧ OwnerNames exSt ∧ FlatClass exSt ∧ SemHyp exSt ∧
    NamesInj exSt ∧ PreNamesFresh exSt ∧ InitShared ([] : Store) :=
  ⟨by decide +kernel, by decide +kernel, ownerNamesB_sound (by decide +kernel), by decide +kernel,
    ⟨by decide +kernel, by decide +kernel, by decide +kernel, by decide +kernel, by decide +kernel, by decide +kernel,
      by decide +kernel⟩,
    namesInjB_sound (by decide +kernel), preFreshB_sound (by decide +kernel), by decide +kernel⟩

example : ReachS exSt 3 [] [] exSt2 :=
  runSched_reachS exSt 3 [] [] 100 (by decide) _ (by decide +kernel) _ ReachS.init

set_option maxRecDepth 100000 in
/-- net1 ran `a` and passed; net2 skips its copy of `a` (the class is finished) and starts `b`, told net1's pool, where
the state is: the third disjunct of `start_has_states_partial` -/
example : Event.start "net2" "1" "2a1" [("vm1", ":/pool/shared net1:/pool/swarm")] 1 ∈ (resume exSt exSt2 1 exNoOut 100).2 ∧
    ("vm1", "a") ∈ storeGet (resume exSt exSt2 1 exNoOut 100).1.store "net1" ∧
    strIn (workerLoc exSt 0) ":/pool/shared net1:/pool/swarm" = true := by
  decide +kernel

example := start_has_states_partial_eager exSt exSt_hyps.1 exSt_hyps.2.1 exSt_hyps.2.2.1 exSt_hyps.2.2.2.1
  exSt_hyps.2.2.2.2.1 exSt_hyps.2.2.2.2.2.1 exSt_hyps.2.2.2.2.2.2.1 exSt_hyps.2.2.2.2.2.2.2
  (runSched_reachS exSt 3 [] [] 100 (by decide) [(0, exNoOut), (0, exPass)] (by decide +kernel) _ ReachS.init) 1 exNoOut 100

set_option maxRecDepth 100000 in
/-- Finding F5 (why `InitShared` is needed): the state exists initially in net1's own pool only.  net1 finds it there
and skips `a` without a result; net2 skips its copy (the class counts as finished, no scan) and starts `b` told the
shared pool only — the state is neither in its own pool, nor in the shared pool, nor is any pool named, nor has the
producing class any result: every disjunct of `start_has_states_partial` fails. -/
theorem f5_state_only_in_peer_pool :
    ¬ InitShared exStore5 ∧
    ReachS exSt 3 exStore5 [] exSt5_1 ∧
    Event.start "net2" "1" "2a1" [("vm1", ":/pool/shared")] 1 ∈ (resume exSt exSt5_1 1 exNoOut 100).2 ∧
    ("vm1", "a") ∉ storeGet (resume exSt exSt5_1 1 exNoOut 100).1.store "net2" ∧
    ("vm1", "a") ∉ storeGet (resume exSt exSt5_1 1 exNoOut 100).1.store "shared" ∧
    strIn (workerLoc exSt 0) ":/pool/shared" = false ∧
    sharedResults exSt (resume exSt exSt5_1 1 exNoOut 100).1 1 = [] :=
  ⟨by decide +kernel, runSched_reachS exSt 3 exStore5 [] 100 (by decide) _ (by decide +kernel) _ ReachS.init,
    by decide +kernel⟩

set_option maxRecDepth 100000 in
/-- Finding F10 (why `FullScope` is needed): with the `swarm` scope disabled net2 is still told net1's pool — the only
place where the state is — which it may not use; the producing class has passed, so nothing excepts the start. -/
theorem f10_swarm_scope_disabled :
    ¬ FullScope exSt10 ∧
    ReachS exSt10 3 [] [] exSt10_2 ∧
    Event.start "net2" "1" "2a1" [("vm1", ":/pool/shared net1:/pool/swarm")] 1 ∈ (resume exSt10 exSt10_2 1 exNoOut 100).2 ∧
    ("vm1", "a") ∉ storeGet (resume exSt10 exSt10_2 1 exNoOut 100).1.store "net2" ∧
    ("vm1", "a") ∉ storeGet (resume exSt10 exSt10_2 1 exNoOut 100).1.store "shared" ∧
    ("vm1", "a") ∈ storeGet (resume exSt10 exSt10_2 1 exNoOut 100).1.store "net1" ∧
    mayUse exSt10 2 1 0 = false ∧
    (sharedResults exSt10 (resume exSt10 exSt10_2 1 exNoOut 100).1 1).all (fun r => r.status == "PASS") = true :=
  ⟨by decide +kernel, runSched_reachS exSt10 3 [] [] 100 (by decide) _ (by decide +kernel) _ ReachS.init,
    by decide +kernel⟩

/-! ## the semantic core WITH state removal on pre-parsed graphs: `start_has_states_removal_partial`

`NoRemoval` is dropped.  Common hypotheses (all decidable): `Clean.WellFormed g ncls` (the hypotheses of C05's run-level
theorem: edges recorded at both ends, one copy per class and worker, flat root without parents, registers for every
class, …), `SemHypR g` = `SemHyp g` with `NoRemoval` replaced by `NoCopyBack` (`pool_filter` ∈ {reuse, block}: backing
out never copies states from the shared pool into the own one); nothing hidden initially (`ReachS … []`).

Invariant (`Lemmas/TravStatesRm.lean`), inductive without further hypotheses: `SemR` = `Prov` ∧ `FinSrcR` ∧ `FinRes` — the
set states of a traversed parsed copy are sourced, OR a removable copy of its class is cleanup-ready for its owner
(`reverse_node` is only reached on a cleanup-ready node, and `droppedCleanup` registers only grow); the class of a
traversed stateless copy has a result.  At the start of a dependant `n` the second alternative has to be refuted:

* `start_has_states_removal_partial`: `RemovableSingle` (a class one of whose set states has an `f…` unset mode has ONE
  parsed copy — in particular every graph with a single worker, `start_has_states_removal_single_worker`).  The copy is
  then the starting worker's own one, and C05's invariant `CInv` on the state the step ends in says that the worker, which
  awaits the test on `n`, has not dropped `n` — but a cleanup-ready parent has.
* `start_has_states_removal_symmetric_partial`: `SymCopies` (the copies of a removable class have dependants of the
  same classes) and `MaxTriesOne` (no retries), any number of copies.  The owner of the cleanup-ready copy has dropped,
  hence traversed, its copy of the class of `n`; but without retries `n` is only run when its class has no result
  (stateless) or no traversed copy (stateful).

Neither can simply be dropped: `removed_state_stale_location` (two copies, the dependant parsed for one worker only). -/

/-- With removal, one copy per removable class: whenever a `resume` step (positive fuel) of a worker `w` of the run emits
a `start` event on a pre-parsed graph, it is the start of the test proper of a node `n` that `w` owns, told the locations
`locs` = the `get_location` entries of `n` in the state `sd` in which the start was decided, and every state `vs` that `n`
gets through a setup edge from a parsed parent relevant to `w` is — in `sd`, i.e. not removed — in `w`'s own pool, or in
the shared pool, or in the pool of a worker `v` of the run whose location is contained in the entry of `vs`'s vm in
`locs` and which `w` may use, or the parent's class has a result that did not pass.

Partial w.r.t. the full C01 statement in the hypotheses of `start_has_states_partial` (minus `NoRemoval`) and in:
pre-parsed graph, `NoCopyBack`, `RemovableSingle`. -/
theorem start_has_states_removal_partial (g : Graph) {ncls : Nat} (hW : Clean.WellFormed g ncls) (hy : SemHypR g)
    (hRS : RemovableSingle g)
    (hN : NamesInj g) (hP : PreNamesFresh g) {store : Store} (hI : InitShared store) {s : State}
    (hr : ReachS g ncls store [] s) (w : Nat) (hw : w < g.workers.length) (out : Outcome) (fuel : Nat) (hfuel : 0 < fuel)
    (wid cname uid : String) (locs : List (String × String)) (k : Nat)
    (he : Event.start wid cname uid locs k ∈ (resume g s w out fuel).2) :
    ∃ n sd, cname = clsName g n .plain ∧ locs = (sd.nd n).getLoc ∧ n < g.nodes.length ∧ (g.node n).owner = some w ∧
      Trv g [] sd ∧
      ∀ e ∈ (g.node n).setup, (g.node e.1).flat = false → relevant g w e.1 = true →
        ∀ vs ∈ (g.node n).gets, vs.1 ∈ e.2 →
          vs ∈ storeGet sd.store (g.worker w).id ∨ vs ∈ storeGet sd.store "shared" ∨
          (∃ v, v < g.workers.length ∧ vs ∈ storeGet sd.store (g.worker v).id ∧ HasLoc locs vs.1 (workerLoc g v) ∧
            mayUse g n w v = true) ∨
          (∃ r ∈ sharedResults g sd e.1, r.status ≠ "PASS") := by
  have hwf := hW.1
  have hO : OwnerNames g := ownerNamesB_sound hW.2.1
  have H := hW.hyp
  have hroot := H.top.1
  have sc : SemCtxR g store := ⟨hy, hO, hW.2.2.1, hI⟩
  have hgw := GraphWF.of_bool hwf
  obtain ⟨_, hev⟩ := resume_semR g hgw hroot sc s w out fuel (hr.reachR.basic hwf) (hr.reachR.uids hwf hN hP)
    (hr.reachH.trv hgw hroot hO.uniq) (hr.semR hwf hroot sc hN hP)
  rcases hev _ he with hns | hst
  · exact absurd rfl (hns wid cname uid locs k)
  obtain ⟨n, sd, h1, h2, hn, hidn, hfl, td, _, hav, _, hreg, hwl, hpc⟩ := hst wid cname uid locs k rfl
  -- C05's invariant on the state the step ends in: `w` awaits the test on `n` and has not dropped `n`
  have ci := (hr.reachC.cinv H hW.2.2.2.2.2.2.1).step H w out fuel hw hfuel
  obtain ⟨dir, uid', tag, hpc'⟩ := hpc (by rw [← hwl, ci.wl]; exact hw)
  have hnd := ci.not_dropped_in_flight w n .plain dir uid' tag 0 hpc'
  refine ⟨n, sd, h1, h2, hn, (hO w n hn hfl).mp hidn, td, fun e hemem hfp hrel vs hvs hvm => ?_⟩
  rcases hav e hemem hfp hrel vs hvs hvm with h | ⟨v, hvl, hv, hl⟩ | h | ⟨i, u, hil, hfi, hic, hio, hrem, hcr⟩
  · exact Or.inr (Or.inl h)
  · exact Or.inr (Or.inr (Or.inl ⟨v, hvl, hv, by rw [h2]; exact hl, mayUse_full hy.fullScope hn hfl w v⟩))
  · exact Or.inr (Or.inr (Or.inr h))
  · -- the removable copy is `w`'s own copy of the parent; it is cleanup-ready for `w`: then `w` has dropped `n`
    exfalso
    have hpl : e.1 < g.nodes.length := hgw.setup_lt n e hemem
    have hie : i = e.1 := hRS i hil e.1 hpl hfi hfp hrem hic
    rw [hie] at hio hcr
    have hou : (g.node e.1).owner = some w := (hO w e.1 hpl hfp).mp (relevant_nonflat hrel hfp)
    rw [hou] at hio
    cases hio
    have hsym : n ∈ (g.node e.1).cleanup.map (·.1) := (H.sym e.1 hpl n hn).mp (List.mem_map.mpr ⟨e, hemem, rfl⟩)
    obtain ⟨q, hq, hqn⟩ := List.mem_map.mp hsym
    have := (cleanup_ready_iff g sd e.1 w).mp hcr q hq (by rw [hqn]; exact relevant_of_idIn hidn)
    rw [hqn] at this
    exact hnd ⟨(g.node e.1).cls, by rw [hreg]; exact this⟩

/-- (1) The single-worker case: with ONE worker no hypothesis on the removal policies is needed beyond `NoCopyBack`
(the worker's own removals never precede its own dependants' starts) — `RemovableSingle` follows from one copy per class
and worker (`CopyUniq`, part of `WellFormed`) and from every parsed node having an owner (`ParsedOwned`).  Every state
a started test gets from a parsed parent is then in the worker's own pool, in the shared pool, or the parent's class
has a result that did not pass. -/
theorem start_has_states_removal_single_worker (g : Graph) {ncls : Nat} (hW : Clean.WellFormed g ncls)
    (h1 : g.workers.length = 1) (hPO : ParsedOwned g) (hy : SemHypR g)
    (hN : NamesInj g) (hP : PreNamesFresh g) {store : Store} (hI : InitShared store) {s : State}
    (hr : ReachS g ncls store [] s) (out : Outcome) (fuel : Nat) (hfuel : 0 < fuel)
    (wid cname uid : String) (locs : List (String × String)) (k : Nat)
    (he : Event.start wid cname uid locs k ∈ (resume g s 0 out fuel).2) :
    ∃ n sd, cname = clsName g n .plain ∧ locs = (sd.nd n).getLoc ∧ n < g.nodes.length ∧ (g.node n).owner = some 0 ∧
      Trv g [] sd ∧
      ∀ e ∈ (g.node n).setup, (g.node e.1).flat = false → relevant g 0 e.1 = true →
        ∀ vs ∈ (g.node n).gets, vs.1 ∈ e.2 →
          vs ∈ storeGet sd.store (g.worker 0).id ∨ vs ∈ storeGet sd.store "shared" ∨
          (∃ r ∈ sharedResults g sd e.1, r.status ≠ "PASS") := by
  obtain ⟨n, sd, a1, a2, a3, a4, a5, hav⟩ := start_has_states_removal_partial g hW hy
    (removableSingle_of_one_worker h1 hy.ownersReal hPO hW.2.2.2.2.1)
    hN hP hI hr 0 (by omega) out fuel hfuel wid cname uid locs k he
  refine ⟨n, sd, a1, a2, a3, a4, a5, fun e hemem hfp hrel vs hvs hvm => ?_⟩
  rcases hav e hemem hfp hrel vs hvs hvm with h | h | ⟨v, hvl, hv, _, _⟩ | h
  · exact Or.inl h
  · exact Or.inr (Or.inl h)
  · have hv0 : v = 0 := by omega
    subst hv0; exact Or.inl hv
  · exact Or.inr (Or.inr h)

/-- (2) Several copies of a removable class: with `SymCopies` (for every dependant of a copy of a removable class that the
copy's owner cares for, every removable copy of the class has a dependant of the same class that ITS owner cares for) and
`MaxTriesOne` (no retries) the same conclusion holds for every step of every worker — whoever removed the state had
dropped, hence traversed, its own copy of the dependant's class, and a class with a traversed copy (stateful) or a result
(stateless) is never run again without retries.  No hypothesis on the scopes of the workers. -/
theorem start_has_states_removal_symmetric_partial (g : Graph) {ncls : Nat} (hW : Clean.WellFormed g ncls)
    (hy : SemHypR g) (hSym : SymCopies g) (hMT : MaxTriesOne g)
    (hN : NamesInj g) (hP : PreNamesFresh g) {store : Store} (hI : InitShared store) {s : State}
    (hr : ReachS g ncls store [] s) (w : Nat) (out : Outcome) (fuel : Nat)
    (wid cname uid : String) (locs : List (String × String)) (k : Nat)
    (he : Event.start wid cname uid locs k ∈ (resume g s w out fuel).2) :
    ∃ n sd, cname = clsName g n .plain ∧ locs = (sd.nd n).getLoc ∧ n < g.nodes.length ∧ (g.node n).owner = some w ∧
      Trv g [] sd ∧
      ∀ e ∈ (g.node n).setup, (g.node e.1).flat = false → relevant g w e.1 = true →
        ∀ vs ∈ (g.node n).gets, vs.1 ∈ e.2 →
          vs ∈ storeGet sd.store (g.worker w).id ∨ vs ∈ storeGet sd.store "shared" ∨
          (∃ v, v < g.workers.length ∧ vs ∈ storeGet sd.store (g.worker v).id ∧ HasLoc locs vs.1 (workerLoc g v) ∧
            mayUse g n w v = true) ∨
          (∃ r ∈ sharedResults g sd e.1, r.status ≠ "PASS") := by
  have hwf := hW.1
  have hO : OwnerNames g := ownerNamesB_sound hW.2.1
  have hF : FlatClass g := hW.2.2.1
  have H := hW.hyp
  have hroot := H.top.1
  have sc : SemCtxR g store := ⟨hy, hO, hF, hI⟩
  have hgw := GraphWF.of_bool hwf
  obtain ⟨_, hev⟩ := resume_semR g hgw hroot sc s w out fuel (hr.reachR.basic hwf) (hr.reachR.uids hwf hN hP)
    (hr.reachH.trv hgw hroot hO.uniq) (hr.semR hwf hroot sc hN hP)
  rcases hev _ he with hns | hst
  · exact absurd rfl (hns wid cname uid locs k)
  obtain ⟨n, sd, h1, h2, hn, hidn, hfl, td, jd, hav, hwhy, _, _, _⟩ := hst wid cname uid locs k rfl
  obtain ⟨w1, w2⟩ := hwhy (hMT n hn)
  refine ⟨n, sd, h1, h2, hn, (hO w n hn hfl).mp hidn, td, fun e hemem hfp hrel vs hvs hvm => ?_⟩
  rcases hav e hemem hfp hrel vs hvs hvm with h | ⟨v, hvl, hv, hl⟩ | h | ⟨i, u, hil, hfi, hic, hio, hrem, hcr⟩
  · exact Or.inr (Or.inl h)
  · exact Or.inr (Or.inr (Or.inl ⟨v, hvl, hv, by rw [h2]; exact hl, mayUse_full hy.fullScope hn hfl w v⟩))
  · exact Or.inr (Or.inr (Or.inr h))
  · -- a removable copy `i` of the parent's class is cleanup-ready for its owner `u`: `u` has traversed its copy `x` of
    -- the class of `n`, so `n` would not have been run
    exfalso
    have hpl : e.1 < g.nodes.length := hgw.setup_lt n e hemem
    have hoe : (g.node e.1).owner = some w := (hO w e.1 hpl hfp).mp (relevant_nonflat hrel hfp)
    have hsym : n ∈ (g.node e.1).cleanup.map (·.1) := (H.sym e.1 hpl n hn).mp (List.mem_map.mpr ⟨e, hemem, rfl⟩)
    obtain ⟨q, hq, hqn⟩ := List.mem_map.mp hsym
    obtain ⟨c', hc'mem, hc'cls, hc'rel⟩ := hSym e.1 hpl i hil hfp hfi hic.symm hrem w (hy.ownersReal.lt hpl hoe) u
      (hy.ownersReal.lt hil hio) hoe hio q hq (by rw [hqn]; exact relevant_of_idIn hidn)
    have hdr := (cleanup_ready_iff g sd i u).mp hcr c' hc'mem hc'rel
    obtain ⟨x, hxl, hxc, _, hxf⟩ := td.dropC _ _ u hdr
    have hxn : (g.node x).cls = (g.node n).cls := by rw [hxc, hc'cls, hqn]
    have hflx : (g.node x).flat = false := by rw [hF x hxl n hn hxn]; exact hfl
    have hfx := hxf hflx
    cases hs : (g.node n).sets with
    | nil =>
      have hsx : (g.node x).sets = [] := by rw [hy.setsClass x hxl n hn hxn]; exact hs
      obtain ⟨r, hr'⟩ := jd.res x hxl hflx (by rw [hfx]; rfl) hsx
      have := sharedResults_class g sd x n hxl hn hflx hfl hxn r hr'
      rw [w1 hs] at this
      cases this
    | cons a l =>
      have := w2 (by rw [hs]; exact List.cons_ne_nil a l) x ((mem_copies_iff g n x hn hfl).mpr ⟨hxl, hxn⟩)
      rw [hfx] at this
      cases this

/-! ### non-vacuity (instances `exRm1`, `exRm2`, `exRmSym` of `Lemmas/TravStatesRm.lean`) -/

theorem exRm1_hyps : Clean.WellFormed exRm1 3 ∧ exRm1.workers.length = 1 ∧ ParsedOwned exRm1 ∧ SemHypR exRm1 ∧
    NamesInj exRm1 ∧ PreNamesFresh exRm1 ∧ ¬ NoRemoval exRm1 :=
  ⟨by decide +kernel, by decide +kernel, by decide +kernel,
    ⟨by decide +kernel, by decide +kernel, by decide +kernel, by decide +kernel, by decide +kernel, by decide +kernel,
      by decide +kernel⟩,
    namesInjB_sound (by decide +kernel), preFreshB_sound (by decide +kernel), by decide +kernel⟩

example : ReachS exRm1 3 [] [] exRm1_2 :=
  runSched_reachS exRm1 3 [] [] 100 (by decide) _ (by decide +kernel) _ ReachS.init

set_option maxRecDepth 100000 in
/-- one worker, `a` sets `vm1/a` with the removal policy `fi`: when `a` has passed, `b` is started with the state in
the worker's own pool; when `b` has passed, `b` is dropped, `a` is reversed and only then the state is removed -/
example : Event.start "net1" "1" "2a1" [("vm1", ":/pool/shared net1:/pool/swarm")] 1 ∈ (resume exRm1 exRm1_1 0 exPass 100).2 ∧
    ("vm1", "a") ∈ storeGet (resume exRm1 exRm1_1 0 exPass 100).1.store "net1" ∧
    Event.door "net1" "unset" [("vm1", "a")] ["own"] true ∈ (resume exRm1 exRm1_2 0 exPass 100).2 ∧
    ("vm1", "a") ∉ storeGet (resume exRm1 exRm1_2 0 exPass 100).1.store "net1" := by
  decide +kernel

example := start_has_states_removal_single_worker exRm1 exRm1_hyps.1 exRm1_hyps.2.1 exRm1_hyps.2.2.1 exRm1_hyps.2.2.2.1
  exRm1_hyps.2.2.2.2.1 exRm1_hyps.2.2.2.2.2.1 (by decide : InitShared ([] : Store))
  (runSched_reachS exRm1 3 [] [] 100 (by decide) [(0, exNoOut)] (by decide +kernel) _ ReachS.init) exPass 100 (by decide)

/-- two workers in one scope, the removable class parsed for one of them only: the hypotheses of
`start_has_states_removal_partial` are satisfiable with `g.workers.length = 2` -/
theorem exRm2_hyps : Clean.WellFormed exRm2 4 ∧ SemHypR exRm2 ∧ RemovableSingle exRm2 ∧ NamesInj exRm2 ∧
    PreNamesFresh exRm2 ∧ exRm2.workers.length = 2 ∧ Clean.OneScope exRm2 ∧ ¬ NoRemoval exRm2 :=
  ⟨by decide +kernel,
    ⟨by decide +kernel, by decide +kernel, by decide +kernel, by decide +kernel, by decide +kernel, by decide +kernel,
      by decide +kernel⟩,
    by decide +kernel, namesInjB_sound (by decide +kernel), preFreshB_sound (by decide +kernel), by decide +kernel,
    by decide +kernel, by decide +kernel⟩

example := start_has_states_removal_partial exRm2 exRm2_hyps.1 exRm2_hyps.2.1 exRm2_hyps.2.2.1 exRm2_hyps.2.2.2.1
  exRm2_hyps.2.2.2.2.1 (by decide : InitShared ([] : Store))
  (runSched_reachS exRm2 4 [] [] 100 (by decide) [(1, exNoOut), (0, exNoOut)] (by decide +kernel) _ ReachS.init)
  1 (by decide) exPass 100 (by decide)

/-- two workers, every class parsed for both (two copies of the removable class): the hypotheses of
`start_has_states_removal_symmetric_partial` hold, `RemovableSingle` does not -/
theorem exRmSym_hyps : Clean.WellFormed exRmSym 4 ∧ SemHypR exRmSym ∧ SymCopies exRmSym ∧ MaxTriesOne exRmSym ∧
    NamesInj exRmSym ∧ PreNamesFresh exRmSym ∧ ¬ RemovableSingle exRmSym ∧ ¬ NoRemoval exRmSym :=
  ⟨by decide +kernel,
    ⟨by decide +kernel, by decide +kernel, by decide +kernel, by decide +kernel, by decide +kernel, by decide +kernel,
      by decide +kernel⟩,
    by decide +kernel, by decide +kernel, namesInjB_sound (by decide +kernel), preFreshB_sound (by decide +kernel),
    by decide +kernel, by decide +kernel⟩

set_option maxRecDepth 100000 in
/-- net1 ran `a` (PASS) and is running `b`; net2 skips its copy of `a` and starts `d`, told net1's pool, where the state
still is (net1 cannot reverse `a` before it has dropped `b` and `d`) -/
example : Event.start "net2" "3" "3a1" [("vm1", ":/pool/shared net1:/pool/swarm")] 1 ∈ (resume exRmSym exRmSym_2 1 exNoOut 100).2 ∧
    ("vm1", "a") ∈ storeGet (resume exRmSym exRmSym_2 1 exNoOut 100).1.store "net1" := by
  decide +kernel

example := start_has_states_removal_symmetric_partial exRmSym exRmSym_hyps.1 exRmSym_hyps.2.1 exRmSym_hyps.2.2.1
  exRmSym_hyps.2.2.2.1 exRmSym_hyps.2.2.2.2.1 exRmSym_hyps.2.2.2.2.2.1 (by decide : InitShared ([] : Store))
  (runSched_reachS exRmSym 4 [] [] 100 (by decide) [(0, exNoOut), (0, exPass)] (by decide +kernel) _ ReachS.init)
  1 exNoOut 100

set_option maxRecDepth 100000 in
/-- Why `RemovableSingle` resp. `SymCopies` is needed — the stale location.  `exRmStale`: two workers of one scope, the
class `a` (sets `vm1/a`, removal policy `fi`) has a copy for each, the dependant `b` is parsed for net2 only; the graph is
well-formed in the sense of C05, there are no retries, and every other hypothesis of the two theorems holds.  net1 runs
`a` (PASS: the state is in net1's pool), finds its copy without dependants, is the only involved worker (net2 has not
picked `a` yet) and removes the state.  net2 then comes to its copy of `a`: the class counts as finished, so **no scan**
takes place and the rerun rule (`max_tries = 1`) says no; net2 skips `a` and starts `b`, told the shared pool and net1's
pool — the state is in neither, nor in net2's own pool, and the only result of the producing class is the PASS: every
disjunct of the theorems fails.  (The argument "a late worker finds the state missing in its own scan and re-runs the
producer" is not true of `default_run_decision`: the scan is skipped as soon as anybody has finished the class.) -/
theorem removed_state_stale_location :
    Clean.WellFormed exRmStale 3 ∧ Clean.OneScope exRmStale ∧ SemHypR exRmStale ∧ MaxTriesOne exRmStale ∧
    ¬ RemovableSingle exRmStale ∧ ¬ SymCopies exRmStale ∧
    ReachS exRmStale 3 [] [] exRmStale_2 ∧
    Event.door "net1" "unset" [("vm1", "a")] ["own"] true ∈
      (resume exRmStale (runSched exRmStale 100 (initState exRmStale 3 [] []) [(0, exNoOut)]) 0 exPass 100).2 ∧
    Event.start "net2" "1" "2a1" [("vm1", ":/pool/shared net1:/pool/swarm")] 1 ∈ (resume exRmStale exRmStale_2 1 exNoOut 100).2 ∧
    ("vm1", "a") ∉ storeGet (resume exRmStale exRmStale_2 1 exNoOut 100).1.store "net2" ∧
    ("vm1", "a") ∉ storeGet (resume exRmStale exRmStale_2 1 exNoOut 100).1.store "shared" ∧
    ("vm1", "a") ∉ storeGet (resume exRmStale exRmStale_2 1 exNoOut 100).1.store "net1" ∧
    (sharedResults exRmStale (resume exRmStale exRmStale_2 1 exNoOut 100).1 1).all (fun r => r.status == "PASS") = true :=
  ⟨by decide +kernel, by decide +kernel,
    ⟨by decide +kernel, by decide +kernel, by decide +kernel, by decide +kernel, by decide +kernel, by decide +kernel,
      by decide +kernel⟩,
    by decide +kernel, by decide +kernel, by decide +kernel,
    runSched_reachS exRmStale 3 [] [] 100 (by decide) _ (by decide +kernel) _ ReachS.init,
    by decide +kernel⟩

set_option maxRecDepth 100000 in
/-- Why `MaxTriesOne` is needed in `start_has_states_removal_symmetric_partial` (which has no hypothesis on the scopes).
`exRmRetry`: the symmetric graph with the two workers in DIFFERENT swarms, `d` with `max_tries = 3` and
`rerun_status = fail`; every other hypothesis holds.  `c1.net1` runs `a` (PASS) and `b`; `c2.net2` skips `a` and starts
`d` (state in `c1.net1`'s pool).  `c1.net1` finishes `b`, comes to its copy of `d`: the peer's placeholder `UNKNOWN` is
not in the rerun set, so the run decision is negative although `d` has not been decided yet; it drops `d`, its copy of
`a` is cleanup-ready, the clean decision waits for its own swarm only (the known cross-swarm finding of C05) and the state
is removed.  Then `d` FAILS on `c2.net2`: now every status is in the rerun set, two tries are left, and `c2.net2` starts `d`
again (`3a1r1`), told `c1.net1`'s pool — where the state no longer is. -/
theorem retries_cross_swarm_stale_restart :
    Clean.WellFormed exRmRetry 4 ∧ SemHypR exRmRetry ∧ SymCopies exRmRetry ∧ ¬ MaxTriesOne exRmRetry ∧
    ¬ Clean.OneScope exRmRetry ∧
    ReachS exRmRetry 4 [] [] exRmRetry_4 ∧
    Event.start "c2.net2" "3" "3a1r1" [("vm1", ":/pool/shared c1.net1:/pool/swarm")] 1 ∈ (resume exRmRetry exRmRetry_4 1 exFail 100).2 ∧
    ("vm1", "a") ∉ storeGet (resume exRmRetry exRmRetry_4 1 exFail 100).1.store "c2.net2" ∧
    ("vm1", "a") ∉ storeGet (resume exRmRetry exRmRetry_4 1 exFail 100).1.store "shared" ∧
    ("vm1", "a") ∉ storeGet (resume exRmRetry exRmRetry_4 1 exFail 100).1.store "c1.net1" ∧
    (sharedResults exRmRetry (resume exRmRetry exRmRetry_4 1 exFail 100).1 1).all (fun r => r.status == "PASS") = true :=
  ⟨by decide +kernel,
    ⟨by decide +kernel, by decide +kernel, by decide +kernel, by decide +kernel, by decide +kernel, by decide +kernel,
      by decide +kernel⟩,
    by decide +kernel, by decide +kernel, by decide +kernel,
    runSched_reachS exRmRetry 4 [] [] 100 (by decide) _ (by decide +kernel) _ ReachS.init,
    by decide +kernel⟩

end I2N.Props.C01
