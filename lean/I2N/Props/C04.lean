import I2N.Lemmas.Trav
import I2N.Model.TravMon
/-!
# C04 — A test is never executed by two workers of one scope at the same time

Model: `I2N/Model/Trav.lean`, `TravStep.lean` (the one `drv_trav` runs); monitors: `TravMon.lean`.
-/
namespace I2N.Props.C04
open I2N.Trav

/-- What the overlap monitor decides: it accepts a trace exactly when every execution interval `j`
starts with fewer than `limit` executions of the same class open within the scope of `j`'s worker —
unless an earlier execution of that class overran its timeout budget (then the code deliberately
allows re-entrancy and the property's guarantee is void for that class). -/
theorem overlapOk_iff (g : Graph) (t : List MEv) :
    overlapOk g t = true ↔
      ∀ j ∈ intervals t,
        ((intervals t).filter (fun i => i.cls == j.cls && i.s < j.s && j.s < i.e && inScope g j.cls j.w i.w)).length + 1
            ≤ limitOf g j.cls j.w ∨ overran g (intervals t) j = true := by
  unfold overlapOk overlapViolations
  rw [filterMap_ite_isEmpty]
  constructor
  · intro h j hj
    have := h j hj
    simp only [Bool.and_eq_false_imp, decide_eq_true_eq, Bool.not_eq_false'] at this
    by_cases hc : ((intervals t).filter (fun i => i.cls == j.cls && i.s < j.s && j.s < i.e && inScope g j.cls j.w i.w)).length + 1
        > limitOf g j.cls j.w
    · right; exact this hc
    · left; omega
  · intro h j hj
    simp only [Bool.and_eq_false_imp, decide_eq_true_eq, Bool.not_eq_false']
    intro hc
    rcases h j hj with h1 | h1
    · omega
    · exact h1

/-- A worker that finds the node it stands at occupied does not block and does not join in: the
iteration ends in a sleep of a bounded period `q = max(timeout·tries/10, 10)` hundredths of a second
(at least 0.1 s, one per mille of the node's budget), its path is reset to the root so that it looks
for other work, and no node's `started` mark or result list is touched. -/
theorem bounce_backs_off (g : Graph) (s : State) (w next : Nat)
    (hroot : isCleanupReady g s g.root w = false)
    (hlast : (s.wd w).path.getLast? = some next) (hlen : (s.wd w).path.length ≠ 1)
    (hocc : isOccupied g s next w = true) :
    ∃ s' q, iter g s w = (s', [Event.sleep (g.worker w).id q], Flow.suspend) ∧ 10 ≤ q ∧
      q = max (((g.node next).timeout * ((g.node next).maxTries.getD 1) : Int).toNat / 10) 10 ∧
      (∀ n, (s'.nd n).started = (s.nd n).started ∧ (s'.nd n).results = (s.nd n).results) := by
  unfold iter
  simp only [hroot, hlast, hlen, hocc, Bool.false_eq_true, if_false, if_true, beq_iff_eq]
  refine ⟨_, _, rfl, by omega, rfl, ?_⟩
  intro n
  constructor
  · split
    · split <;> simp [nd_setNd_proj (·.started)]
    · simp
  · split
    · split <;> simp [nd_setNd_proj (·.results)]
    · simp

/-- The occupation check and the `started` mark are one atomic block: `traverse_node` on an occupied
node marks nothing (`if test_node.is_occupied(worker): return`). -/
theorem enter_only_if_free (g : Graph) (s : State) (n w : Nat) (hocc : isOccupied g s n w = true) :
    reverseNode g s n w = .ok (s, []) := by
  simp [reverseNode, hocc]

/-! ### non-vacuity: three workers converging on one `customize` node -/

def g3 : Graph :=
  { workers := [{ id := "net1", swarm := "localhost" }, { id := "net2", swarm := "localhost" }, { id := "net3", swarm := "localhost" }],
    nodes := [
      { cls := 0, owner := some 0, name := "all.customize.vms.vm1.nets.localhost.net1", pfx := "1a1", sets := [("vm1", "customize")], objs := ["vm1"], setup := [(3, ["vm1"])] },
      { cls := 0, owner := some 1, name := "all.customize.vms.vm1.nets.localhost.net2", pfx := "1a1", sets := [("vm1", "customize")], objs := ["vm1"], setup := [(3, ["vm1"])] },
      { cls := 0, owner := some 2, name := "all.customize.vms.vm1.nets.localhost.net3", pfx := "1a1", sets := [("vm1", "customize")], objs := ["vm1"], setup := [(3, ["vm1"])] },
      { cls := 1, owner := none, name := "all.internal.stateless.noop", pfx := "1", flat := true, sharedRoot := true,
        cleanup := [(0, ["vm1"]), (1, ["vm1"]), (2, ["vm1"])] }],
    root := 3 }

def s3 : State :=
  let s := initState g3 2 []
  -- net1 is inside the customize node; net2 stands at its own copy
  (s.setNd 0 (fun d => { d with started := some 0 })).setWd 1 (fun d => { d with path := [3, 1] })

example : isOccupied g3 s3 1 1 = true := by decide
example : isCleanupReady g3 s3 g3.root 1 = false := by decide
example : (iter g3 s3 1).2.1 = [Event.sleep "net2" 10] := by decide

end I2N.Props.C04
