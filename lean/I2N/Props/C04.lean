import I2N.Lemmas.Trav
import I2N.Lemmas.TravExcl
import I2N.Model.TravMon
import I2N.Lemmas.PyGen
import I2N.Extracted.GenScope
import I2N.Extracted.GenBackoff
import I2N.Lemmas.TravBackoff
/-!
# C04 — A test is never executed by two workers of one scope at the same time

Model: `I2N/Model/Trav.lean`, `TravStep.lean` (the one `drv_trav` runs); monitors: `TravMon.lean`.

The headline is `exclusion` (below): in every state the scheduler can reach — any graph, any number of workers,
any interleaving of `resume` steps, any test outcomes — the number of workers within one reuse scope that hold the
`started` mark of a class (the mark is set before the run decision and cleared after the test and its clean-up, so
it covers every execution, DESIGN.md §6) is at most the class' threshold.  Vocabulary and the preservation proofs
per model function are in `I2N/Lemmas/TravExcl.lean`.
-/
namespace I2N.Props.C04
open I2N.Trav

/-- What the overlap monitor decides: it accepts a trace exactly when every execution interval `j`
starts with fewer than `limit` executions of the same class open within the scope of `j`'s worker —
unless an earlier execution of that class overran its timeout budget (then the code deliberately
allows re-entrancy and the property's guarantee is void for that class). -/
theorem overlapOk_iff (g : Graph) (t : List MEv) :
    overlapOk g t = true ↔
      ∀ j ∈ intervals t,
        ((intervals t).filter (fun i => i.cls == j.cls && i.s < j.s && j.s < i.e && inScope g j.cls j.w i.w)).length + 1
            ≤ limitOf g j.cls j.w ∨ overran g (intervals t) j = true := by
  unfold overlapOk overlapViolations
  rw [filterMap_ite_isEmpty]
  constructor
  · intro h j hj
    have := h j hj
    simp only [Bool.and_eq_false_imp, decide_eq_true_eq, Bool.not_eq_false'] at this
    by_cases hc : ((intervals t).filter (fun i => i.cls == j.cls && i.s < j.s && j.s < i.e && inScope g j.cls j.w i.w)).length + 1
        > limitOf g j.cls j.w
    · right; exact this hc
    · left; omega
  · intro h j hj
    simp only [Bool.and_eq_false_imp, decide_eq_true_eq, Bool.not_eq_false']
    intro hc
    rcases h j hj with h1 | h1
    · omega
    · exact h1

/-- A worker that finds the node it stands at occupied does not block and does not join in: the
iteration ends in a sleep of a bounded period `q = max(timeout·max(tries,1)/10, 10)` hundredths of a second
(at least 0.1 s, one per mille of the node's budget), its path is reset to the root so that it looks
for other work, and no node's `started` mark or result list is touched. -/
theorem bounce_backs_off (g : Graph) (s : State) (w next : Nat)
    (hroot : isCleanupReady g s g.root w = false)
    (hlast : (s.wd w).path.getLast? = some next) (hlen : (s.wd w).path.length ≠ 1)
    (hocc : isOccupied g s next w = true) :
    ∃ s' q, iter g s w = (s', [Event.sleep (g.worker w).id q], Flow.suspend) ∧ 10 ≤ q ∧
      q = max (((g.node next).timeout * max ((g.node next).maxTries.getD 1) 1 : Int).toNat / 10) 10 ∧
      (∀ n, (s'.nd n).started = (s.nd n).started ∧ (s'.nd n).results = (s.nd n).results) := by
  unfold iter
  simp only [hroot, hlast, hlen, hocc, Bool.false_eq_true, if_false, if_true, beq_iff_eq]
  refine ⟨_, _, rfl, by omega, rfl, ?_⟩
  intro n
  constructor
  · split
    · split <;> simp [nd_setNd_proj (·.started)]
    · simp
  · split
    · split <;> simp [nd_setNd_proj (·.results)]
    · simp

/-- The occupation check and the `started` mark are one atomic block: `traverse_node` on an occupied
node marks nothing (`if test_node.is_occupied(worker): return`). -/
theorem enter_only_if_free (g : Graph) (s : State) (n w : Nat) (hocc : isOccupied g s n w = true) :
    reverseNode g s n w = .ok (s, []) := by
  simp [reverseNode, hocc]

/-! ### non-vacuity: three workers converging on one `customize` node -/

def g3 : Graph :=
  { workers := [{ id := "net1", swarm := "localhost" }, { id := "net2", swarm := "localhost" }, { id := "net3", swarm := "localhost" }],
    nodes := [
      { cls := 0, owner := some 0, name := "all.customize.vms.vm1.nets.localhost.net1", pfx := "1a1", sets := [("vm1", "customize")], objs := ["vm1"], setup := [(3, ["vm1"])] },
      { cls := 0, owner := some 1, name := "all.customize.vms.vm1.nets.localhost.net2", pfx := "1a1", sets := [("vm1", "customize")], objs := ["vm1"], setup := [(3, ["vm1"])] },
      { cls := 0, owner := some 2, name := "all.customize.vms.vm1.nets.localhost.net3", pfx := "1a1", sets := [("vm1", "customize")], objs := ["vm1"], setup := [(3, ["vm1"])] },
      { cls := 1, owner := none, name := "all.internal.stateless.noop", pfx := "1", flat := true, sharedRoot := true,
        cleanup := [(0, ["vm1"]), (1, ["vm1"]), (2, ["vm1"])] }],
    root := 3 }

def s3 : State :=
  let s := initState g3 2 []
  -- net1 is inside the customize node; net2 stands at its own copy
  (s.setNd 0 (fun d => { d with started := some 0 })).setWd 1 (fun d => { d with path := [3, 1] })

example : isOccupied g3 s3 1 1 = true := by decide
example : isCleanupReady g3 s3 g3.root 1 = false := by decide
example : (iter g3 s3 1).2.1 = [Event.sleep "net2" 10] := by decide

/-! ### the exclusion invariant over all reachable states

Vocabulary (`Lemmas/TravExcl.lean`): `scopedCount g s n w` is the very number `is_started` compares with its threshold
for copy `n` and worker `w` (the workers within `w`'s scope — `own`: `w` only, `swarm`: `w`'s swarm, `global`: all — that
have some copy of `n`'s class started); `limit g s n = max(mct, 1)` is the threshold of `is_occupied` in force for copy `n`
(it includes the bumps); `peakLimit` the largest threshold copy `n` has had so far; `classLimit g s c` the maximum of
`peakLimit` over the copies of class `c`; `Inv g s` says `scopedCount g s n w ≤ classLimit g s (cls n)` for all parsed
copies `n` and all `w`.

Hypothesis `Homog g` (static, decidable): the copies of one class agree on the scope shape, and a flat node does not
share a class with a parsed one.  Both halves are needed in the model: an `own`-shaped copy ignores the threshold
(witness `mixed_shapes_overlap` below), and a flat node is never occupied, so its mark would be unguarded.
No well-formedness of the state or of the edges is needed.

Why `peakLimit` and not the current `limit`: the first bump sets `max_concurrent_tries := get_numeric(mct, 0) + 1`,
which *lowers* the threshold of that copy from `max_tries` to 1 when `max_concurrent_tries` was not configured and
`max_tries > 1` (witness `first_bump_may_lower_limit`); workers that entered under the old threshold are still inside.
The bound by the thresholds currently in force is `exclusion_now` (for graphs where thresholds only grow) and
`exclusion_static` (no bump). -/

/-- The bridge: `is_occupied` is "the count within the worker's scope has reached the threshold"
(for shape `own` the code ignores the threshold: occupied iff the worker itself holds the class). -/
theorem occupied_iff_count (g : Graph) (s : State) (n w : Nat) :
    isOccupied g s n w = true ↔
      (g.node n).flat = false ∧
        (match (g.node n).shape with
         | .own => w ∈ sharedStarted g s n
         | .swarm => limit g s n ≤ scopedCount g s n w
         | .global => limit g s n ≤ scopedCount g s n w) :=
  isOccupied_iff g s n w

/-- a worker is let in only when its scope has room -/
theorem room_when_let_in (g : Graph) (s : State) (n w : Nat) (hf : (g.node n).flat = false)
    (h : isOccupied g s n w = false) : scopedCount g s n w < limit g s n :=
  room_of_not_occupied g s n w hf h

/-- initially nothing is started -/
theorem inv_init (g : Graph) (ncls : Nat) (store : List (String × List (String × String))) (hidden : List Nat) :
    Inv g (initState g ncls store hidden) :=
  inv_initState g ncls store hidden

/-- one scheduler step of any worker, with any outcome of the awaited test and any fuel, preserves the invariant -/
theorem inv_resume (g : Graph) (s : State) (w : Nat) (out : Outcome) (fuel : Nat) (hH : Homog g) (hI : Inv g s) :
    Inv g (resume g s w out fuel).1 :=
  I2N.Trav.inv_resume g s w out fuel hH hI

/-- **C04.** In every reachable state, for every parsed copy `n` and every observer `w`, the number of workers in
`w`'s scope that have `n`'s class started is at most the largest threshold of the class. -/
theorem exclusion (g : Graph) (ncls : Nat) (store : List (String × List (String × String))) (s : State)
    (hH : Homog g) (hr : Reachable g ncls store s) : Inv g s := by
  induction hr with
  | init hidden => exact inv_init g ncls store hidden
  | step s w out fuel _ ih => exact inv_resume g s w out fuel hH ih

/-- the same, spelled out -/
theorem exclusion_count (g : Graph) (ncls : Nat) (store : List (String × List (String × String))) (s : State)
    (hH : Homog g) (hr : Reachable g ncls store s) (n : Nat) (hn : n < g.nodes.length) (hf : (g.node n).flat = false)
    (w : Nat) :
    ((sharedStarted g s n).filter (inScopeOf (g.node n).shape g w)).length ≤ classLimit g s (g.node n).cls :=
  exclusion g ncls store s hH hr n hn hf w

/-- the same for an explicit schedule: any list of (worker, outcome) pairs, of any length -/
theorem exclusion_schedule (g : Graph) (ncls : Nat) (store : List (String × List (String × String))) (fuel : Nat)
    (l : List (Nat × Outcome)) (hH : Homog g) (hidden : List Nat := []) :
    Inv g (runSchedule g fuel (initState g ncls store hidden) l) :=
  exclusion g ncls store _ hH (reachable_runSchedule g ncls store fuel l _ (Reachable.init hidden))

/-- Without a bump the static thresholds bound the count: if every copy of `n`'s class has
`max(max_concurrent_tries (default max_tries (default 1)), 1) ≤ B`, at most `B` workers of a scope hold the class. -/
theorem exclusion_static (g : Graph) (ncls : Nat) (store : List (String × List (String × String))) (s : State)
    (hH : Homog g) (hr : Reachable g ncls store s) (hb : NoBump s)
    (n : Nat) (hn : n < g.nodes.length) (hf : (g.node n).flat = false) (B : Nat)
    (hB : ∀ m, m < g.nodes.length → (g.node m).cls = (g.node n).cls → limit0 g m ≤ B) (w : Nat) :
    scopedCount g s n w ≤ B :=
  Nat.le_trans (exclusion g ncls store s hH hr n hn hf w) (classLimit_noBump_le g s _ B hb hB)

/-- uniform static `max_concurrent_tries` within the class: the count never exceeds `max(mct, 1)` -/
theorem exclusion_static_uniform (g : Graph) (ncls : Nat) (store : List (String × List (String × String))) (s : State)
    (hH : Homog g) (hr : Reachable g ncls store s) (hb : NoBump s)
    (n : Nat) (hn : n < g.nodes.length) (hf : (g.node n).flat = false)
    (hU : ∀ m, m < g.nodes.length → (g.node m).cls = (g.node n).cls →
      (g.node m).mct = (g.node n).mct ∧ (g.node m).maxTries = (g.node n).maxTries) (w : Nat) :
    scopedCount g s n w ≤ (max ((g.node n).mct.getD ((g.node n).maxTries.getD 1)) 1).toNat := by
  apply exclusion_static g ncls store s hH hr hb n hn hf _ _ w
  intro m hm hc
  unfold limit0
  rw [(hU m hm hc).1, (hU m hm hc).2]
  exact Nat.le_refl _

/-- Where thresholds only grow (`max_concurrent_tries` configured, or `max_tries ≤ 1`, on every node) the bound is the
maximum over the class of the thresholds *currently* in force, bumps included. -/
theorem exclusion_now (g : Graph) (ncls : Nat) (store : List (String × List (String × String))) (s : State)
    (hH : Homog g) (hM : MonoLimits g) (hr : Reachable g ncls store s)
    (n : Nat) (hn : n < g.nodes.length) (hf : (g.node n).flat = false) (w : Nat) :
    scopedCount g s n w ≤ classLimitNow g s (g.node n).cls := by
  rw [← classLimit_eq_now g s _ hM]
  exact exclusion g ncls store s hH hr n hn hf w

/-- **The sentence of the property.** With threshold 1 on the class (the default) and no bump, two marks of the class
held at the same instant within one scope belong to one and the same worker: a test is never executed by two workers
of one scope at the same time. -/
theorem never_two_workers (g : Graph) (ncls : Nat) (store : List (String × List (String × String))) (s : State)
    (hH : Homog g) (hr : Reachable g ncls store s) (hb : NoBump s)
    (n : Nat) (hn : n < g.nodes.length) (hf : (g.node n).flat = false)
    (h1 : ∀ m, m < g.nodes.length → (g.node m).cls = (g.node n).cls → limit0 g m ≤ 1)
    (i j v v' : Nat) (hi : i ∈ g.copies n) (hj : j ∈ g.copies n)
    (hv : (s.nd i).started = some v) (hv' : (s.nd j).started = some v')
    (hsc : inScopeOf (g.node n).shape g v v' = true) : v = v' :=
  same_worker_of_count_le_one g s n i j v v'
    (exclusion_static g ncls store s hH hr hb n hn hf 1 h1 v) hi hj hv hv' hsc

/-! ### non-vacuity of the invariant theorems -/

/-- a test that never reports -/
def noOut : Outcome := { status := none }

/-- net1 has gone to the customize node and suspended inside it; then net2 came to its own copy, found the class
occupied and bounced -/
def s3r : State := runSchedule g3 10 (initState g3 2 []) [(0, noOut), (1, noOut)]

example : Homog g3 := by decide
example : MonoLimits g3 := by decide
example : Reachable g3 2 [] s3r := reachable_runSchedule g3 2 [] 10 _ _ (Reachable.init [])
example : Inv g3 s3r := exclusion_schedule g3 2 [] 10 _ (by decide)

set_option maxRecDepth 100000 in
/-- the reached state is not trivial: one worker inside, the second one turned away at a full class -/
example : (s3r.nd 0).started = some 0 ∧ (s3r.nd 1).started = none ∧ (s3r.wd 1).path = [3] ∧
    scopedCount g3 s3r 1 1 = 1 ∧ classLimit g3 s3r 0 = 1 ∧ isOccupied g3 s3r 1 1 = true ∧
    s3r.nodes.all (fun d => d.bump == 0) = true := by decide +kernel

/-! lazy expansion: the three composite customize nodes are not parsed at the start (`hidden = [0, 1, 2]`); net1 reaches
the flat customize node, expands it for itself, goes on to its copy and suspends inside it; then net2 expands the flat
node for itself, reaches its own copy, finds the class occupied and bounces. -/

def g3l : Graph :=
  { workers := g3.workers,
    nodes := [
      { cls := 0, owner := some 0, name := "all.customize.vms.vm1.nets.localhost.net1", pfx := "1a1", sets := [("vm1", "customize")], objs := ["vm1"], setup := [(4, ["vm1"])] },
      { cls := 0, owner := some 1, name := "all.customize.vms.vm1.nets.localhost.net2", pfx := "1a1", sets := [("vm1", "customize")], objs := ["vm1"], setup := [(4, ["vm1"])] },
      { cls := 0, owner := some 2, name := "all.customize.vms.vm1.nets.localhost.net3", pfx := "1a1", sets := [("vm1", "customize")], objs := ["vm1"], setup := [(4, ["vm1"])] },
      { cls := 1, owner := none, name := "all.internal.stateless.noop", pfx := "1", flat := true, sharedRoot := true,
        cleanup := [(4, [])] },
      { cls := 2, owner := none, name := "all.customize.vms.vm1", pfx := "1a", flat := true, setless := "all.customize.vms.vm1",
        setup := [(3, [])], cleanup := [(0, ["vm1"]), (1, ["vm1"]), (2, ["vm1"])] }],
    root := 3 }

def s3l : State := runSchedule g3l 30 (initState g3l 3 [] [0, 1, 2]) [(0, noOut), (1, noOut)]

example : Homog g3l := by decide
example : Reachable g3l 3 [] s3l := reachable_runSchedule g3l 3 [] 30 _ _ (Reachable.init [0, 1, 2])
example : Inv g3l s3l := exclusion_schedule g3l 3 [] 30 _ (by decide) [0, 1, 2]

set_option maxRecDepth 100000 in
example : s3l.hidden = [2] ∧ (s3l.nd 0).started = some 0 ∧ (s3l.nd 1).started = none ∧ (s3l.wd 1).path = [3] ∧
    scopedCount g3l s3l 1 1 = 1 ∧ classLimit g3l s3l 0 = 1 ∧ isOccupied g3l s3l 1 1 = true := by decide +kernel

/-- the first bump lowers the threshold of a copy with `max_tries = 3` and no `max_concurrent_tries` from 3 to 1 -/
def gB : Graph :=
  { workers := [{ id := "net1", swarm := "localhost" }],
    nodes := [{ cls := 0, owner := some 0, name := "all.t.vms.vm1.nets.localhost.net1", pfx := "1", maxTries := some 3 }],
    root := 0 }

theorem first_bump_may_lower_limit :
    limit gB (initState gB 1 []) 0 = 3 ∧
    limit gB ((initState gB 1 []).setNd 0 (fun d => { d with bump := d.bump + 1 })) 0 = 1 ∧
    peakLimit gB ((initState gB 1 []).setNd 0 (fun d => { d with bump := d.bump + 1 })) 0 = 3 := by decide

/-- `Homog` cannot be dropped: give net2's copy of the customize node the `own` shape (an lxc worker without swarm
next to globally scoped ones); it ignores the threshold and joins net1, so two workers of net1's (global) scope hold
the class although every copy has threshold 1. -/
def g3m : Graph :=
  { g3 with nodes := g3.nodes.modify 1 (fun nd => { nd with shape := .own }) }

def s3m : State := runSchedule g3m 10 (initState g3m 2 []) [(0, noOut), (1, noOut)]

set_option maxRecDepth 100000 in
theorem mixed_shapes_overlap :
    ¬ Homog g3m ∧ Reachable g3m 2 [] s3m ∧ scopedCount g3m s3m 0 0 = 2 ∧ classLimit g3m s3m 0 = 1 :=
  ⟨by decide, reachable_runSchedule g3m 2 [] 10 _ _ (Reachable.init []), by decide +kernel, by decide +kernel⟩

/-! ## The regenerated scope selection (`harness/pygen.py`)

`I2N/Extracted/GenScope.lean` is regenerated on every run from the source of `TestNode.is_started` / `is_finished`
(the selection between counting per worker, per swarm, globally; the three *bodies* are pinned verbatim by the
translator and stand for the Boolean they return) and from `shape_of` of `harness/travlib.py` (the function that
computes the `shape=` field of the static node lines the model is fed with).  The model itself does not read
`nets_spawner` / `pool_scope`: it dispatches on the exported `Node.shape`.  The theorems below close that gap: with the
shape the harness exports, the model's `isStarted` / `isFinished` is the Python's selection applied to the model's three
ways of counting. -/

section Regenerated
open I2N.Extracted.GenScope

/-- how `Driver/Trav.lean` (`parseNode`) reads the `shape=` field of a static node line -/
def shapeOfField (s : String) : Shape := if s = "own" then .own else if s = "swarm" then .swarm else .global

/-- the arm of `scopeCount` for `Shape.own` (Python: `return worker in self.shared_*_workers`) -/
def ownArm (set : List Nat) (w : Nat) : Bool := set.contains w

/-- the arm of `scopeCount` for `Shape.swarm` (Python: the `own_cluster` block) -/
def swarmArm (g : Graph) (s : State) (n : Nat) (set : List Nat) (w : Nat) (thr : Int) : Bool :=
  let own := set.filter (fun v => (g.worker v).swarm == (g.worker w).swarm)
  if thr == -1 then
    sameList own ((involved g s n).filter (fun v => (g.worker v).swarm == (g.worker w).swarm))
  else decide ((own.length : Int) ≥ thr)

/-- the arm of `scopeCount` for `Shape.global` (Python: the final `else`) -/
def globalArm (g : Graph) (s : State) (n : Nat) (set : List Nat) (thr : Int) : Bool :=
  if thr == -1 then sameList set (involved g s n) else decide ((set.length : Int) ≥ thr)

/-- `scopeCount` is the dispatch on the exported shape over the three arms (by definition) -/
theorem scopeCount_arms (g : Graph) (s : State) (n : Nat) (set : List Nat) (w : Nat) (thr : Int) :
    scopeCount g s n set w thr =
      match (g.node n).shape with
      | .own => ownArm set w
      | .swarm => swarmArm g s n set w thr
      | .global => globalArm g s n set thr := by
  unfold scopeCount ownArm swarmArm globalArm
  cases (g.node n).shape <;> rfl

/-- **The harness' `shape_of` is the selection of `is_started` and of `is_finished`.**  For every value of
`nets_spawner` (any string or missing), every `pool_scope` (abstracted to the two substring tests the code makes) and
any three branch values: the Python selection with a worker given returns the branch that `shape_of` names.  No
hypotheses; both sides are generated from source. -/
theorem shapeOf_matches_source (sp : Option String) (sw cl : Bool) (flat o c gl : Bool) :
    genIsStarted flat true sp sw cl o c gl =
      (if flat then false else
        match shapeOfField (genShapeOf sp sw cl) with | .own => o | .swarm => c | .global => gl) ∧
    genIsFinished flat true sp sw cl o c gl =
      (if flat then true else
        match shapeOfField (genShapeOf sp sw cl) with | .own => o | .swarm => c | .global => gl) := by
  rcases PyGen.optStr_cases2 sp "lxc" "remote" with rfl | rfl | rfl | ⟨s, rfl, h1, h2⟩ <;>
    cases flat <;> cases sw <;> cases cl <;>
    simp [genIsStarted, genIsFinished, genShapeOf, shapeOfField, *]

/-- **The model's `isStarted` is the Python source's selection** applied to the model's three ways of counting,
whenever the node's `shape` is the one the harness exports for the node's `nets_spawner` / `pool_scope`.
Hypothesis `hshape`: the static description was produced by `shape_of` (it is, by construction of
`travlib.spec_lines`; a hand-made graph with another shape is outside this tie). -/
theorem isStarted_matches_source (g : Graph) (s : State) (n w : Nat) (thr : Int) (sp : Option String) (sw cl : Bool)
    (hshape : (g.node n).shape = shapeOfField (genShapeOf sp sw cl)) :
    isStarted g s n w thr =
      genIsStarted (g.node n).flat true sp sw cl (ownArm (sharedStarted g s n) w)
        (swarmArm g s n (sharedStarted g s n) w thr) (globalArm g s n (sharedStarted g s n) thr) := by
  rw [(shapeOf_matches_source sp sw cl _ _ _ _).1, isStarted, scopeCount_arms, hshape]

/-- the same for `isFinished` / `is_finished` -/
theorem isFinished_matches_source (g : Graph) (s : State) (n w : Nat) (thr : Int) (sp : Option String) (sw cl : Bool)
    (hshape : (g.node n).shape = shapeOfField (genShapeOf sp sw cl)) :
    isFinished g s n w thr =
      genIsFinished (g.node n).flat true sp sw cl (ownArm (sharedFinished g s n) w)
        (swarmArm g s n (sharedFinished g s n) w thr) (globalArm g s n (sharedFinished g s n) thr) := by
  rw [(shapeOf_matches_source sp sw cl _ _ _ _).2, isFinished, scopeCount_arms, hshape]

/-- Without a worker (`worker=None`, e.g. the `flag` lambdas of `intertest_setup.py`) the Python counts globally whatever
the spawner and scope are; the model has no such call (every `isStarted` / `isFinished` takes a worker). -/
theorem no_worker_counts_globally (sp : Option String) (sw cl o c gl : Bool) :
    genIsStarted false false sp sw cl o c gl = gl ∧ genIsFinished false false sp sw cl o c gl = gl := by
  simp [genIsStarted, genIsFinished]

/-- non-vacuity of `hshape`: the three shapes are all exported (lxc without swarm scope, remote without cluster scope,
anything else), and the `own` copy of `g3m` satisfies `hshape` for an lxc worker without swarm scope -/
example : shapeOfField (genShapeOf (some "lxc") false true) = .own ∧
    shapeOfField (genShapeOf (some "remote") true false) = .swarm ∧
    shapeOfField (genShapeOf (some "lxc") true true) = .global ∧
    shapeOfField (genShapeOf none false false) = .global := by decide
example : (g3m.node 1).shape = shapeOfField (genShapeOf (some "lxc") false true) := by decide

/-! ### The threshold of `is_occupied`

`genIsOccupied` is regenerated from `TestNode.is_occupied`: `max(get_numeric("max_concurrent_tries",
get_numeric("max_tries", 1)), 1)` handed to `is_started`.  The model keeps the static parameters (`Node.mct`,
`Node.maxTries`) and counts the emergency increments separately (`NodeDyn.bump`); `mctParam` says what the parameter
`max_concurrent_tries` of the real copy is in a state of the model — the static one while nobody bumped it, otherwise
the result of `bump` assignments `params["max_concurrent_tries"] = params.get_numeric("max_concurrent_tries", 0) + 1`
(graph.py, the back-off branch of `traverse_object_trees`). -/

/-- the parameter `max_concurrent_tries` of copy `n` in state `s` (`none` = not set) -/
def mctParam (g : Graph) (s : State) (n : Nat) : Option Int :=
  if (((s.nd n).bump : Nat) : Int) > 0 then some (((g.node n).mct.getD 0) + ((s.nd n).bump : Nat)) else (g.node n).mct

/-- **The hand written `isOccupied` is the Python source of `is_occupied`** (threshold computation: the default chain
`max_concurrent_tries` → `max_tries` → 1 and the lower bound 1), for every graph, state, copy and worker; the count
itself is `isStarted` (tied by `isStarted_matches_source`).  No hypotheses. -/
theorem isOccupied_matches_source (g : Graph) (s : State) (n w : Nat) :
    isOccupied g s n w = genIsOccupied (mctParam g s n) (g.node n).maxTries (fun t => isStarted g s n w t) := by
  unfold isOccupied genIsOccupied mctOf mctParam
  by_cases h : (((s.nd n).bump : Nat) : Int) > 0
  · simp only [h, if_true, Option.getD_some]; rfl
  · simp only [h, if_false]; rfl

/-- `mctParam` follows the assignment of the back-off branch: one more bump is
`params["max_concurrent_tries"] = params.get_numeric("max_concurrent_tries", 0) + 1` -/
theorem mctParam_bump (g : Graph) (s s' : State) (n : Nat) (h : (s'.nd n).bump = (s.nd n).bump + 1) :
    mctParam g s' n = some ((mctParam g s n).getD 0 + 1) := by
  unfold mctParam
  rw [h]
  by_cases hb : (s.nd n).bump = 0
  · simp [hb]
  · have : (((s.nd n).bump : Nat) : Int) > 0 := by omega
    have h2 : ((((s.nd n).bump + 1 : Nat)) : Int) > 0 := by omega
    simp only [this, h2, if_true, Option.getD_some]
    congr 1; omega

/-- the generated definition computes: unset parameters give threshold 1, `max_tries=3` alone gives 3, an explicit
`max_concurrent_tries=0` is raised to 1 -/
example : genIsOccupied none none (fun t => t == 1) = true ∧ genIsOccupied none (some 3) (fun t => t == 3) = true ∧
    genIsOccupied (some 0) (some 3) (fun t => t == 1) = true ∧ genIsOccupied (some 2) (some 3) (fun t => t == 2) = true := by
  decide

/-! ### The back-off branch of the worker loop (`traverse_object_trees`)

`genBackoff` (I2N/Extracted/GenBackoff.lean) is regenerated on every run from the body of `if next.is_occupied(worker):`
in the `while` loop of `TestGraph.traverse_object_trees`, cut at its `await asyncio.sleep(<arg>)` (harness/pygen_pxtrav.py):
budget `test_timeout * max(max_tries, 1)`, time out `round(max(budget / 1000, 0.1), 2)`, the test `next in occupied_at`,
the bump of `max_concurrent_tries` when `occupied_wait > budget`, `occupied_wait += time out` against the reset to 0.0,
`occupied_at.add(next)`, the path reset to the root; its value is the frame the coroutine holds when it suspends,
INCLUDING the argument of the sleep.  The three float operations are the Lean `Float` operations of `Trav.iter`
(declared in harness/pygen_pxtrav.py `FLOAT_OPS`); the comparison, the accumulation and the slept time are translated. -/

open I2N.Extracted.GenBackoff in
/-- adapter: the step of worker `w` that the generated branch describes — run it on the loop state of `w` (`occAt`,
`occWait`) and the parameters of the copy `next`, store the frame in the worker record (program counter `bounce`: the
coroutine is suspended in the sleep) and announce the sleep of the duration the branch hands to `asyncio.sleep` -/
def backoffStep (g : Graph) (s : State) (w next : Nat) : Step :=
  let wd := s.wd w
  let nd := g.node next
  let r := (genBackoff (nd.timeout : Int) nd.maxTries next g.root wd.occAt wd.occWait).run s
  (r.2.setWd w (fun d => { d with occAt := r.1.1, occWait := r.1.2.1, path := r.1.2.2.1, pc := .bounce }),
   [Event.sleep (g.worker w).id r.1.2.2.2], .suspend)

open I2N.Extracted.GenBackoff in
/-- **The back-off branch of the hand written `iter` is the Python source**: for every graph, state and worker, whenever
the loop reaches the test `if next.is_occupied(worker):` and it holds (the hypotheses are exactly the tests of the loop
skeleton in front of the branch, which is not translated: the root is not cleanup ready, the path has at least two
entries, `next` is its last entry), one iteration of the model IS the generated branch: same new state (worker record,
bump of the copy), same event (the sleep of the duration the source hands to `asyncio.sleep`, in hundredths), same
flow (suspension).  Not covered: the loop skeleton around the branch and the lazy expansion step in front of it
(`iterL`). -/
theorem backoff_matches_source (g : Graph) (s : State) (w next : Nat)
    (hroot : isCleanupReady g s g.root w = false)
    (hlast : (s.wd w).path.getLast? = some next)
    (hlen : ((s.wd w).path.length == 1) = false)
    (hocc : isOccupied g s next w = true) :
    iter g s w = backoffStep g s w next := by
  unfold iter backoffStep
  simp only [hroot, hlast, hlen, hocc, Bool.false_eq_true, if_false, if_true, genBackoff_run]
  refine Prod.ext ?_ rfl
  show _ = _
  by_cases hin : (s.wd w).occAt.contains next = true
  · by_cases hgt : (s.wd w).occWait > Float.ofInt (((g.node next).timeout : Int) * max ((g.node next).maxTries.getD 1) 1)
    · simp only [hin, hgt, if_true, decide_true, Bool.and_self, setWd_setWd]
      apply setWd_congr
      simp only [Function.comp, wd_setNd, hin, if_true, setAdd, hundredths]
    · simp only [hin, hgt, if_true, if_false, decide_false, Bool.and_false, Bool.false_eq_true, setWd_setWd]
      apply setWd_congr
      simp only [Function.comp, hin, if_true, setAdd, hundredths]
  · simp only [hin, if_false, Bool.false_and, Bool.false_eq_true, setWd_setWd]
    apply setWd_congr
    simp only [Function.comp, hin, if_false, setAdd, Bool.false_eq_true]

/-- non-vacuity: net2 of `g3` stands at its copy of the customize node while net1 is inside the class (`s3` above) -/
example : isCleanupReady g3 s3 g3.root 1 = false ∧ (s3.wd 1).path.getLast? = some 1 ∧
    ((s3.wd 1).path.length == 1) = false ∧ isOccupied g3 s3 1 1 = true := by decide

open I2N.Extracted.GenBackoff in
/-- what the source accounts is what it sleeps: at a node the worker was turned away from before, the wait grows by
exactly the duration handed to `asyncio.sleep` (the fourth component of the frame, in hundredths); at a new node it is
reset.  A statement about the GENERATED definition (so about /repo's current source), for all arguments. -/
theorem backoff_sleep_is_accounted (T : Int) (mt : Option Int) (next root : Nat) (occ : List Nat) (wait : Float) (s : State) :
    let fr := ((genBackoff T mt next root occ wait).run s).1
    fr.2.1 = (if occ.contains next then wait + Float.ofNat fr.2.2.2 / 100.0 else 0.0) ∧
    fr.1 = setAdd occ next ∧ fr.2.2.1 = [root] ∧ fr.2.2.2 = hundredths (T * max (mt.getD 1) 1) := by
  simp only [genBackoff_run, and_self]

end Regenerated

end I2N.Props.C04
