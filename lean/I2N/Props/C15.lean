import I2N.Lemmas.ToolsFlags
import I2N.Lemmas.ToolsReach
import I2N.Extracted.GenUpdate
/-!
# C15 — The update tool reruns exactly the requested path and drops only its dependants

Model: `I2N/Model/Tools.lean` (`flagChildren`, `flagIntersection`, `updateFlags`: the flagging passes of
`intertest_setup.update` for one vm and one worker, in program order; the one `Driver/Tools.lean` runs).

The parser's contract is a hypothesis, not part of the model: the graph parsed for `all..<to_state>` consists of the
state's node and its setup closure (and the shared root), likewise for `all..<from_state>`.  With it, `hit g runNames`
is "ancestor-or-self of the `to_state` node" and `hit g skipNames` is "ancestor-or-self of the `from_state` node"; on a
vm's tree of setup states the run-flagged set `anc(to) \ anc(from) ∪ {from}` is the path from `from_state` to
`to_state`, both included (the spec oracle of the harness checks this reading on every parsed graph).
-/
namespace I2N.Props.C15
open I2N.Tools

/-! ## one pass -/

/-- **clean_flags_exact** — `flag_children` as `update` uses it for the clean pass (`skip_parents=True`): the root `r`
(the state's node) is unique, and the policy goes to exactly the *strict descendants* of `r` — the nodes reachable from
a child of `r` along any number of cleanup edges (`Reach`) — while `r` itself, everything above it and every unrelated
node keep what they had; the run flags are untouched.  (That `|nodes|` layers of the worklist reach every descendant
is `Steps.bounded`: a longer walk repeats a node and can be cut short.) -/
theorem clean_flags_exact (g : UGraph) (fl fl' : Flags) (state : List String) (vm : String) (sel : Option (String × String))
    (p : Pol) (h : flagChildren g fl state vm sel .clean p true false = .ok fl') :
    ∃ r, selectRoots g state vm sel = [r] ∧
      (∀ m, (∃ c ∈ (g.node r).children, Reach g c m) → fl'.clean m = p) ∧
      (∀ m, ¬(∃ c ∈ (g.node r).children, Reach g c m) → fl'.clean m = fl.clean m) ∧
      (∀ m, fl'.run m = fl.run m) := by
  obtain ⟨r, hr, h1, h2⟩ := flagChildren_ok h
  have key : ∀ m, m ∈ flaggedBy g r true false ↔ ∃ c ∈ (g.node r).children, Reach g c m := by
    intro m
    simp only [flaggedBy, if_true, Bool.false_eq_true, if_false, mem_reachWithin]
    constructor
    · rintro ⟨c, hc, j, hj, hs⟩; exact ⟨c, hc, (reach_iff_within g c m).mpr ⟨j, hj, hs⟩⟩
    · rintro ⟨c, hc, hreach⟩
      obtain ⟨j, hj, hs⟩ := (reach_iff_within g c m).mp hreach
      exact ⟨c, hc, j, hj, hs⟩
  refine ⟨r, hr, fun m hm => ?_, fun m hm => ?_, fun m => h2 .run m (by decide)⟩
  · have := h1 m; rw [if_pos ((key m).mpr hm)] at this; exact this
  · have := h1 m; rw [if_neg (fun x => hm ((key m).mp x))] at this; exact this

/-- the set `update_flags_exact` speaks about is the set of strict descendants -/
theorem flaggedBy_iff_descendant (g : UGraph) (r m : Nat) :
    m ∈ flaggedBy g r true false ↔ ∃ c ∈ (g.node r).children, Reach g c m := by
  simp only [flaggedBy, if_true, Bool.false_eq_true, if_false, mem_reachWithin]
  constructor
  · rintro ⟨c, hc, j, hj, hs⟩; exact ⟨c, hc, (reach_iff_within g c m).mpr ⟨j, hj, hs⟩⟩
  · rintro ⟨c, hc, hreach⟩
    obtain ⟨j, hj, hs⟩ := (reach_iff_within g c m).mp hreach
    exact ⟨c, hc, j, hj, hs⟩

/-- the run pass for `from_state` (`skip_children=True`): only the state's own node gets the policy -/
theorem from_flag_exact (g : UGraph) (fl fl' : Flags) (state : List String) (vm : String) (sel : Option (String × String))
    (p : Pol) (h : flagChildren g fl state vm sel .run p false true = .ok fl') :
    ∃ r, selectRoots g state vm sel = [r] ∧ (∀ m, fl'.run m = if m = r then p else fl.run m) ∧
      (∀ m, fl'.clean m = fl.clean m) := by
  obtain ⟨r, hr, h1, h2⟩ := flagChildren_ok h
  refine ⟨r, hr, fun m => ?_, fun m => h2 .clean m (by decide)⟩
  have := h1 m
  simpa [Flags.get, flaggedBy] using this

/-- **rejects_unknown_state**: a state that no node of the graph produces for this vm and worker (or that several do)
makes the pass fail with the `ValueError` `update` raises — nothing has been run or removed at that point -/
theorem rejects_unknown_state (g : UGraph) (fl : Flags) (state : List String) (vm : String) (sel : Option (String × String))
    (ty : FlagType) (p : Pol) (sp sc : Bool) (h : (selectRoots g state vm sel).length ≠ 1) :
    mapAssertion (flagChildren g fl state vm sel ty p sp sc) = .error .valueError := by
  rw [flagChildren_error h]; rfl

/-- a state name that is not a contiguous part of any node's name for this vm selects nothing -/
theorem unknown_state_selects_nothing (g : UGraph) (state : List String) (vm : String) (sel : Option (String × String))
    (hs : state ≠ []) (h : ∀ i < g.nodes.length, isInfix state (g.node i).variants = false) :
    selectRoots g state vm sel = [] := by
  simp only [selectRoots, List.filter_eq_nil_iff, List.mem_range]
  intro i hi
  have : state.isEmpty = false := by cases state <;> simp_all
  simp [this, h i hi]

/-- **`flag_intersection`**: exactly the nodes that map to one node of the other graph get the policy -/
theorem flag_intersection_exact (g : UGraph) (fl fl' : Flags) (otherNames : List String) (ty : FlagType) (p : Pol)
    (so ss : Bool) (h : flagIntersection g fl otherNames ty p so ss = .ok fl') :
    (∀ m, m < g.nodes.length → fl'.get ty m = if hit g otherNames so ss m = true then p else fl.get ty m) ∧
    (∀ ty' m, ty ≠ ty' → fl'.get ty' m = fl.get ty' m) :=
  ⟨(flagIntersection_ok h).1, (flagIntersection_ok h).2.2⟩

/-! ## all passes of `update` for one vm and one worker -/

/-- the run policy `update` ends with on node `m`, given the `from_state` node (if `from_state ≠ install`) -/
def finalRun (u : UpdateIn) (g : UGraph) (fromNode : Option Nat) (m : Nat) : Pol :=
  if some m = fromNode then .notFinishedOrRerun
  else if u.fromState != "install" && hit g u.skipNames false false m then .never
  else if hit g u.runNames false true m then .notFinishedOrRerun
  else if hit g (g.nodes.map (·.name)) false false m then .never
  else .dflt

/-- **run_flags_exact / clean_flags_exact / others_untouched** for the whole flagging sequence (one variant per vm):
if `update` gets through its passes then
* the `to_state` node `rt` exists and is unique for this vm and worker; the clean policy `cloneFree` is on exactly the
  nodes below it (`flaggedBy … skip_parents` = its strict descendants, `flaggedBy_iff_descendant`), `never` on every other node of the graph — in particular on `rt` itself,
  on everything before it and on every node that is not derived from it;
* the run policy `notFinishedOrRerun` is on exactly `anc(to) \ anc(from) ∪ {from}` (in terms of `hit`: the nodes the
  `all..<to_state>` graph contains, minus those the `all..<from_state>` graph contains, plus the unique `from_state`
  node), never on the shared root, `never` on every other node: nothing before the starting state is run.
Other vms and other workers have their own graph objects and their own iteration: no flag of theirs is touched
(the function returns a fresh table for this graph only). -/
theorem update_flags_exact (u : UpdateIn) (g : UGraph) (cf : String) (fl : Flags)
    (hc : u.clean = some g) (hcf : u.compForms = [cf]) (h : updateFlags u = .ok (some fl)) :
    ∃ rt, selectRoots g (if u.toState == "install" then [] else u.toVars) u.vm (some (cf, u.worker)) = [rt] ∧
      (∀ m, m < g.nodes.length → fl.clean m =
        if m ∈ flaggedBy g rt true false then .cloneFree
        else if hit g (g.nodes.map (·.name)) false false m then .never else .dflt) ∧
      ∃ fromNode : Option Nat,
        (if u.fromState != "install" then ∃ rf, fromNode = some rf ∧
            selectRoots g u.fromVars u.vm (some (cf, u.worker)) = [rf] else fromNode = none) ∧
        (∀ m, m < g.nodes.length → fl.run m = finalRun u g fromNode m) := by
  unfold updateFlags at h
  rw [hc, hcf] at h
  simp only at h
  obtain ⟨f1, h1, h⟩ := bind_ok h
  obtain ⟨f2, h2, h⟩ := bind_ok h
  obtain ⟨f3, h3, h⟩ := bind_ok h
  obtain ⟨f4, h4, h⟩ := bind_ok h
  have h5' : ∃ f5, (if (u.fromState != "install") = true then
        (flagIntersection g f4 u.skipNames .run .never false false >>= fun f =>
          List.foldlM (fun f cf => mapAssertion
            (flagChildren g f u.fromVars u.vm (some (cf, u.worker)) .run .notFinishedOrRerun false true)) f [cf])
        else (pure f4 : Except Err Flags)) = .ok f5 ∧ f5 = fl := by
    by_cases hfrom : (u.fromState != "install") = true
    · rw [if_pos hfrom] at h ⊢
      obtain ⟨fa, ha, h⟩ := bind_ok h
      obtain ⟨fb, hb, h⟩ := bind_ok h
      simp only [pure, Except.pure, Except.ok.injEq, Option.some.injEq] at h
      exact ⟨fb, by rw [ha]; exact hb, h⟩
    · rw [if_neg hfrom] at h ⊢
      simp only [pure, Except.pure, bind, Except.bind, Except.ok.injEq, Option.some.injEq] at h ⊢
      exact ⟨f4, rfl, h⟩
  obtain ⟨f5, h5, hfl⟩ := h5'
  subst hfl
  -- the clean pass
  simp only [List.foldlM_cons, List.foldlM_nil, bind_pure] at h3
  obtain ⟨rt, hrt, hc3, hr3⟩ := flagChildren_ok (mapAssertion_ok h3)
  have e1 := flagIntersection_ok h1
  have e2 := flagIntersection_ok h2
  have e4 := flagIntersection_ok h4
  have init_run : ∀ m, ({} : Flags).get .run m = .dflt := fun m => rfl
  have init_clean : ∀ m, ({} : Flags).get .clean m = .dflt := fun m => rfl
  refine ⟨rt, hrt, ?_, ?_⟩
  · -- clean flags: passes 4 and 5 do not touch them
    intro m hm
    have c5 : f5.clean m = f4.clean m := by
      split at h5
      · obtain ⟨fa, ha, hb⟩ := bind_ok h5
        simp only [List.foldlM_cons, List.foldlM_nil, bind_pure] at hb
        obtain ⟨_, _, _, hb2⟩ := flagChildren_ok (mapAssertion_ok hb)
        have := (flagIntersection_ok ha).2.2 .clean m (by decide)
        have := hb2 .clean m (by decide)
        simp_all [Flags.get]
      · simp only [pure, Except.pure, Except.ok.injEq] at h5; rw [h5]
    have c4 : f4.clean m = f3.clean m := e4.2.2 .clean m (by decide)
    have c3 := hc3 m
    have c2 := e2.1 m hm
    have c1 : f1.get .clean m = .dflt := by rw [e1.2.2 .clean m (by decide)]; rfl
    simp only [Flags.get] at c3 c2 c1
    rw [c5, c4, c3, c2, c1]
  · -- run flags
    have r1 : ∀ m, m < g.nodes.length → f1.run m = if hit g (g.nodes.map (·.name)) false false m = true then .never else .dflt := by
      intro m hm; have := e1.1 m hm; simpa [Flags.get] using this
    have r3 : ∀ m, f3.run m = f1.run m := by
      intro m
      have a := hr3 .run m (by decide)
      have b := e2.2.2 .run m (by decide)
      simp only [Flags.get] at a b
      rw [a, b]
    have r4 : ∀ m, m < g.nodes.length → f4.run m = if hit g u.runNames false true m = true then .notFinishedOrRerun else f3.run m := by
      intro m hm; have := e4.1 m hm; simpa [Flags.get] using this
    by_cases hfrom : (u.fromState != "install") = true
    · rw [if_pos hfrom] at h5
      obtain ⟨fa, ha, hb⟩ := bind_ok h5
      simp only [List.foldlM_cons, List.foldlM_nil, bind_pure] at hb
      obtain ⟨rf, hrf, hb1, _⟩ := flagChildren_ok (mapAssertion_ok hb)
      have ea := flagIntersection_ok ha
      refine ⟨some rf, by rw [if_pos hfrom]; exact ⟨rf, rfl, hrf⟩, fun m hm => ?_⟩
      have x5 := hb1 m
      have xa := ea.1 m hm
      simp only [Flags.get, flaggedBy, if_true, Bool.false_eq_true, if_false, List.mem_singleton] at x5 xa
      rw [x5, xa, r4 m hm, r3 m, r1 m hm]
      simp only [finalRun, hfrom, Bool.true_and, Option.some.injEq]
    · have hfrom' : (u.fromState != "install") = false := by simpa using hfrom
      rw [if_neg hfrom] at h5
      simp only [pure, Except.pure, Except.ok.injEq] at h5
      subst h5
      refine ⟨none, by rw [if_neg hfrom], fun m hm => ?_⟩
      rw [r4 m hm, r3 m, r1 m hm]
      simp [finalRun, hfrom']

/-- consequence for what is done: a node is (re)run iff it is the `from_state` node or it is in the `to_state` closure
but not in the `from_state` closure (and not the shared root) -/
theorem runs_exactly (u : UpdateIn) (g : UGraph) (fromNode : Option Nat) (m : Nat) :
    (finalRun u g fromNode m == .notFinishedOrRerun) =
      (some m == fromNode ||
        (!(u.fromState != "install" && hit g u.skipNames false false m) && hit g u.runNames false true m)) := by
  unfold finalRun
  generalize (u.fromState != "install" && hit g u.skipNames false false m) = a
  generalize hit g u.runNames false true m = b
  generalize hit g (g.nodes.map (·.name)) false false m = c
  by_cases h0 : some m = fromNode
  · simp [h0]; rfl
  · have h0' : (some m == fromNode) = false := by simpa using h0
    cases a <;> cases b <;> cases c <;> simp [h0, h0'] <;> rfl

/-! ## non-vacuity: a vm's tree  install → customize → {connect → leaf, on_customize},  update customize..connect -/

def exGraph : UGraph := { nodes := [
  { name := "all.original.install.vm1.cf.net1", setless := "original.install.vm1.cf.net1", variants := ["all", "original", "install", "vm1", "cf", "net1"],
    vms := ["vm1"], worker := "net1", compForms := ["cf"], objectRoot := ["image1_vm1", "vm1", "cf"], sets := [("vm1", "install")], children := [1] },
  { name := "all.internal.customize.vm1.cf.net1", setless := "internal.customize.vm1.cf.net1", variants := ["all", "internal", "customize", "vm1", "cf", "net1"],
    vms := ["vm1"], worker := "net1", compForms := ["cf"], sets := [("vm1", "customize")], children := [2, 4] },
  { name := "all.internal.connect.vm1.cf.net1", setless := "internal.connect.vm1.cf.net1", variants := ["all", "internal", "connect", "vm1", "cf", "net1"],
    vms := ["vm1"], worker := "net1", compForms := ["cf"], sets := [("vm1", "connect")], children := [3] },
  { name := "leaves.tutorial_get.vm1.cf.net1", setless := "tutorial_get.vm1.cf.net1", variants := ["leaves", "tutorial_get", "vm1", "cf", "net1"],
    vms := ["vm1"], worker := "net1", compForms := ["cf"], sets := [("vm1", "getsetup")], children := [] },
  { name := "all.internal.on_customize.vm1.cf.net1", setless := "internal.on_customize.vm1.cf.net1", variants := ["all", "internal", "on_customize", "vm1", "cf", "net1"],
    vms := ["vm1"], worker := "net1", compForms := ["cf"], sets := [("vm1", "on_customize")], children := [] }] }

def exUpdate (frm tgt : String) (runIdx skipIdx : List Nat) : UpdateIn :=
  { vm := "vm1", worker := "net1", compForms := ["cf"], fromState := frm, toState := tgt, fromVars := [frm], toVars := [tgt],
    clean := some exGraph,
    runNames := "all.internal.stateless.noop" :: runIdx.map (fun i => (exGraph.node i).name),
    skipNames := "all.internal.stateless.noop" :: skipIdx.map (fun i => (exGraph.node i).name) }

def summary (r : Except Err (Option Flags)) : Option (List Bool × List Bool) :=
  match r with
  | .ok (some fl) => some ((List.range 5).map (willRun fl), (List.range 5).map (willClean exGraph fl))
  | _ => none

/-- customize..connect: customize and connect are rerun (not install, not the leaf, not on_customize); only the state
derived from connect is removed -/
example : summary (updateFlags (exUpdate "customize" "connect" [0, 1, 2] [0, 1])) =
    some ([false, true, true, false, false], [false, false, false, true, false]) := by decide

/-- install..customize (the default): install and customize are rerun; connect, its leaf and on_customize are removed -/
example : summary (updateFlags (exUpdate "install" "customize" [0, 1] [])) =
    some ([true, true, false, false, false], [false, false, true, true, true]) := by decide

/-- install..install: the object root alone; everything derived from it is removed -/
example : summary (updateFlags (exUpdate "install" "install" [0] [])) =
    some ([true, false, false, false, false], [false, true, true, true, true]) := by decide

/-- an unknown target state is rejected with `ValueError` -/
example : (match updateFlags (exUpdate "install" "nosuchstate" [] []) with | .error e => some e | _ => none)
    = some Err.valueError := by decide

/-! ## The flagging passes of `intertest_setup.update` ARE the Python source (translator tie)

`I2N/Extracted/GenUpdate.lean` is regenerated on every `./check C15` from the CURRENT source of
`avocado_i2n/intertest_setup.py` by `harness/pygen_pxupdate.py`, which cuts `update` into its loops (vms with their index,
workers, the all-pairs bridging loop), the `try` around the parse of the remove-set graph (an `EmptyCartesianProduct`
must end in `continue`) and two straight statement sequences that `harness/pygen.py` translates: the composition of the
remove-set restriction (`genRemoveSet`) and the flagging passes (`genFlagPasses`).  The hand model `updateFlags` is ONE
(vm, worker) iteration; the loops around it, the reading of `from_state` / `to_state` / `remove_set` of the vm and the
parser oracle are the explicitly defined adapter `updateAll` / `bridgeAll` of `I2N/Lemmas/ToolsUpdate.lean`. -/

section MatchesSource
open I2N.Extracted.GenUpdate

/-- **remove set**: the regenerated front part of the worker loop body computes the adapter's restriction — `remove_set`
of the vm (not of the global parameters), default `leaves`, `all..` in front unless an available restriction occurs in it.
No hypotheses. -/
theorem removeSet_matches_source (env : UEnv) (vm : String) : genRemoveSet env vm = removeSetStr env vm := by
  unfold genRemoveSet removeSetStr
  cases h : env.restrictions.find? (fun r => I2N.Trav.strIn r ((env.vmParam vm "remove_set").getD "leaves")) with
  | none =>
    have h' : env.restrictions.any (fun r => I2N.Trav.strIn r ((env.vmParam vm "remove_set").getD "leaves")) = false := by
      rw [List.find?_eq_none] at h
      simpa [List.any_eq_false] using h
    simp [h, h', Id.run, pure, bind]
  | some r =>
    have h' : env.restrictions.any (fun r => I2N.Trav.strIn r ((env.vmParam vm "remove_set").getD "leaves")) = true := by
      have := List.find?_some h
      have hm := List.mem_of_find?_eq_some h
      exact List.any_eq_true.mpr ⟨r, hm, this⟩
    simp [h, h', Id.run, pure, bind]

/-- the hand model's input for a remove-set graph `g` the parser answered -/
def updateInWith (env : UEnv) (vm w : String) (g : UGraph) : UpdateIn :=
  { updateIn env 0 vm w with clean := some g }

/-- **the flagging passes**: for every environment, vm, worker and remove-set graph the regenerated statement sequence
ends with the policy table the hand model `updateFlags` computes, or raises the same error.  No hypotheses. -/
theorem flagPasses_matches_source (env : UEnv) (vm w : String) (g : UGraph) :
    (genFlagPasses env g vm w ((env.vmParam vm "from_state").getD "install")
        ((env.vmParam vm "to_state").getD "customize") (env.compForms vm)).run {} =
      (updateFlags (updateInWith env vm w g)).map (fun o => ((), o.getD {})) := by
  unfold genFlagPasses updateFlags updateInWith updateIn
  generalize (env.vmParam vm "from_state").getD "install" = frm
  generalize (env.vmParam vm "to_state").getD "customize" = tgt
  simp only [StateT.run, bind, StateT.bind, fiM, fcAllM, stepM, Except.bind, Except.map, pure, StateT.pure, Except.pure,
    bne]
  cases flagIntersection g {} (g.nodes.map (·.name)) .run .never false false with
  | error e => rfl
  | ok f1 =>
    simp only []
    cases flagIntersection g f1 (g.nodes.map (·.name)) .clean .never false false with
    | error e => rfl
    | ok f2 =>
      simp only []
      have hfs : dotSplit (if (tgt == "install") = true then "" else tgt) = if (tgt == "install") = true then [] else dotSplit tgt := by
        split <;> simp [dotSplit]
      rw [hfs]
      cases List.foldlM (fun f cf => mapAssertion (flagChildren g f (if (tgt == "install") = true then [] else dotSplit tgt) vm
          (some (cf, w)) .clean .cloneFree true false)) f2 (env.compForms vm) with
      | error e => rfl
      | ok f3 =>
        simp only []
        by_cases ht : (tgt == "install") = true
        · simp only [ht, if_true, bind, StateT.bind, stepM, Except.map, Except.bind, StateT.pure, pure, Except.pure]
          cases flagIntersection g f3 (env.installNames vm w) .run .notFinishedOrRerun false true with
          | error e => rfl
          | ok f4 =>
            simp only []
            by_cases hf : (frm == "install") = true
            · simp [hf, bind, Except.bind, StateT.pure, pure, Except.pure]
            · have hf' : (frm == "install") = false := by simpa using hf
              simp only [hf', Bool.not_false, if_true, bind, StateT.bind, stepM, Except.map, Except.bind, StateT.pure, pure, Except.pure]
              cases flagIntersection g f4 (env.parseNames ("all.." ++ frm) vm w) .run .never false false with
              | error e => rfl
              | ok f5 =>
                simp only []
                cases List.foldlM (fun f cf => mapAssertion (flagChildren g f (dotSplit frm) vm
                    (some (cf, w)) .run .notFinishedOrRerun false true)) f5 (env.compForms vm) <;> rfl
        · have ht' : (tgt == "install") = false := by simpa using ht
          simp only [ht', Bool.false_eq_true, if_false, bind, StateT.bind, stepM, Except.map, Except.bind, StateT.pure, pure, Except.pure]
          cases flagIntersection g f3 (env.parseNames ("all.." ++ tgt) vm w) .run .notFinishedOrRerun false true with
          | error e => rfl
          | ok f4 =>
            simp only []
            by_cases hf : (frm == "install") = true
            · simp [hf, bind, Except.bind, StateT.pure, pure, Except.pure]
            · have hf' : (frm == "install") = false := by simpa using hf
              simp only [hf', Bool.not_false, if_true, bind, StateT.bind, stepM, Except.map, Except.bind, StateT.pure, pure, Except.pure]
              cases flagIntersection g f4 (env.parseNames ("all.." ++ frm) vm w) .run .never false false with
              | error e => rfl
              | ok f5 =>
                simp only []
                cases List.foldlM (fun f cf => mapAssertion (flagChildren g f (dotSplit frm) vm
                    (some (cf, w)) .run .notFinishedOrRerun false true)) f5 (env.compForms vm) <;> rfl

/-- with a remove-set graph the passes end with a policy table (never with "worker skipped") -/
theorem updateFlags_not_none (u : UpdateIn) (g : UGraph) (hc : u.clean = some g) : updateFlags u ≠ .ok none := by
  intro h
  unfold updateFlags at h
  rw [hc] at h
  simp only at h
  obtain ⟨f1, _, h⟩ := bind_ok h
  obtain ⟨f2, _, h⟩ := bind_ok h
  obtain ⟨f3, _, h⟩ := bind_ok h
  obtain ⟨f4, _, h⟩ := bind_ok h
  split at h
  · obtain ⟨f5, _, h⟩ := bind_ok h
    obtain ⟨f6, _, h⟩ := bind_ok h
    simp [pure, Except.pure] at h
  · simp [pure, Except.pure, bind, Except.bind] at h

/-- **one iteration of the worker loop** (structural skeleton + the two translated parts) is the adapter's step on top of
the hand model: an empty Cartesian product skips this worker and nothing else -/
theorem workerBody_matches_source (env : UEnv) (i : Nat) (vm w : String) :
    genWorkerBody env i vm w = stepM (fun acc => updateOne env i vm acc w) := by
  funext acc
  unfold genWorkerBody updateOne stepM
  rw [removeSet_matches_source]
  cases h : env.parseClean (removeSetStr env vm) i vm w with
  | none =>
    have : updateFlags (updateIn env i vm w) = .ok none := by
      unfold updateFlags; simp [updateIn, h]
    rw [this]; rfl
  | some g =>
    have hu : updateIn env i vm w = updateInWith env vm w g := by
      simp [updateIn, updateInWith, h]
    rw [hu]
    have hp := flagPasses_matches_source env vm w g
    simp only [StateT.run] at hp ⊢
    rw [hp]
    cases hr : updateFlags (updateInWith env vm w g) with
    | error e => rfl
    | ok o =>
      cases o with
      | none => exact absurd hr (updateFlags_not_none _ g rfl)
      | some f => rfl

/-- **the two loops of `update`**: for every environment, every list of selected vms and every list of workers the
regenerated function flags the same (vm, worker) graphs with the same policy tables, in the same order, as the adapter
`updateAll` over the hand model — or raises the same error.  No hypotheses; any number of vms and workers. -/
theorem update_matches_source (env : UEnv) (vms workers : List String) :
    (genUpdate env vms workers).run [] = (updateAll env vms workers).map (fun a => ((), a)) := by
  unfold genUpdate updateAll
  have inner : ∀ iv : Nat × String, (workers.forM fun worker => genWorkerBody env iv.1 iv.2 worker) =
      stepM (fun acc => workers.foldlM (updateOne env iv.1 iv.2) acc) := by
    intro iv
    funext acc
    simp only [workerBody_matches_source]
    exact forM_stepM (fun acc w => updateOne env iv.1 iv.2 acc w) workers acc
  simp only [inner]
  exact forM_stepM (fun acc (iv : Nat × String) => workers.foldlM (updateOne env iv.1 iv.2) acc) (enumFrom 0 vms) []

/-- the body of the bridging loop -/
theorem bridgePair_matches_source (ns : List BNode) (i j : Nat) :
    genBridgePair ns i j = stepM (fun b => bridgePair ns b i j) := by
  funext b
  unfold genBridgePair bridgePair stepM
  by_cases h1 : (i == j) = true
  · simp [h1, bind, StateT.bind, pure, StateT.pure, Except.pure, Except.map, Except.bind]
  · by_cases h2 : (BNode.formOf ns i == BNode.formOf ns j) = true
    · by_cases h3 : (BNode.idOf ns i == BNode.idOf ns j) = true
      · simp [h1, h2, h3, bind, StateT.bind, pure, StateT.pure, Except.pure, Except.map, Except.bind, throw, throwThe,
          MonadExceptOf.throw, StateT.lift]
      · simp [h1, h2, h3, bind, StateT.bind, pure, StateT.pure, Except.pure, Except.map, Except.bind, modify,
          modifyGet, MonadStateOf.modifyGet, StateT.modifyGet]
    · simp [h1, h2, bind, StateT.bind, pure, StateT.pure, Except.pure, Except.map, Except.bind]

/-- **the bridging loop is all-pairs**: the regenerated nested loop bridges every ordered pair of distinct nodes with the
same `bridged_form` (raising `ValueError` for two such nodes with one id), exactly like `bridgeAll` — any number of
nodes.  (A star — bridging everything with one node only — is a different function: `shared_after_all_pairs`, C16, is
about `allPairs`.) -/
theorem bridgeAll_matches_source (ns : List BNode) (b : I2N.Index.Bridging) :
    (genBridgeAll ns).run b = (bridgeAll ns b).map (fun b' => ((), b')) := by
  unfold genBridgeAll bridgeAll
  have inner : ∀ i : Nat, ((List.range ns.length).forM fun node2 => genBridgePair ns i node2) =
      stepM (fun b => (List.range ns.length).foldlM (fun b j => bridgePair ns b i j) b) := by
    intro i
    funext b
    simp only [bridgePair_matches_source]
    exact forM_stepM (fun b j => bridgePair ns b i j) (List.range ns.length) b
  simp only [inner]
  exact forM_stepM (fun b i => (List.range ns.length).foldlM (fun b j => bridgePair ns b i j) b) (List.range ns.length) b



/-- the regenerated definitions compute: `remove_set_vm1 = normal` mentions an available restriction and is used as it
is, the default `leaves` gets `all..` in front -/
def exEnv : UEnv :=
  { restrictions := ["normal", "leaves", "all"], vmParam := fun vm k => if vm == "vm1" && k == "remove_set" then some "tutorial" else none,
    compForms := fun _ => ["cf"], parseClean := fun r _ _ w => if w == "net5" || r != "all..tutorial" then none else some exGraph,
    parseNames := fun r _ _ => if r == "all..customize" then ["all.internal.stateless.noop", (exGraph.node 0).name, (exGraph.node 1).name] else [],
    installNames := fun _ _ => [] }

example : (genRemoveSet exEnv "vm1").run = "all..tutorial" ∧ (genRemoveSet exEnv "vm2").run = "leaves" := by decide

/-- an incompatible worker is skipped without an error and without ending the loop (seeded C15b was a `break` here): the
state is handed on unchanged to the next worker -/
example : ((genWorkerBody exEnv 0 "vm1" "net5").run [("vm0", "net1", {})]).toOption.map (fun r => r.2.map (fun x => (x.1, x.2.1)))
    = some [("vm0", "net1")] := by decide

/-- three nodes of one class: all six ordered pairs are bridged (a star around the first node would leave 1–2 unlinked:
seeded C15) -/
example : ((genBridgeAll [⟨"a", "1"⟩, ⟨"a", "2"⟩, ⟨"a", "3"⟩]).run { regOf := [], bridged := [] }).toOption.map
    (fun r => (r.2.isBridged 1 2, r.2.isBridged 2 1, r.2.isBridged 0 2)) = some (true, true, true) := by decide

/-! ### `TestGraph.flag_intersection` (graph.py) against `flagIntersection`

The loop `for test_node in self.nodes:` is matched structurally, its body is translated (`genFlagIntersectionStep`:
the match list is the atom `otherNames.filter (endsWithStr · setless)`, `len(…) == 0` / `> 1`, the two skip tests and
the `flag_type == "run"` choice are translated, the two attribute stores are pinned to `Flags.set`). -/

/-- the body of the loop of the hand model `flagIntersection` (its anonymous step function, named) -/
def fiStep (g : UGraph) (otherNames : List String) (ty : FlagType) (p : Pol) (skipObjectRoots skipSharedRoot : Bool)
    (f : Flags) (i : Nat) : Except Err Flags :=
  let nd := g.node i
  match otherNames.filter (fun nm => endsWithStr nm nd.setless) with
  | [] => .ok f
  | [_] => if (nd.sharedRoot && skipSharedRoot) || (!nd.objectRoot.isEmpty && skipObjectRoots) then .ok f
           else .ok (f.set ty p i)
  | _ :: _ :: _ => .error .valueError

theorem flagIntersection_eq_foldlM (g : UGraph) (fl : Flags) (otherNames : List String) (ty : FlagType) (p : Pol)
    (so ss : Bool) :
    flagIntersection g fl otherNames ty p so ss = (List.range g.nodes.length).foldlM (fiStep g otherNames ty p so ss) fl :=
  rfl

/-- **one iteration of `TestGraph.flag_intersection`** (regenerated from graph.py) is the step of the hand model: no match
⇒ untouched, several ⇒ `ValueError`, one ⇒ the policy unless a skipped root; in this order.  No hypotheses. -/
theorem flagIntersectionStep_matches_source (g : UGraph) (otherNames : List String) (ty : FlagType) (p : Pol)
    (so ss : Bool) (i : Nat) :
    genFlagIntersectionStep g otherNames ty p so ss i = stepM (fun f => fiStep g otherNames ty p so ss f i) := by
  funext f
  unfold genFlagIntersectionStep fiStep stepM
  simp only []
  generalize otherNames.filter (fun nm => endsWithStr nm (g.node i).setless) = l
  cases l with
  | nil => simp [bind, StateT.bind, pure, StateT.pure, Except.pure, Except.map, Except.bind]
  | cons a r =>
    cases r with
    | nil =>
      cases ty <;> cases h1 : (g.node i).sharedRoot <;> cases ss <;> cases h2 : (g.node i).objectRoot.isEmpty <;>
        cases so <;>
        simp [bind, StateT.bind, pure, StateT.pure, Except.pure, Except.map, Except.bind, flagTypeStr, modify, modifyGet,
          MonadStateOf.modifyGet, StateT.modifyGet, h1, h2]
    | cons b r' =>
      have h0 : ¬ ((r'.length : Int) + 1 + 1 = 0) := by omega
      have h1 : (1 : Int) < (r'.length : Int) + 1 + 1 := by omega
      simp [bind, StateT.bind, pure, StateT.pure, Except.pure, Except.map, Except.bind, throw, throwThe,
        MonadExceptOf.throw, StateT.lift, h0, h1]

/-- **`TestGraph.flag_intersection` IS `flagIntersection`**: the regenerated loop over the graph's nodes ends with the
policy table of the hand model or raises the same error — any graph, any other graph, both flag types. -/
theorem flagIntersection_matches_source (g : UGraph) (fl : Flags) (otherNames : List String) (ty : FlagType) (p : Pol)
    (so ss : Bool) :
    (genFlagIntersection g otherNames ty p so ss).run fl =
      (flagIntersection g fl otherNames ty p so ss).map (fun f => ((), f)) := by
  rw [flagIntersection_eq_foldlM]
  unfold genFlagIntersection
  simp only [flagIntersectionStep_matches_source]
  exact forM_stepM (fun f i => fiStep g otherNames ty p so ss f i) (List.range g.nodes.length) fl

end MatchesSource

end I2N.Props.C15
