import I2N.Lemmas.ToolsFlags
import I2N.Lemmas.ToolsReach
/-!
# C15 — The update tool reruns exactly the requested path and drops only its dependants

Model: `I2N/Model/Tools.lean` (`flagChildren`, `flagIntersection`, `updateFlags`: the flagging passes of
`intertest_setup.update` for one vm and one worker, in program order; the one `Driver/Tools.lean` runs).

The parser's contract is a hypothesis, not part of the model: the graph parsed for `all..<to_state>` consists of the
state's node and its setup closure (and the shared root), likewise for `all..<from_state>`.  With it, `hit g runNames`
is "ancestor-or-self of the `to_state` node" and `hit g skipNames` is "ancestor-or-self of the `from_state` node"; on a
vm's tree of setup states the run-flagged set `anc(to) \ anc(from) ∪ {from}` is the path from `from_state` to
`to_state`, both included (the spec oracle of the harness checks this reading on every parsed graph).
-/
namespace I2N.Props.C15
open I2N.Tools

/-! ## one pass -/

/-- **clean_flags_exact** — `flag_children` as `update` uses it for the clean pass (`skip_parents=True`): the root `r`
(the state's node) is unique, and the policy goes to exactly the *strict descendants* of `r` — the nodes reachable from
a child of `r` along any number of cleanup edges (`Reach`) — while `r` itself, everything above it and every unrelated
node keep what they had; the run flags are untouched.  (That `|nodes|` layers of the worklist reach every descendant
is `Steps.bounded`: a longer walk repeats a node and can be cut short.) -/
theorem clean_flags_exact (g : UGraph) (fl fl' : Flags) (state : List String) (vm : String) (sel : Option (String × String))
    (p : Pol) (h : flagChildren g fl state vm sel .clean p true false = .ok fl') :
    ∃ r, selectRoots g state vm sel = [r] ∧
      (∀ m, (∃ c ∈ (g.node r).children, Reach g c m) → fl'.clean m = p) ∧
      (∀ m, ¬(∃ c ∈ (g.node r).children, Reach g c m) → fl'.clean m = fl.clean m) ∧
      (∀ m, fl'.run m = fl.run m) := by
  obtain ⟨r, hr, h1, h2⟩ := flagChildren_ok h
  have key : ∀ m, m ∈ flaggedBy g r true false ↔ ∃ c ∈ (g.node r).children, Reach g c m := by
    intro m
    simp only [flaggedBy, if_true, Bool.false_eq_true, if_false, mem_reachWithin]
    constructor
    · rintro ⟨c, hc, j, hj, hs⟩; exact ⟨c, hc, (reach_iff_within g c m).mpr ⟨j, hj, hs⟩⟩
    · rintro ⟨c, hc, hreach⟩
      obtain ⟨j, hj, hs⟩ := (reach_iff_within g c m).mp hreach
      exact ⟨c, hc, j, hj, hs⟩
  refine ⟨r, hr, fun m hm => ?_, fun m hm => ?_, fun m => h2 .run m (by decide)⟩
  · have := h1 m; rw [if_pos ((key m).mpr hm)] at this; exact this
  · have := h1 m; rw [if_neg (fun x => hm ((key m).mp x))] at this; exact this

/-- the set `update_flags_exact` speaks about is the set of strict descendants -/
theorem flaggedBy_iff_descendant (g : UGraph) (r m : Nat) :
    m ∈ flaggedBy g r true false ↔ ∃ c ∈ (g.node r).children, Reach g c m := by
  simp only [flaggedBy, if_true, Bool.false_eq_true, if_false, mem_reachWithin]
  constructor
  · rintro ⟨c, hc, j, hj, hs⟩; exact ⟨c, hc, (reach_iff_within g c m).mpr ⟨j, hj, hs⟩⟩
  · rintro ⟨c, hc, hreach⟩
    obtain ⟨j, hj, hs⟩ := (reach_iff_within g c m).mp hreach
    exact ⟨c, hc, j, hj, hs⟩

/-- the run pass for `from_state` (`skip_children=True`): only the state's own node gets the policy -/
theorem from_flag_exact (g : UGraph) (fl fl' : Flags) (state : List String) (vm : String) (sel : Option (String × String))
    (p : Pol) (h : flagChildren g fl state vm sel .run p false true = .ok fl') :
    ∃ r, selectRoots g state vm sel = [r] ∧ (∀ m, fl'.run m = if m = r then p else fl.run m) ∧
      (∀ m, fl'.clean m = fl.clean m) := by
  obtain ⟨r, hr, h1, h2⟩ := flagChildren_ok h
  refine ⟨r, hr, fun m => ?_, fun m => h2 .clean m (by decide)⟩
  have := h1 m
  simpa [Flags.get, flaggedBy] using this

/-- **rejects_unknown_state**: a state that no node of the graph produces for this vm and worker (or that several do)
makes the pass fail with the `ValueError` `update` raises — nothing has been run or removed at that point -/
theorem rejects_unknown_state (g : UGraph) (fl : Flags) (state : List String) (vm : String) (sel : Option (String × String))
    (ty : FlagType) (p : Pol) (sp sc : Bool) (h : (selectRoots g state vm sel).length ≠ 1) :
    mapAssertion (flagChildren g fl state vm sel ty p sp sc) = .error .valueError := by
  rw [flagChildren_error h]; rfl

/-- a state name that is not a contiguous part of any node's name for this vm selects nothing -/
theorem unknown_state_selects_nothing (g : UGraph) (state : List String) (vm : String) (sel : Option (String × String))
    (hs : state ≠ []) (h : ∀ i < g.nodes.length, isInfix state (g.node i).variants = false) :
    selectRoots g state vm sel = [] := by
  simp only [selectRoots, List.filter_eq_nil_iff, List.mem_range]
  intro i hi
  have : state.isEmpty = false := by cases state <;> simp_all
  simp [this, h i hi]

/-- **`flag_intersection`**: exactly the nodes that map to one node of the other graph get the policy -/
theorem flag_intersection_exact (g : UGraph) (fl fl' : Flags) (otherNames : List String) (ty : FlagType) (p : Pol)
    (so ss : Bool) (h : flagIntersection g fl otherNames ty p so ss = .ok fl') :
    (∀ m, m < g.nodes.length → fl'.get ty m = if hit g otherNames so ss m = true then p else fl.get ty m) ∧
    (∀ ty' m, ty ≠ ty' → fl'.get ty' m = fl.get ty' m) :=
  ⟨(flagIntersection_ok h).1, (flagIntersection_ok h).2.2⟩

/-! ## all passes of `update` for one vm and one worker -/

/-- the run policy `update` ends with on node `m`, given the `from_state` node (if `from_state ≠ install`) -/
def finalRun (u : UpdateIn) (g : UGraph) (fromNode : Option Nat) (m : Nat) : Pol :=
  if some m = fromNode then .notFinishedOrRerun
  else if u.fromState != "install" && hit g u.skipNames false false m then .never
  else if hit g u.runNames false true m then .notFinishedOrRerun
  else if hit g (g.nodes.map (·.name)) false false m then .never
  else .dflt

/-- **run_flags_exact / clean_flags_exact / others_untouched** for the whole flagging sequence (one variant per vm):
if `update` gets through its passes then
* the `to_state` node `rt` exists and is unique for this vm and worker; the clean policy `cloneFree` is on exactly the
  nodes below it (`flaggedBy … skip_parents` = its strict descendants, `flaggedBy_iff_descendant`), `never` on every other node of the graph — in particular on `rt` itself,
  on everything before it and on every node that is not derived from it;
* the run policy `notFinishedOrRerun` is on exactly `anc(to) \ anc(from) ∪ {from}` (in terms of `hit`: the nodes the
  `all..<to_state>` graph contains, minus those the `all..<from_state>` graph contains, plus the unique `from_state`
  node), never on the shared root, `never` on every other node: nothing before the starting state is run.
Other vms and other workers have their own graph objects and their own iteration: no flag of theirs is touched
(the function returns a fresh table for this graph only). -/
theorem update_flags_exact (u : UpdateIn) (g : UGraph) (cf : String) (fl : Flags)
    (hc : u.clean = some g) (hcf : u.compForms = [cf]) (h : updateFlags u = .ok (some fl)) :
    ∃ rt, selectRoots g (if u.toState == "install" then [] else u.toVars) u.vm (some (cf, u.worker)) = [rt] ∧
      (∀ m, m < g.nodes.length → fl.clean m =
        if m ∈ flaggedBy g rt true false then .cloneFree
        else if hit g (g.nodes.map (·.name)) false false m then .never else .dflt) ∧
      ∃ fromNode : Option Nat,
        (if u.fromState != "install" then ∃ rf, fromNode = some rf ∧
            selectRoots g u.fromVars u.vm (some (cf, u.worker)) = [rf] else fromNode = none) ∧
        (∀ m, m < g.nodes.length → fl.run m = finalRun u g fromNode m) := by
  unfold updateFlags at h
  rw [hc, hcf] at h
  simp only at h
  obtain ⟨f1, h1, h⟩ := bind_ok h
  obtain ⟨f2, h2, h⟩ := bind_ok h
  obtain ⟨f3, h3, h⟩ := bind_ok h
  obtain ⟨f4, h4, h⟩ := bind_ok h
  have h5' : ∃ f5, (if (u.fromState != "install") = true then
        (flagIntersection g f4 u.skipNames .run .never false false >>= fun f =>
          List.foldlM (fun f cf => mapAssertion
            (flagChildren g f u.fromVars u.vm (some (cf, u.worker)) .run .notFinishedOrRerun false true)) f [cf])
        else (pure f4 : Except Err Flags)) = .ok f5 ∧ f5 = fl := by
    by_cases hfrom : (u.fromState != "install") = true
    · rw [if_pos hfrom] at h ⊢
      obtain ⟨fa, ha, h⟩ := bind_ok h
      obtain ⟨fb, hb, h⟩ := bind_ok h
      simp only [pure, Except.pure, Except.ok.injEq, Option.some.injEq] at h
      exact ⟨fb, by rw [ha]; exact hb, h⟩
    · rw [if_neg hfrom] at h ⊢
      simp only [pure, Except.pure, bind, Except.bind, Except.ok.injEq, Option.some.injEq] at h ⊢
      exact ⟨f4, rfl, h⟩
  obtain ⟨f5, h5, hfl⟩ := h5'
  subst hfl
  -- the clean pass
  simp only [List.foldlM_cons, List.foldlM_nil, bind_pure] at h3
  obtain ⟨rt, hrt, hc3, hr3⟩ := flagChildren_ok (mapAssertion_ok h3)
  have e1 := flagIntersection_ok h1
  have e2 := flagIntersection_ok h2
  have e4 := flagIntersection_ok h4
  have init_run : ∀ m, ({} : Flags).get .run m = .dflt := fun m => rfl
  have init_clean : ∀ m, ({} : Flags).get .clean m = .dflt := fun m => rfl
  refine ⟨rt, hrt, ?_, ?_⟩
  · -- clean flags: passes 4 and 5 do not touch them
    intro m hm
    have c5 : f5.clean m = f4.clean m := by
      split at h5
      · obtain ⟨fa, ha, hb⟩ := bind_ok h5
        simp only [List.foldlM_cons, List.foldlM_nil, bind_pure] at hb
        obtain ⟨_, _, _, hb2⟩ := flagChildren_ok (mapAssertion_ok hb)
        have := (flagIntersection_ok ha).2.2 .clean m (by decide)
        have := hb2 .clean m (by decide)
        simp_all [Flags.get]
      · simp only [pure, Except.pure, Except.ok.injEq] at h5; rw [h5]
    have c4 : f4.clean m = f3.clean m := e4.2.2 .clean m (by decide)
    have c3 := hc3 m
    have c2 := e2.1 m hm
    have c1 : f1.get .clean m = .dflt := by rw [e1.2.2 .clean m (by decide)]; rfl
    simp only [Flags.get] at c3 c2 c1
    rw [c5, c4, c3, c2, c1]
  · -- run flags
    have r1 : ∀ m, m < g.nodes.length → f1.run m = if hit g (g.nodes.map (·.name)) false false m = true then .never else .dflt := by
      intro m hm; have := e1.1 m hm; simpa [Flags.get] using this
    have r3 : ∀ m, f3.run m = f1.run m := by
      intro m
      have a := hr3 .run m (by decide)
      have b := e2.2.2 .run m (by decide)
      simp only [Flags.get] at a b
      rw [a, b]
    have r4 : ∀ m, m < g.nodes.length → f4.run m = if hit g u.runNames false true m = true then .notFinishedOrRerun else f3.run m := by
      intro m hm; have := e4.1 m hm; simpa [Flags.get] using this
    by_cases hfrom : (u.fromState != "install") = true
    · rw [if_pos hfrom] at h5
      obtain ⟨fa, ha, hb⟩ := bind_ok h5
      simp only [List.foldlM_cons, List.foldlM_nil, bind_pure] at hb
      obtain ⟨rf, hrf, hb1, _⟩ := flagChildren_ok (mapAssertion_ok hb)
      have ea := flagIntersection_ok ha
      refine ⟨some rf, by rw [if_pos hfrom]; exact ⟨rf, rfl, hrf⟩, fun m hm => ?_⟩
      have x5 := hb1 m
      have xa := ea.1 m hm
      simp only [Flags.get, flaggedBy, if_true, Bool.false_eq_true, if_false, List.mem_singleton] at x5 xa
      rw [x5, xa, r4 m hm, r3 m, r1 m hm]
      simp only [finalRun, hfrom, Bool.true_and, Option.some.injEq]
    · have hfrom' : (u.fromState != "install") = false := by simpa using hfrom
      rw [if_neg hfrom] at h5
      simp only [pure, Except.pure, Except.ok.injEq] at h5
      subst h5
      refine ⟨none, by rw [if_neg hfrom], fun m hm => ?_⟩
      rw [r4 m hm, r3 m, r1 m hm]
      simp [finalRun, hfrom']

/-- consequence for what is done: a node is (re)run iff it is the `from_state` node or it is in the `to_state` closure
but not in the `from_state` closure (and not the shared root) -/
theorem runs_exactly (u : UpdateIn) (g : UGraph) (fromNode : Option Nat) (m : Nat) :
    (finalRun u g fromNode m == .notFinishedOrRerun) =
      (some m == fromNode ||
        (!(u.fromState != "install" && hit g u.skipNames false false m) && hit g u.runNames false true m)) := by
  unfold finalRun
  generalize (u.fromState != "install" && hit g u.skipNames false false m) = a
  generalize hit g u.runNames false true m = b
  generalize hit g (g.nodes.map (·.name)) false false m = c
  by_cases h0 : some m = fromNode
  · simp [h0]; rfl
  · have h0' : (some m == fromNode) = false := by simpa using h0
    cases a <;> cases b <;> cases c <;> simp [h0, h0'] <;> rfl

/-! ## non-vacuity: a vm's tree  install → customize → {connect → leaf, on_customize},  update customize..connect -/

def exGraph : UGraph := { nodes := [
  { name := "all.original.install.vm1.cf.net1", setless := "original.install.vm1.cf.net1", variants := ["all", "original", "install", "vm1", "cf", "net1"],
    vms := ["vm1"], worker := "net1", compForms := ["cf"], objectRoot := ["image1_vm1", "vm1", "cf"], sets := [("vm1", "install")], children := [1] },
  { name := "all.internal.customize.vm1.cf.net1", setless := "internal.customize.vm1.cf.net1", variants := ["all", "internal", "customize", "vm1", "cf", "net1"],
    vms := ["vm1"], worker := "net1", compForms := ["cf"], sets := [("vm1", "customize")], children := [2, 4] },
  { name := "all.internal.connect.vm1.cf.net1", setless := "internal.connect.vm1.cf.net1", variants := ["all", "internal", "connect", "vm1", "cf", "net1"],
    vms := ["vm1"], worker := "net1", compForms := ["cf"], sets := [("vm1", "connect")], children := [3] },
  { name := "leaves.tutorial_get.vm1.cf.net1", setless := "tutorial_get.vm1.cf.net1", variants := ["leaves", "tutorial_get", "vm1", "cf", "net1"],
    vms := ["vm1"], worker := "net1", compForms := ["cf"], sets := [("vm1", "getsetup")], children := [] },
  { name := "all.internal.on_customize.vm1.cf.net1", setless := "internal.on_customize.vm1.cf.net1", variants := ["all", "internal", "on_customize", "vm1", "cf", "net1"],
    vms := ["vm1"], worker := "net1", compForms := ["cf"], sets := [("vm1", "on_customize")], children := [] }] }

def exUpdate (frm tgt : String) (runIdx skipIdx : List Nat) : UpdateIn :=
  { vm := "vm1", worker := "net1", compForms := ["cf"], fromState := frm, toState := tgt, fromVars := [frm], toVars := [tgt],
    clean := some exGraph,
    runNames := "all.internal.stateless.noop" :: runIdx.map (fun i => (exGraph.node i).name),
    skipNames := "all.internal.stateless.noop" :: skipIdx.map (fun i => (exGraph.node i).name) }

def summary (r : Except Err (Option Flags)) : Option (List Bool × List Bool) :=
  match r with
  | .ok (some fl) => some ((List.range 5).map (willRun fl), (List.range 5).map (willClean exGraph fl))
  | _ => none

/-- customize..connect: customize and connect are rerun (not install, not the leaf, not on_customize); only the state
derived from connect is removed -/
example : summary (updateFlags (exUpdate "customize" "connect" [0, 1, 2] [0, 1])) =
    some ([false, true, true, false, false], [false, false, false, true, false]) := by decide

/-- install..customize (the default): install and customize are rerun; connect, its leaf and on_customize are removed -/
example : summary (updateFlags (exUpdate "install" "customize" [0, 1] [])) =
    some ([true, true, false, false, false], [false, false, true, true, true]) := by decide

/-- install..install: the object root alone; everything derived from it is removed -/
example : summary (updateFlags (exUpdate "install" "install" [0] [])) =
    some ([true, false, false, false, false], [false, true, true, true, true]) := by decide

/-- an unknown target state is rejected with `ValueError` -/
example : (match updateFlags (exUpdate "install" "nosuchstate" [] []) with | .error e => some e | _ => none)
    = some Err.valueError := by decide

end I2N.Props.C15
