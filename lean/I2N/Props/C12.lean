import I2N.Lemmas.PolicyFrame
import I2N.Lemmas.PolicyGenChain
import I2N.Lemmas.PolicyGenIter
import I2N.Lemmas.PolicyIterStable
/-!
# C12 — State operations follow the documented policy table and a store model

"For every kind of stateful object, for root and ordinary states, and for every combination of state
presence and get/set/unset/check mode letters, the state operations perform exactly the documented action:
reuse, ignore, force or abort.  An abort or an invalid policy raises without altering any state, objects and
types not addressed by the parameters are never touched, and any sequence of check/get/set/unset/push/pop
calls leaves exactly the states that a plain set-of-names model predicts."

The theorems are about `I2N.Policy` (`Model/Policy.lean`), the very definitions `drv_policy` runs.
All of them quantify over arbitrary parameter dictionaries, stores, backends and mode strings (no bound).
`docAction` / `perform` (`Spec/Policy.lean`) are the README table and the meaning of its four actions.
-/
set_option linter.unusedSimpArgs false

namespace I2N.Props.C12
open I2N.Policy I2N.Extracted.Policy

/-! ## 1. the policy chains are the documented table -/

/-- get/set/unset: whatever the letters, the presence of the state, the kind of state (root keyword or
ordinary), the backend and the store are, the `if/elif` chain of the code performs exactly the action the
README table assigns to the letter in charge (`invalid` for every letter the table does not list). -/
theorem table_act (d : Do) (b : String) (sourced : Bool) (cp : Params) (state : String) (c1 c2 : Char)
    (exist : Bool) (st : St) :
    act d b sourced cp state c1 c2 exist st
      = perform d (docAction d exist c1 c2) b sourced cp state exist st :=
  act_table d b sourced cp state c1 c2 exist st

theorem table_get (b cp state c1 c2 exist st) :
    getAct b cp state c1 c2 exist st = perform .get (docAction .get exist c1 c2) b false cp state exist st :=
  act_table .get b false cp state c1 c2 exist st

theorem table_set (b sourced cp state c1 c2 exist st) :
    setAct b sourced cp state c1 c2 exist st
      = perform .set (docAction .set exist c1 c2) b sourced cp state exist st :=
  act_table .set b sourced cp state c1 c2 exist st

theorem table_unset (b cp state c1 c2 exist st) :
    unsetAct b cp state c1 c2 exist st
      = perform .unset (docAction .unset exist c1 c2) b false cp state exist st :=
  act_table .unset b false cp state c1 c2 exist st

/-- the whole step for one object: when the object is not skipped, a state is asked for, and the look-ups of
backend and mode letters succeed, the step is the documented action for the presence *reported by the nested
check*, performed on the state the nested check left -/
theorem table_step (B : Backends) (d : Do) (sp : Params) (st : St) (state : String)
    (hg : guardSkip sp = .ok false) (ht : sp.truthy d.stateKey = some state)
    (hne : ∀ e, (doOne B d sp st).1 = .error e →
      (doOne B d sp st).2 ≠ (checkStates B (doParams d sp) st).2) :
    ∃ exist b sourced c1 c2, (checkStates B (doParams d sp) st).1 = .ok exist ∧
      backendOf B (doParams d sp) = .ok (b, sourced) ∧
      letters ((doParams d sp).getD d.modeKey "") = some (c1, c2) ∧
      doOne B d sp st = perform d (docAction d exist c1 c2) b sourced (doParams d sp) state exist
        (checkStates B (doParams d sp) st).2 := by
  rcases doOne_shape B d sp st with ⟨_, h | h⟩ | ⟨state', _, ht', h2⟩
  · exact absurd hg h
  · rw [ht] at h; exact absurd h (by simp)
  · rw [ht] at ht'; cases ht'
    rcases h2 with ⟨e, h3, h4⟩ | ⟨exist, b, sourced, c1, c2, h3, h4, h5, h6⟩
    · exact absurd h4 (hne e h3)
    · exact ⟨exist, b, sourced, c1, c2, h3, h4, h5, by rw [h6, act_table]⟩

/-- check: the answer of one state check is "the root exists afterwards and the state is a root keyword or
among the names of the object" -/
theorem table_check_answer (b : String) (sp : Params) (state : String) (c1 c2 : Char) (st st' : St) (v : Bool)
    (h : checkCore b sp state c1 c2 st = (.ok v, st')) :
    v = ((st'.store.obj (keyOf sp)).root &&
      (roots.contains state || (st'.store.obj (keyOf sp)).names.contains state)) := by
  unfold checkCore at h
  rcases hr : rootPhase b sp c1 c2 st with ⟨r, st1⟩
  rw [hr] at h
  rcases r with e | o
  · simp at h
  · cases o with
    | none =>
      simp only [Prod.mk.injEq, Except.ok.injEq] at h
      obtain ⟨hv, hs⟩ := h; subst hv; subst hs
      -- `return False` happens only when the root is missing and is not forced
      have := rootPhase_obj b sp c1 c2 st (keyOf sp)
      rw [hr] at this; simp only at this
      unfold rootPhase at hr
      simp only [bCheckRoot_val] at hr
      cases hroot : (st.store.obj (keyOf sp)).root
      · by_cases h2 : c2 = 'f'
        · simp [hroot, h2] at hr
        · rw [this]; simp [hroot, h2]
      · by_cases h1 : c1 = 'f' <;> simp [hroot, h1] at hr
    | some u =>
      have hroot := rootPhase_root b sp c1 c2 st u st1 hr
      dsimp only at h
      by_cases hk : roots.contains state = true
      · rw [if_pos hk] at h
        simp only [Prod.mk.injEq, Except.ok.injEq] at h
        obtain ⟨hv, hs⟩ := h; subst hv; subst hs
        rw [hroot, hk]; rfl
      · rw [if_neg hk] at h
        simp only [bShow_names, Prod.mk.injEq, Except.ok.injEq] at h
        obtain ⟨hv, hs⟩ := h; subst hv; subst hs
        have hk' : roots.contains state = false := by simpa using hk
        simp only [bShow, St.log_store, hroot, hk', Bool.false_or, Bool.true_and]

/-- check: the root prerequisite, letter by letter (`check_mode` is not in the README; this is the behaviour
the code comments describe): a missing root is created by `.f`, answers "no" by `.r`, and is an invalid
policy for every other letter; an existing root is recreated by `f.` and reused by every other letter -/
theorem table_check_root (b : String) (sp : Params) (c1 c2 : Char) (st : St) :
    ((st.store.obj (keyOf sp)).root = false → c2 = 'f' →
      (rootPhase b sp c1 c2 st).1 = .ok (some ()) ∧
        ((rootPhase b sp c1 c2 st).2.store.obj (keyOf sp)).root = true) ∧
    ((st.store.obj (keyOf sp)).root = false → c2 = 'r' →
      (rootPhase b sp c1 c2 st).1 = .ok none ∧ (rootPhase b sp c1 c2 st).2.store = st.store) ∧
    ((st.store.obj (keyOf sp)).root = false → c2 ≠ 'f' → c2 ≠ 'r' →
      (rootPhase b sp c1 c2 st).1 = .error .invalidPolicy ∧ (rootPhase b sp c1 c2 st).2.store = st.store) ∧
    ((st.store.obj (keyOf sp)).root = true →
      (rootPhase b sp c1 c2 st).1 = .ok (some ()) ∧ Eqv st (rootPhase b sp c1 c2 st).2) := by
  refine ⟨fun hr h2 => ?_, fun hr h2 => ?_, fun hr h2 h3 => ?_, fun hr => ?_⟩
  · have := rootPhase_obj b sp c1 c2 st (keyOf sp)
    refine ⟨?_, by rw [this]; simp [hr, h2]⟩
    simp [rootPhase, hr, h2]
  · have h2' : c2 ≠ 'f' := by rw [h2]; decide
    simp [rootPhase, hr, h2, h2']
  · simp [rootPhase, hr, h2, h3]
  · refine ⟨?_, rootPhase_eqv b sp c1 c2 st (Or.inl hr)⟩
    by_cases h1 : c1 = 'f' <;> simp [rootPhase, hr, h1]

/-! ### what the documented actions do to the set of names -/

/-- abort, invalid and ignore do nothing at all; reuse does not change the store -/
theorem perform_passive (d : Do) (a : Action) (b sourced cp state present st)
    (h : a = .abort ∨ a = .invalid ∨ a = .ignore ∨ a = .reuse) :
    (perform d a b sourced cp state present st).2.store = st.store := by
  rcases h with h | h | h | h <;> subst h <;> simp only [perform]
  cases d <;> simp only []
  split <;> rfl

/-- force of `set` on an ordinary state: afterwards the state is among the names of the object
(`set_state` is the parameter the backend reads) -/
theorem force_set_creates (b sourced cp state present st st')
    (hs : cp.getD "set_state" "" = state) (hk : roots.contains state = false)
    (h : perform .set .force b sourced cp state present st = (.ok (), st')) :
    state ∈ (st'.store.obj (keyOf cp)).names := by
  have hs' : (cp.set "unset_state" state).getD "set_state" "" = state := by
    rw [Params.getD_set_ne _ _ _ (by decide)]; exact hs
  cases present
  · simp only [perform, create, hk, Bool.false_eq_true, if_false, bCheckRoot_val] at h
    by_cases hroot : (st.store.obj (keyOf cp)).root = true
    · rw [if_pos hroot] at h
      simp only [Prod.mk.injEq, true_and] at h
      subst h
      rw [bSet_obj]; simp [hs]
    · rw [if_neg hroot] at h; simp at h
  · simp only [perform, create, hk, Bool.false_eq_true, if_false, if_true] at h
    simp only [Prod.mk.injEq, true_and] at h
    subst h
    rw [bSet_obj, keyOf_unsetState]; simp [hs']

/-- force of `set` on a root keyword: afterwards the root exists -/
theorem force_set_creates_root (b sourced cp state present st st')
    (hk : roots.contains state = true)
    (h : perform .set .force b sourced cp state present st = (.ok (), st')) :
    (st'.store.obj (keyOf cp)).root = true := by
  cases present
  · simp only [perform, create, hk, Bool.false_eq_true, if_false, if_true] at h
    simp only [Prod.mk.injEq, true_and] at h
    subst h
    rw [bSetRoot_obj]; simp
  · simp only [perform, create, hk, if_true] at h
    simp only [Prod.mk.injEq, true_and] at h
    subst h
    rw [bSetRoot_obj, keyOf_unsetState]; simp
/-- force of `unset`: afterwards the state is gone (`unset_state` is the parameter the backend reads) -/
theorem force_unset_removes (b sourced cp state present st)
    (hs : cp.getD "unset_state" "" = state) :
    let st' := (perform .unset .force b sourced cp state present st).2
    if roots.contains state then (st'.store.obj (keyOf cp)).root = false
    else state ∉ (st'.store.obj (keyOf cp)).names := by
  simp only [perform, remove]
  cases hk : roots.contains state
  · simp only [Bool.false_eq_true, if_false]
    rw [bUnset_obj]; simp [hs]
  · simp only [if_true]; rw [bUnsetRoot_obj]; simp

/-- force never changes whether any *other* name is present -/
theorem force_other_names (d : Do) (b sourced cp state present st) (n : String)
    (hs : cp.getD (if d = .set then "set_state" else "unset_state") "" = state) (hn : n ≠ state) :
    n ∈ ((perform d .force b sourced cp state present st).2.store.obj (keyOf cp)).names ↔
      n ∈ (st.store.obj (keyOf cp)).names := by
  have hu : (cp.set "unset_state" state).getD "unset_state" "" = state := Params.getD_set_self _ _ _ _
  cases d
  · simp [perform]
  · have hs' : cp.getD "set_state" "" = state := by simpa using hs
    have hs'' : (cp.set "unset_state" state).getD "set_state" "" = state := by
      rw [Params.getD_set_ne _ _ _ (by decide)]; exact hs'
    simp only [perform, create, remove]
    cases hk : roots.contains state <;> cases present <;> cases sourced <;>
      simp only [Bool.false_eq_true, if_false, if_true, Bool.not_false, Bool.not_true, Bool.and_true,
        Bool.and_false, Bool.true_and, bCheckRoot_val]
    all_goals first
      | (by_cases hroot : (st.store.obj (keyOf cp)).root = true
         · simp [hroot, bSet_obj, hs', hn]
         · simp [hroot])
      | simp [bSet_obj, bUnset_obj, bSetRoot_obj, bUnsetRoot_obj, keyOf_unsetState, hs'', hu, hn, Ne.symm hn]
  · have hs' : cp.getD "unset_state" "" = state := by simpa using hs
    simp only [perform, remove]
    cases hk : roots.contains state
    · simp [bUnset_obj, hs', hn]
    · simp [bUnsetRoot_obj]
/-! ## 2. an abort or an invalid policy raises without altering any state -/

/-- *Partial.*  Any exception out of one get/set/unset step (abort, invalid policy, and also the look-up
errors) leaves every object exactly as it was — provided the nested check does not create a root, i.e. for
every object it iterates over the root already exists or the second letter of `check_mode` is not `f`.

The full statement (without `NoForce`) is **false** for the code as it is: the default `check_mode` is `rf`,
so the nested check creates a missing root *before* the policy chain aborts (`abort_frame_witness`). -/
theorem abort_frame_partial (B : Backends) (d : Do) (sp : Params) (st : St) (e : Err)
    (hn : NoForce (doParams d sp) st) (h : (doOne B d sp st).1 = .error e) :
    ∀ k, (doOne B d sp st).2.store.obj k = st.store.obj k :=
  doOne_error_eqv B d sp st e hn h

/-- *Partial* (same hypothesis), for a whole call: the store after a raising call is the store the objects
*before* the raising one left — the object the exception is raised on contributes nothing, and the objects
after it are not looked at. -/
theorem abort_frame_call_partial (B : Backends) (d : Do) (p : Params) (st st' : St) (e : Err)
    (h : doStates B d p st = (.error e, st')) (hv : iterObjects p ≠ .error e ∨ st' ≠ st) :
    ∃ pre sp post st1, iterObjects p = .ok (pre ++ sp :: post) ∧
      loopM (doOne B d) pre st = (.ok (), st1) ∧ (doOne B d sp st1).1 = .error e ∧
      (NoForce (doParams d sp) st1 → ∀ k, st'.store.obj k = st1.store.obj k) := by
  unfold doStates at h
  rcases hi : iterObjects p with e1 | l
  · rw [hi] at h hv
    simp only [Prod.mk.injEq, Except.error.injEq] at h
    obtain ⟨he, hs⟩ := h
    subst he
    rcases hv with hv | hv
    · exact absurd rfl hv
    · exact absurd hs.symm hv
  · rw [hi] at h
    obtain ⟨pre, sp, post, st1, hl, hp, hf⟩ := loopM_error_split _ l st st' e h
    refine ⟨pre, sp, post, st1, by rw [hl], hp, by rw [hf], fun hn k => ?_⟩
    have := doOne_error_eqv B d sp st1 e hn (by rw [hf])
    rw [hf] at this
    exact this k

/-! ## 3. objects and types not addressed by the parameters are never touched -/

/-- an object outside `addressed op p` — a list computed from the parameters alone: the objects of the
iteration that are not skipped (`skip_types`, read-only image, no state asked for), as the nested check and
the backend see them — keeps its root and its names, whatever the call does and however it ends -/
theorem frame_other (B : Backends) (op : Op) (p : Params) (st : St) (k : Key) (h : k ∉ addressed op p) :
    (runOp B op p st).2.store.obj k = st.store.obj k :=
  runOp_same B op p st k h

/-- the same for any sequence of calls (exceptions are caught by the caller and the sequence goes on) -/
theorem frame_other_seq (B : Backends) (ops : List (Op × Params)) (st : St) (k : Key)
    (h : ∀ o ∈ ops, k ∉ addressed o.1 o.2) : (runSeq B ops st).store.obj k = st.store.obj k :=
  runSeq_same B k ops st h

/-- *Partial.*  check/get/set/unset do nothing at all — no backend call, no change — on an object whose type
is in `skip_types` or that is a read-only image.  For push/pop the statement is **false** for the code as it
is (`push_touches_readonly`): they hand the object to `set_states`/`get_states`/`unset_states` with
`states_chain` cut down to the last type, so the guards compare `"images"` with `"nets/vms/images"`. -/
theorem skip_guard_partial (B : Backends) (sp : Params) (st : St) (hg : guardSkip sp = .ok true) :
    checkOne B sp st = (.ok true, st) ∧ ∀ d, doOne B d sp st = (.ok (), st) := by
  refine ⟨by simp [checkOne, hg], fun d => by simp [doOne, hg]⟩

/-! ## 4. check and get never alter ordinary states and never lose a root -/

theorem check_get_monotone (B : Backends) (p : Params) (st : St) (k : Key) :
    (((checkStates B p st).2.store.obj k).names = (st.store.obj k).names ∧
      ((st.store.obj k).root = true → ((checkStates B p st).2.store.obj k).root = true)) ∧
    (((doStates B .get p st).2.store.obj k).names = (st.store.obj k).names ∧
      ((st.store.obj k).root = true → ((doStates B .get p st).2.store.obj k).root = true)) :=
  ⟨checkStates_mono B p st k, doStates_get_mono B p st k⟩

/-! ## 5. the literals extracted from /repo are the ones the table is about -/

/-- the `if/elif` chains of get/set/unset_states, as extracted from the AST on this run, test exactly the
letters of the README table in the order the model mirrors -/
theorem extracted_chains_match : chains =
    [("get", false, "a"), ("get", false, "i"), ("get", false, "*"), ("get", true, "a"), ("get", true, "r"),
     ("get", true, "i"), ("get", true, "*"),
     ("set", true, "a"), ("set", true, "r"), ("set", true, "f"), ("set", true, "*"), ("set", false, "a"),
     ("set", false, "f"), ("set", false, "*"),
     ("unset", false, "a"), ("unset", false, "i"), ("unset", false, "*"), ("unset", true, "r"),
     ("unset", true, "f"), ("unset", true, "*")] := by decide

/-- every default mode string of the code has two letters and both are cells of the documented table
(a changed default that leaves the table breaks this) -/
theorem defaults_documented (d : Do) (present : Bool) :
    (letters d.dMode).map (fun c => decide (docAction d present c.1 c.2 ≠ .invalid)) = some true := by
  cases d <;> cases present <;> decide

/-- the defaults this model was proved against -/
theorem defaults_pinned :
    (dCheckMode, dGetMode, dSetMode, dUnsetMode, dPushMode, dPopGetMode, dPopUnsetMode)
      = ("rf", "ra", "ff", "fi", "af", "ra", "fa") ∧
    roots = ["root", "0root", "boot", "0boot"] ∧ rootScope = "own" ∧
    readonlyType = "nets/vms/images" ∧ destroyType = "nets/vms" := by decide

/-! ## non-vacuity and witnesses (closed evaluations of the model the driver runs) -/

def errOf {α : Type} (r : Except Err α) : Option Err :=
  match r with
  | .error e => some e
  | .ok _ => none

def B0 : Backends := [("mem", false), ("memsrc", true)]

/-- one net, one vm with two images, `get_state_images = launch` -/
def p0 (getMode : String) (extra : Params := []) : Params :=
  [("nets", "net1"), ("vms", "vm1"), ("images_vm1", "image1 image2"), ("states_chain", "nets vms images"),
   ("states_nets", "mem"), ("states_vms", "mem"), ("states_images", "mem"),
   ("get_state_images", "launch"), ("get_mode", getMode)] ++ extra

def kImg (i : String) : Key := ⟨"images", "net1", "vm1", i⟩
def kVm : Key := ⟨"vms", "net1", "vm1", ""⟩

/-- both images have the state and their roots -/
def s0 : St := { store := [(kImg "image1", ⟨true, ["launch"]⟩), (kImg "image2", ⟨true, ["launch", "x"]⟩),
                           (kVm, ⟨false, ["y"]⟩)] }

/-- NV of the table: `get_mode=ra`, state present on both images: the action is `reuse`, `get` is called
once per image, nothing changes -/
example : docAction .get true 'r' 'a' = .reuse := by decide
example : errOf (runOp B0 .get (p0 "ra") s0).1 = none ∧
    ((runOp B0 .get (p0 "ra") s0).2.calls.filter (·.kind == .get)).map (·.key) = [kImg "image1", kImg "image2"] ∧
    (runOp B0 .get (p0 "ra") s0).2.store = s0.store := by decide +kernel

/-- NV of `frame_other` / `addressed`: only the two images are addressed (each by the nested check and by
the backend call); the vm and the net are not -/
example : addressed .get (p0 "ra") = [kImg "image1", kImg "image1", kImg "image2", kImg "image2"] := by
  decide +kernel
example : kVm ∉ addressed .get (p0 "ra") := by decide +kernel
/-- with `skip_types` naming the image type nothing is addressed -/
example : addressed .get (p0 "ra" [("skip_types", "nets/vms/images")]) = [] := by decide +kernel

/-- NV of `abort_frame_partial`: `check_mode=rr`, roots and state absent: the call aborts, `NoForce` holds
(second letter `r`), the store is untouched -/
example : errOf (runOp B0 .get (p0 "ra" [("check_mode", "rr")]) {}).1 = some .abort ∧
    (runOp B0 .get (p0 "ra" [("check_mode", "rr")]) {}).2.store = [] := by decide +kernel

/-- **Witness that `abort_frame` does not hold at full strength** (finding F7, key
`abort-creates-root-via-default-check-mode`): defaults only, root and state absent, `get_mode=ra`:
`get_states` raises TestAbortError *after* `set_root` created the root of image1. -/
theorem abort_frame_witness :
    errOf (runOp B0 .get (p0 "ra") {}).1 = some .abort ∧
    (({} : St).store.obj (kImg "image1")).root = false ∧
    ((runOp B0 .get (p0 "ra") {}).2.store.obj (kImg "image1")).root = true ∧
    (runOp B0 .get (p0 "ra") {}).2.calls.map (·.kind) = [.checkRoot, .setRoot, .show] := by
  decide +kernel

/-- **Witness that push/pop ignore the read-only guard** (finding F9, key `push-pop-touch-readonly-image`):
all images are read-only; `set_states` skips them, `push_states` sets the state on them. -/
theorem push_touches_readonly :
    let p : Params := (p0 "ra" [("image_readonly", "yes"), ("set_state_images", "s"), ("push_state_images", "s"),
      ("push_mode", "ff")])
    (runOp B0 .set p s0).2.store = s0.store ∧
    "s" ∈ ((runOp B0 .push p s0).2.store.obj (kImg "image1")).names := by
  decide +kernel

/-! ## 6. translator tie: the model IS the current source of `states/setup.py`

`I2N.Extracted.GenPolicy` is regenerated on every run by `harness/pygen_pxpolicy.py` (front end) + `harness/pygen.py`
(Python AST -> Lean `do` block, fails closed) from the CURRENT text of `check_states`, `get_states`, `set_states`,
`unset_states`, `push_states`: ONE ITERATION of their loop over `_parametric_object_iteration(run_params)`, statement by
statement — the two `continue` guards, the "no state asked for" test, the default mode written back, the nested
`_state_check_chain` call, the three look-ups in source order, the two mode letters, the whole `if/elif` chain, the
ROOTS test, the `SourcedStateBackend` special case, the backend calls — in the monad `I2N.PolicyM.M` (a statement
sequence that may raise and keeps the state it reached: `state_params`, `root_params`, store and ordered log of backend
calls).  The theorems say that this equals the hand model's function for ALL dictionaries, stores, backends: same result
or error AND same store AND same ordered backend calls (`outOf` only forgets the two dictionaries, which are local to
the iteration).  An edit of the Python changes the generated Lean and these theorems stop compiling. -/

section Regenerated
open I2N.PolicyM I2N.Extracted.GenPolicy

/-- what the hand model assumes about the state key of get/set/unset (and push): rewriting the parameters for the nested
call does not change it.  The code re-reads `state_params["get_state"]` AFTER `_state_check_chain` wrote every component
`type = name` of the object into the same dictionary; the hand model keeps the value it read before.  The two differ only
when a component of `states_chain` is itself called `get_state` / `set_state` / `unset_state` (`noClash_of_types`). -/
def NoClash (d : Do) (sp : Params) : Prop := (doParams d sp).getD d.stateKey "" = sp.getD d.stateKey ""

instance (d : Do) (sp : Params) : Decidable (NoClash d sp) := by unfold NoClash; infer_instance

/-- a sufficient condition on the parameters alone: no component of the object's type is named like the state key -/
theorem noClash_of_types (d : Do) (sp : Params) (h : d.stateKey ∉ splitSlash (typeOf sp)) : NoClash d sp :=
  I2N.PolicyGen.doParams_stateKey d sp h

/-- **one iteration of `get_states` is `doOne .get`** (guards, default `get_mode`, nested check, look-ups, the chain
`.a .i . a. r. i. .`, `get_root` / `get`), for all dictionaries, stores and backends.  Hypothesis `NoClash`: see there
(it excludes object types one of whose components is literally called `get_state`). -/
theorem getOne_matches_source (B : Backends) (sp rp : Params) (st : St) (h : NoClash .get sp) :
    outOf ((genGetOne B).run ⟨sp, rp, st⟩) = doOne B .get sp st :=
  I2N.PolicyGen.getOne_eq B sp rp st h

/-- **one iteration of `set_states` is `doOne .set`** (chain `a. r. f. . .a .f .`, the `unset_state` key written before
the overwrite, the `SourcedStateBackend` special case, the root prerequisite of a forced set, `set_root` / `set`). -/
theorem setOne_matches_source (B : Backends) (sp rp : Params) (st : St) (h : NoClash .set sp) :
    outOf ((genSetOne B).run ⟨sp, rp, st⟩) = doOne B .set sp st :=
  I2N.PolicyGen.setOne_eq B sp rp st h

/-- **one iteration of `unset_states` is `doOne .unset`** (chain `.a .i . r. f. .`, `unset_root` / `unset`). -/
theorem unsetOne_matches_source (B : Backends) (sp rp : Params) (st : St) (h : NoClash .unset sp) :
    outOf ((genUnsetOne B).run ⟨sp, rp, st⟩) = doOne B .unset sp st :=
  I2N.PolicyGen.unsetOne_eq B sp rp st h

/-- **one iteration of `check_states` is `checkOne`** — no hypotheses: the guards, the defaults `check_opts` /
`check_mode=rf` written back, the look-ups, the root prerequisite letter by letter (forced creation with
`pool_scope=own`, `return False`, invalid policy, forced re-creation through `vm.destroy` or `unset_root`, `get_root`),
the ROOTS test and the `show` look-up; `true` = go on with the next object. -/
theorem checkOne_matches_source (B : Backends) (sp rp : Params) (st : St) :
    outOf ((genCheckOne B).run ⟨sp, rp, st⟩) = checkOne B sp st :=
  I2N.PolicyGen.checkOne_eq B sp rp st

/-- **one iteration of `push_states` is `pushOne`**: the ROOTS guard, the restriction to the object, the keys
`set_state` / `set_mode` (default `af`) written before `set_states` is called.  Hypothesis: the restriction does not
overwrite `push_state` (the code re-reads it afterwards, the hand model does not). -/
theorem pushOne_matches_source (B : Backends) (sp rp : Params) (st : St)
    (h : (restrict sp).getD "push_state" "" = sp.getD "push_state" "") :
    outOf ((genPushOne B).run ⟨sp, rp, st⟩) = pushOne B sp st :=
  I2N.PolicyGen.pushOne_eq B sp rp st h

/-- **one iteration of `pop_states` is `popOne`**: the ROOTS guard, the restriction to the object, the keys `get_state` /
`get_mode` (default `ra`) written before `get_states` is called, then — only when that call returned — `unset_state` /
`unset_mode` (default `fa`, read from the SAME `pop_mode` key) written into the same dictionary before `unset_states` is
called; an exception of the first call ends the iteration with the store and the backend calls it left.  Hypothesis:
the restriction does not overwrite `pop_state` (the code re-reads it twice afterwards, the hand model does not). -/
theorem popOne_matches_source (B : Backends) (sp rp : Params) (st : St)
    (h : (restrict sp).getD "pop_state" "" = sp.getD "pop_state" "") :
    outOf ((genPopOne B).run ⟨sp, rp, st⟩) = popOne B sp st :=
  I2N.PolicyGen.popOne_eq B sp rp st h

/-- NV: the image of the standard example satisfies `NoClash` (decided on the concrete dictionary), and the generated
iteration computes on it: `get_mode=ra`, empty store, default `check_mode`: abort after the root was created. -/
def spImg : Params :=
  [("nets", "net1"), ("vms", "vm1"), ("images", "image1"), ("states", "mem"), ("get_state", "launch"),
   ("get_mode", "ra"), ("push_state", "launch"), ("object_name", "net1/vm1/image1"), ("object_type", "nets/vms/images"),
   ("states_chain", "nets vms images")]
example : NoClash .get spImg ∧ NoClash .set spImg ∧ NoClash .unset spImg := by decide +kernel
example : (restrict spImg).getD "push_state" "" = spImg.getD "push_state" "" := by decide +kernel
example : errOf ((genGetOne B0).run ⟨spImg, [], {}⟩).1 = some .abort ∧
    ((genGetOne B0).run ⟨spImg, [], {}⟩).2.st.calls.map (·.kind) = [.checkRoot, .setRoot, .show] := by decide +kernel

/-- NV of `popOne_matches_source`: the same image with `pop_state=launch` (defaults `ra` / `fa`), the state and the root
present: the hypothesis holds, and the generated iteration gets the state and then removes it (nested check, `get`,
nested check, `unset`) -/
def spPop : Params := ("pop_state", "launch") :: spImg
example : (restrict spPop).getD "pop_state" "" = spPop.getD "pop_state" "" := by decide +kernel
example : errOf ((genPopOne B0).run ⟨spPop, [], s0⟩).1 = none ∧
    ((genPopOne B0).run ⟨spPop, [], s0⟩).2.st.calls.map (·.kind) =
      [.checkRoot, .getRoot, .show, .get, .checkRoot, .getRoot, .show, .unset] ∧
    "launch" ∉ (((genPopOne B0).run ⟨spPop, [], s0⟩).2.st.store.obj (kImg "image1")).names := by decide +kernel

/-! ### the `NoClash` hypothesis cannot be dropped: the hand model differs from the code on the clash inputs

An object type literally called `get_state` (`states_chain = get_state`, one object `a`, the state to get — `root` —
given through the type-scoped key `get_state_get_state`).  The dictionary the iteration yields has `get_state = root`;
`_state_check_chain` copies it to `check_state` and then writes `get_state = a` (type = object name).  The CODE (and
`genGetOne`, its translation) tests `state_params["get_state"] in ROOTS` on the rewritten value: not a root keyword,
so it calls `get`.  The hand model `doOne` kept the value read first (`root`): it calls `get_root`.  Reproduced on the
real code by `harness/props/c12_clash_repro.py` (backend calls `check_root, get_root, get(a)` = the generated side). -/

def pClash : Params :=
  [("states_chain", "get_state"), ("get_state", "a"), ("get_state_get_state", "root"), ("states", "mem"),
   ("vms", "vm1"), ("get_mode", "ra"), ("check_mode", "rr")]

/-- what `_parametric_object_iteration(pClash)` yields (one object) -/
def spClash : Params :=
  [("states_chain", "get_state"), ("get_state", "root"), ("get_state_get_state", "root"), ("states", "mem"),
   ("vms", "vm1"), ("get_mode", "ra"), ("check_mode", "rr"), ("object_name", "a"), ("object_type", "get_state")]

/-- the root of the object exists -/
def sClash : St := { store := [(⟨"get_state", "", "vm1", ""⟩, ⟨true, []⟩)] }

/-- **Witness that `NoClash` is needed in `getOne_matches_source`** (a deviation of the hand model, outside the documented
parameter space; not a defect of /repo): on the clash input the generated iteration — which is what the real code does —
ends with the backend call `get` of the state `a`, the hand model with `get_root`. -/
theorem getOne_clash_witness :
    (iterObjects pClash).toOption = some [spClash] ∧ ¬ NoClash .get spClash ∧
    ((genGetOne B0).run ⟨spClash, [], sClash⟩).2.st.calls.map (fun c => (c.kind, c.arg)) =
      [(.checkRoot, ""), (.getRoot, "-"), (.get, "a")] ∧
    (doOne B0 .get spClash sClash).2.calls.map (fun c => (c.kind, c.arg)) =
      [(.checkRoot, ""), (.getRoot, "-"), (.getRoot, "-")] ∧
    outOf ((genGetOne B0).run ⟨spClash, [], sClash⟩) ≠ doOne B0 .get spClash sClash := by
  refine ⟨by decide +kernel, by decide +kernel, by decide +kernel, by decide +kernel, ?_⟩
  intro h
  have h2 := congrArg (fun r => r.2.calls.map (fun c => (c.kind, c.arg))) h
  revert h2
  decide +kernel

/-! ### `_state_check_chain` itself (the atom `chainM` of the generated get/set/unset iterations) -/

/-- the definition regenerated from `_state_check_chain` for one value of its parameter `do` (the front end substitutes
the constant for `do` and folds the f-strings `f"{do}_state"`, `f"{do}_location"`; the test `do == "set"` is translated) -/
def genChain (d : Do) (B : Backends) (ty name : String) : M Bool :=
  match d with
  | .get => genChainGet B ty name
  | .set => genChainSet B ty name
  | .unset => genChainUnset B ty name

/-- **`_state_check_chain(do, env, type, name, state_params)` is the atom `chainM`** the generated iterations of
`get_states` / `set_states` / `unset_states` call, for every `do`, type, name, dictionary, store and backends table: same
answer, same dictionary afterwards (`check_state`, `show_location` only for a non-empty `<do>_location`, `check_opts` /
`soft_boot` = yes exactly for `set`, every component `type = name`, `states_chain` = the last type, in this order), same
store and backend calls of the nested `check_states`.  Equality of the whole state (no `outOf`): the callers go on
reading the rewritten dictionary. -/
theorem stateCheckChain_matches_source (B : Backends) (d : Do) (ty name : String) (s : PS) :
    (genChain d B ty name).run s = chainM B d ty name s := by
  cases d
  · exact I2N.PolicyGen.chainGet_eq B ty name s
  · exact I2N.PolicyGen.chainSet_eq B ty name s
  · exact I2N.PolicyGen.chainUnset_eq B ty name s

/-- … and, called with the type and name of the dictionary itself (what `get_states`, `set_states`, `unset_states` pass),
it is the hand model's `chainParams` followed by the hand model's `checkStates` -/
theorem stateCheckChain_is_chainParams (B : Backends) (d : Do) (sp rp : Params) (st : St) :
    (genChain d B (sp.getD "object_type" "") (sp.getD "object_name" "")).run ⟨sp, rp, st⟩ =
      ((checkStates B (chainParams d sp) st).1,
        ⟨chainParams d sp, rp, (checkStates B (chainParams d sp) st).2⟩) := by
  rw [stateCheckChain_matches_source]
  simp only [chainM, I2N.PolicyGen.chainParamsWith_self]

/-- NV: on the image of the standard example the regenerated chain answers "state missing" after creating the root
(default `check_mode=rf`) and leaves `check_state=launch`, `states_chain=images`, `soft_boot=no` in the dictionary -/
example : ((genChain .get B0 "nets/vms/images" "net1/vm1/image1").run ⟨spImg, [], {}⟩).1.toOption = some false ∧
    ((genChain .get B0 "nets/vms/images" "net1/vm1/image1").run ⟨spImg, [], {}⟩).2.st.calls.map (·.kind) =
      [.checkRoot, .setRoot, .show] ∧
    (((genChain .get B0 "nets/vms/images" "net1/vm1/image1").run ⟨spImg, [], {}⟩).2.sp.get? "check_state",
     ((genChain .get B0 "nets/vms/images" "net1/vm1/image1").run ⟨spImg, [], {}⟩).2.sp.get? "states_chain",
     ((genChain .get B0 "nets/vms/images" "net1/vm1/image1").run ⟨spImg, [], {}⟩).2.sp.get? "soft_boot") =
      (some "launch", some "images", some "no") := by decide +kernel

end Regenerated

/-! ## 6. `_parametric_object_iteration` regenerated from the source (`harness/pygen_pxiter.py`)

The loops of check/get/set/unset/push/pop_states run over the recursive generator `_parametric_object_iteration`; the hand
model's `iterObjects` / `iterAux` stood for it by the differential runs only.  `I2N/Extracted/GenIter.lean` holds ONE level
of the generator translated from the current source (`genIterLevel self params composites_is_none`, monad `G` of
`Lemmas/PolicyIterM.lean`: state = the list `composites` SHARED by all levels + the dictionaries yielded so far; `self` =
the recursive call). -/
section RegeneratedIter
open I2N.PolicyIterM I2N.Extracted.GenIter I2N.PolicyGenIter

/-- **One level, open recursion.**  For every function `self` put in place of the recursive call: if `self`, called at
depth `k + 1` on the shared list, yields what the hand model's `iterAux` yields there and gives the list back as it got
it, then the level generated from the source, entered at depth `k` (`len(composites) = k`; `b` = "called without the
list", then the list is created), yields what `iterAux` yields at depth `k` - components first, then the composite, every
object with `object_name` / `object_type` joined from the shared list - and gives the list back as it got it (the `pop`).
Hypotheses: the dictionary's `states_chain` is `full`, `k` is a valid index (always true for the callers: see
`iterObjects_matches_source`), and `chainStable`: the dictionaries handed down re-read the same `states_chain`. -/
theorem iterLevel_matches_source (self : Params → G Unit) (full : List String) (last : String)
    (hlast : full.getLast? = some last) (k : Nat) (hself : Spec self full last (k + 1))
    (b : Bool) (p : Params) (cs : List (String × String)) (out : List Params) (c0 : List (Option (String × String)))
    (hp : p.objects "states_chain" = full) (hk : cs.length = k) (hlt : k < full.length)
    (hst : chainStable full last (full.drop k) cs p = true)
    (hc : (if b then [] else c0) = cs.map some) :
    genIterLevel self p b ⟨c0, out⟩ = (.ok (), ⟨cs.map some, out ++ iterAux last (full.drop k) cs p⟩) :=
  genIterLevel_step self full last hlast k hself b p cs out c0 hp hk hlt hst hc

/-- **`_parametric_object_iteration(params)` is `iterObjects params`.**  `iterFuel n` is the generated level closed under
itself `n` times (Python's recursion with `n` frames below the top-level call; a deeper call would be a RecursionError).
For EVERY dictionary `p` whose chain is stable (`topStable p`, decidable: every dictionary the iteration descends into
re-reads the same `states_chain`; the code reads the key at every level, the hand model once), every `n + 1` at least the
length of the chain and every generator state: the top-level call yields exactly the list of `iterObjects p`, in its
order, and leaves its (own, fresh) list empty; with an empty / missing `states_chain` it raises ValueError before it
yields anything - which is `iterObjects p = .error .valueError`. -/
theorem iterObjects_matches_source (n : Nat) (p : Params) (hn : (p.objects "states_chain").length ≤ n + 1)
    (hst : topStable p = true) (s : GS) :
    genIterLevel (iterFuel n) p true s = iterObjectsG p s :=
  top_of_spec (iterFuel n) p (fun last hl => iterFuel_spec _ last hl n 1 (by omega)) hst s

/-- NV: the standard dictionary (one net, one vm, two images) has a stable chain; 2 frames suffice; the generated
recursion yields the two images, then the vm, then the net -/
example : topStable (p0 "ra") = true ∧ ((p0 "ra").objects "states_chain").length ≤ 2 + 1 := by decide +kernel
example : ((genIterLevel (iterFuel 2) (p0 "ra") true ⟨[], []⟩).2.out.map (fun sp => sp.getD "object_name" "")) =
    ["net1/vm1/image1", "net1/vm1/image2", "net1/vm1", "net1"] ∧
    (genIterLevel (iterFuel 2) (p0 "ra") true ⟨[], []⟩).2.comps = [] := by decide +kernel
/-- NV of `iterLevel_matches_source`: `iterFuel n` is a `self` that satisfies its hypothesis -/
example : Spec (iterFuel 2) ["nets", "vms", "images"] "images" 1 := iterFuel_spec _ _ rfl 2 1 (by decide)

/-- **… and the hypothesis is what the callers provide**: `Params.object_params(name)` can overwrite `states_chain` only
from a key `states_chain_<name>…`; a dictionary NONE of whose keys begins with `states_chain_` (`NoSuffix`; the shipped
configuration defines the plain key only, and `_state_check_chain` / `push_states` / `pop_states` write the plain key only)
and whose chain names no type `states_chain` / `states_chain_…` (`okType`) has a stable chain at every depth
(`topStable_of_noSuffix`, by induction over the chain with the fold of `object_params` as invariant).  So for every such
dictionary, of any size, the generator regenerated from the source yields exactly `iterObjects p`. -/
theorem iterObjects_matches_source_noSuffix (n : Nat) (p : Params)
    (hn : (p.objects "states_chain").length ≤ n + 1) (h : NoSuffix p)
    (ht : ∀ t ∈ p.objects "states_chain", okType t = true) (s : GS) :
    genIterLevel (iterFuel n) p true s = iterObjectsG p s :=
  iterObjects_matches_source n p hn (topStable_of_noSuffix p h ht) s

/-- NV: the standard dictionary has no `states_chain_…` key and ordinary type names -/
example : NoSuffix (p0 "ra") ∧ ∀ t ∈ (p0 "ra").objects "states_chain", okType t = true := by
  unfold NoSuffix; decide +kernel

def iterErrOf (r : Except IterErr Unit × GS) : Option IterErr :=
  match r.1 with
  | .error e => some e
  | .ok _ => none

/-- the dictionary of `iterObjects_unstable_witness`: the net re-defines the chain for what is below it -/
def pUnstable : Params :=
  [("nets", "net1"), ("vms", "vm1"), ("states_chain", "nets vms"), ("states_chain_net1", "nets")]

/-- **The hypothesis `topStable` cannot be dropped** (a deviation of the hand model outside the documented space -
`states_chain_<object>` keys - not a defect of /repo): with `states_chain = nets vms`, `states_chain_net1 = nets` the code
re-reads the chain `nets` inside `net1` and `object_composition[len(composites)]` raises IndexError after nothing was
yielded; the hand model yields `net1/vm1` and `net1`. -/
theorem iterObjects_unstable_witness :
    topStable pUnstable = false ∧
    iterErrOf (genIterLevel (iterFuel 5) pUnstable true ⟨[], []⟩) = some .indexError ∧
    (genIterLevel (iterFuel 5) pUnstable true ⟨[], []⟩).2.out = [] ∧
    ((iterObjectsG pUnstable ⟨[], []⟩).2.out.map (fun sp => sp.getD "object_name" "")) = ["net1/vm1", "net1"] := by
  decide +kernel

end RegeneratedIter

end I2N.Props.C12
