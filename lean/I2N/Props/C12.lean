import I2N.Model.Policy
namespace I2N.Props.C12
theorem placeholder : True := trivial
end I2N.Props.C12
