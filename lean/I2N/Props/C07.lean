import I2N.Model.GraphResolve
namespace I2N.Props.C07
theorem placeholder : True := trivial
end I2N.Props.C07
