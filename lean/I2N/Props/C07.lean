import I2N.Lemmas.GraphResolve
/-!
# C07 — Graph dependencies are exactly those declared in the configuration

Theorems about the independent resolver `I2N.Resolve.resolve` (the function the compiled driver `drv_graph`
evaluates and the real `TestGraph` is compared with, node set and edge set, on every run).  All statements are
for arbitrary suites, selections, restrictions and workers; fuel is the resolver's recursion depth and does not
restrict the statements (they hold at every fuel).
-/
namespace I2N.Props.C07
open I2N.Resolve

/-- **None spurious.**  Every parent of a resolved node is there because of a declaration: it is an instance of a
test of the suite whose name the `get` restriction of one of the node's object slots selects, that test uses the
slot's vm (or is a one-vm setup test composed with it), and it was composed on the child's own variants. -/
theorem parents_sound (S : Suite) (allow : String → List String) (f : Nat) (t : Test) (asg : Asg)
    (i : Inst) (hi : i ∈ insts S allow (f + 1) t asg) (e : String × String × Key) (he : e ∈ i.parents) :
    ∃ s ∈ instSlots t asg, s.vm = e.1 ∧ s.kind = e.2.1 ∧
      ∃ t' a' p, t' ∈ S.tests ∧ s.get ≠ [] ∧ contig s.get t'.name = true ∧ (t'.vms = [] ∨ s.vm ∈ t'.vms) ∧
        a' ∈ asgs allow asg t' (vmsFor t' s) ∧ p ∈ insts S allow f t' a' ∧ p.key = e.2.2 ∧
        p.key.test = t'.name ∧ p.key.asg = a' := by
  obtain ⟨s, hs, h1, h2, p, hp, hpk⟩ := insts_parents_sound S allow f t asg i hi e he
  obtain ⟨t', a', hc, hpi⟩ := mem_prods S allow f asg s p hp
  obtain ⟨ht', hg, hcon, hv, ha⟩ := (mem_cands S allow asg s t' a').mp hc
  have hk := insts_key S allow f t' a' p hpi
  exact ⟨s, hs, h1, h2, t', a', p, ht', hg, hcon, hv, ha, hpi, hpk, hk.1, hk.2.1⟩

/-- **None missing, none duplicated.**  Read in order, the parents of a resolved node are exactly one per declared
object slot for which the configuration has a producer — no such slot is skipped, none gets two parents, and
there are no others. -/
theorem parents_exact (S : Suite) (allow : String → List String) (f : Nat) (t : Test) (asg : Asg)
    (i : Inst) (hi : i ∈ insts S allow (f + 1) t asg) :
    i.parents.map tag =
      ((instSlots t asg).filter (fun s => !(prods S allow f asg s).isEmpty)).map (fun s => (s.vm, s.kind)) :=
  insts_parent_tags S allow f t asg i hi

/-- in particular: a declared slot with a producer has a parent … -/
theorem parents_complete (S : Suite) (allow : String → List String) (f : Nat) (t : Test) (asg : Asg)
    (i : Inst) (hi : i ∈ insts S allow (f + 1) t asg) (s : Slot) (hs : s ∈ instSlots t asg)
    (hp : prods S allow f asg s ≠ []) : ∃ e ∈ i.parents, e.1 = s.vm ∧ e.2.1 = s.kind := by
  have h := parents_exact S allow f t asg i hi
  have hm : (s.vm, s.kind) ∈ i.parents.map tag := by
    rw [h]
    refine List.mem_map.mpr ⟨s, List.mem_filter.mpr ⟨hs, ?_⟩, rfl⟩
    cases hpp : prods S allow f asg s with
    | nil => exact absurd hpp hp
    | cons _ _ => simp
  obtain ⟨e, he, het⟩ := List.mem_map.mp hm
  simp only [tag, Prod.mk.injEq] at het
  exact ⟨e, he, het.1, het.2⟩

/-- … and no object slot has two: if a test declares each (vm, kind) once, the parents are pairwise for different
objects. -/
theorem parents_nodup (S : Suite) (allow : String → List String) (f : Nat) (t : Test) (asg : Asg)
    (i : Inst) (hi : i ∈ insts S allow (f + 1) t asg)
    (hslots : ((instSlots t asg).map (fun s => (s.vm, s.kind))).Nodup) : (i.parents.map tag).Nodup := by
  rw [parents_exact S allow f t asg i hi]
  exact hslots.sublist (List.Sublist.map _ List.filter_sublist)

/-- **Same variant.**  A producer is composed with the child's own variant of every vm the two share — in
particular of the vm of the object the dependency is about — and only with variants the worker and the producer
test allow. -/
theorem producer_same_variant (S : Suite) (allow : String → List String) (casg : Asg) (s : Slot) (t' : Test)
    (a' : Asg) (h : (t', a') ∈ cands S allow casg s) (e : String × String) (he : e ∈ a') :
    e.2 ∈ allowedFor allow t' e.1 ∧
      ∀ c, casg.find? (fun x => x.1 == e.1) = some c → e.2 = c.2 := by
  obtain ⟨_, _, _, _, ha⟩ := (mem_cands S allow casg s t' a').mp h
  exact choices_spec allow casg t' e.1 e.2 (asgs_variant allow casg t' _ a' ha e he)

/-- **Shared setup once.**  The producers of a requirement are a function of the requirement (the `get`
restriction, the object's vm, and the variants): two dependants with the same requirement get the very same
producer nodes, and every node occurs once in a worker's graph. -/
theorem shared_setup_once (S : Suite) (allow : String → List String) (f : Nat) (asg asg' : Asg) (s s' : Slot)
    (hget : s.get = s'.get) (hvm : s.vm = s'.vm) (hasg : asg = asg') :
    prods S allow f asg s = prods S allow f asg' s' := by
  subst hasg
  simp only [prods, cands, hget, hvm]

theorem nodes_once (S : Suite) (allow : String → List String) (sel : List RLine) :
    (workerNodes S allow sel).Nodup := nodup_dedup _

/-- the node a test starts as before its dependencies are attached -/
def baseInst (t : Test) (asg : Asg) (slots : List Slot) : Inst :=
  { key := ⟨t.name, asg, []⟩, root := t.creation, slots := slots, parents := [] }

/-- **Clone per producer.**  A test with one object slot whose dependency resolves to several producer nodes
`p₁ … p_k` (k ≥ 2) becomes exactly `k` nodes, the i-th of which has `pᵢ` as its one parent, requires exactly the
state `pᵢ` provides, is labelled with it, and provides a branch specific state. -/
theorem clone_per_producer (S : Suite) (allow : String → List String) (f : Nat) (t : Test) (asg : Asg)
    (s : Slot) (hslots : instSlots t asg = [s]) (p q : Inst) (ps : List Inst)
    (hp : prods S allow f asg s = p :: q :: ps) :
    insts S allow (f + 1) t asg = (p :: q :: ps).map (cloneFor (baseInst t asg [s]) s) := by
  rw [insts_succ, hslots]
  simp only [List.foldl_cons, List.foldl_nil, hp, addSlot_many, List.flatMap_cons, List.flatMap_nil,
    List.append_nil]
  rfl

/-- what a clone looks like -/
theorem clone_shape (i : Inst) (s : Slot) (p : Inst) :
    (cloneFor i s p).parents = i.parents ++ [(s.vm, s.kind, p.key)] ∧
    (cloneFor i s p).key.labels = i.key.labels ++ [p.setOf s.vm s.kind] ∧
    (cloneFor i s p).key.test = i.key.test ∧ (cloneFor i s p).key.asg = i.key.asg ∧
    ∀ x ∈ i.slots, x.vm = s.vm → x.kind = s.kind →
      ∃ y ∈ (cloneFor i s p).slots, y.vm = x.vm ∧ y.kind = x.kind ∧ y.getState = p.setOf s.vm s.kind ∧
        y.setState = (if x.setState == "" then "" else x.setState ++ "." ++ p.setOf s.vm s.kind) := by
  refine ⟨rfl, rfl, rfl, rfl, ?_⟩
  intro x hx hv hk
  refine ⟨_, List.mem_map.mpr ⟨x, hx, rfl⟩, ?_⟩
  simp [hv, hk]

/-- the number of nodes a test becomes is the product over its slots of the number of producers (1 where there
is at most one): dependants are cloned consistently, once per branch. -/
theorem clone_count (S : Suite) (allow : String → List String) (f : Nat) (t : Test) (asg : Asg) :
    (insts S allow (f + 1) t asg).length =
      (instSlots t asg).foldl (fun n s => n * max 1 (prods S allow f asg s).length) 1 := by
  rw [insts_eq_fold, foldSlots_length]; rfl

/-- **The edge set, exactly.**  The dependencies recorded in a worker's graph are precisely the `parents` of its
nodes: an edge is in the graph iff it is of that worker and its child is a node of the graph having the edge's
parent as a parent for the edge's object. -/
theorem edges_exact (S : Suite) (user : List (String × VLine)) (sel : List RLine) (w : Worker) (e : GEdge) :
    e ∈ (resolveWorker S user sel w).edges ↔
      e.worker = w.name ∧ ∃ i ∈ workerNodes S (allowed S user w) sel, i.key = e.child ∧
        (e.vm, e.kind, e.parent) ∈ i.parents :=
  mem_worker_edges S user sel w e

/-- **Transitively down to object creation.**  Whatever a selected test reveals is closed under "parent of": every
parent named by a node of the graph is itself a node of the graph (so every setup chain is complete down to the
nodes without dependencies, the object creation nodes). -/
theorem ancestors_closed (S : Suite) (user : List (String × VLine)) (sel : List RLine) (w : Worker)
    (e : GEdge) (he : e ∈ (resolveWorker S user sel w).edges) :
    ∃ n ∈ (resolveWorker S user sel w).nodes, n.inst.key = e.parent ∧ n.worker = e.worker := by
  obtain ⟨hw, i, hi, _, hp⟩ := (mem_worker_edges S user sel w e).mp he
  obtain ⟨t, ht, hr⟩ := (mem_workerNodes S _ sel i).mp hi
  obtain ⟨j, hj, hjk⟩ := reveal_closed S _ t i hr _ hp
  refine ⟨⟨w.name, j⟩, ?_, hjk, hw.symm⟩
  exact (mem_worker_nodes S user sel w _).mpr ⟨rfl, (mem_workerNodes S _ sel j).mpr ⟨t, ht, hj⟩⟩

/-! ### non-vacuity: a suite with a two-producer group and a dependant of the whole group -/

open I2N.Resolve.Demo

def allowAll : String → List String := fun vm => if vm == "vm1" then ["A"] else []

/-- `d` depends on the whole group `m`: two producers, two clones, each with its own producer and state -/
example : (insts demo allowAll 4 tD [("vm1", "A")]).map (fun i => (i.key.labels, i.parents.map (·.2.2.test),
    i.slots.map (fun s => (s.getState, s.setState)))) =
    [(["g.a"], [["internal", "m", "a"]], [("g.a", "dst.g.a")]), (["g.b"], [["internal", "m", "b"]], [("g.b", "dst.g.b")])] := by
  decide
/-- the leaf is cloned once per clone of `d` and hangs under the clone of its branch -/
example : (insts demo allowAll 5 tLeaf [("vm1", "A")]).map (fun i => (i.key.labels, i.parents.map (·.2.2.labels))) =
    [(["dst.g.a"], [["g.a"]]), (["dst.g.b"], [["g.b"]])] := by
  decide
/-- the whole graph of the selection `leaves`: 1 creation node, 2 producers, 2 clones of d, 2 clones of the leaf -/
example : (workerNodes demo allowAll [{ neg := false, alts := [[["leaves"]]] }]).length = 7 := by decide

end I2N.Props.C07
