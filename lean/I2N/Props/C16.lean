import I2N.Lemmas.Index
import I2N.Lemmas.Register
import I2N.Lemmas.GenIndex
/-!
# C16 — Name lookups and visit counters are exact

Property theorems only (helper lemmas live in `I2N/Lemmas/Index.lean`, `Register.lean`).
The model (`I2N/Model/Index.lean`) is the one the compiled driver `drv_index` runs.

Quantifiers: every list `ns` of (name, test id) pairs that is parser shaped (`WF`: names pairwise
distinct, non-empty, no variant repeated inside a name, the first — set — variant of a name at no
later position of any name), in **any insertion order**, every query; every register history;
every number of equivalent nodes arriving in any order.
-/
namespace I2N.Props.C16
open I2N.Index

/-- Lookup by a dotted partial name returns exactly the ids of the tests whose full name contains
the query's variants contiguously. -/
theorem get_exact (ns : List (List String × Nat)) (hwf : WFb ns) (q0 : String) (qs : List String) (id : Nat) :
    id ∈ get (insertAll ns) (q0 :: qs) ↔ ∃ name, (name, id) ∈ ns ∧ (q0 :: qs) <:+: name :=
  mem_get_iff (inv_insertAll ns hwf) q0 qs id

/-- … each once: with pairwise distinct test ids the result has no duplicates. -/
theorem get_each_once (ns : List (List String × Nat)) (hwf : WF ns) (hids : (ns.map (·.2)).Nodup)
    (q : List String) : (get (insertAll ns) q).Nodup :=
  get_nodup (inv_insertAll ns hwf.toWFb) hwf hids q

/-- … regardless of insertion order: any two insertion orders of the same name set give the same
lookups (as sets; with `get_each_once` as multisets). -/
theorem get_order_independent (ns ns' : List (List String × Nat)) (hwf : WFb ns) (hwf' : WFb ns')
    (hperm : ∀ n, n ∈ ns ↔ n ∈ ns') (q0 : String) (qs : List String) (id : Nat) :
    id ∈ get (insertAll ns) (q0 :: qs) ↔ id ∈ get (insertAll ns') (q0 :: qs) := by
  rw [get_exact ns hwf, get_exact ns' hwf']
  constructor
  · rintro ⟨name, h, hi⟩; exact ⟨name, (hperm _).1 h, hi⟩
  · rintro ⟨name, h, hi⟩; exact ⟨name, (hperm _).2 h, hi⟩

/-- Membership queries agree with lookups. -/
theorem contains_iff_get (ns : List (List String × Nat)) (hwf : WFb ns) (q0 : String) (qs : List String) :
    contains (insertAll ns) (q0 :: qs) = true ↔ get (insertAll ns) (q0 :: qs) ≠ [] := by
  have hinv := inv_insertAll ns hwf
  rw [contains_iff]
  constructor
  · rintro ⟨p, hp, p', hf⟩
    -- every path of the trie extends to an inserted name, so something lies below p'
    obtain ⟨rfl, _⟩ := follow_some _ _ _ _ hf
    have hp1 := ((mem_labelled _ _ _).1 hp).1
    have hin : p ++ qs ∈ paths (insertAll ns) := by
      by_cases hqs : qs = []
      · subst hqs; simpa using hp1
      · exact (follow_some _ _ _ _ hf).2 hqs
    obtain ⟨_, n, hn, hpre⟩ := (hinv.paths_iff _).1 hin
    have : n.2 ∈ get (insertAll ns) (q0 :: qs) := by
      rw [mem_get]
      exact ⟨p, hp, p ++ qs, hf, (mem_below _ _ _).2 ⟨n.1, hpre, (hinv.fin_iff _ _).2 hn⟩⟩
    intro h; rw [h] at this; simp at this
  · intro h
    obtain ⟨id, hid⟩ := List.exists_mem_of_ne_nil _ h
    obtain ⟨p, hp, p', hf, _⟩ := (mem_get _ _ _ _).1 hid
    exact ⟨p, hp, p', hf⟩

/-- Visit counters report exactly the visits registered, per test and worker, per test, per worker,
or in total (`none` = argument omitted). -/
theorem counters_exact (ops : List (String × String)) (node worker : Option String) :
    getCounters (registerAll ops) node worker = (ops.filter (keyMatches node worker)).length := by
  have := getCounters_foldl [] ops node worker
  simpa [registerAll, getCounters, sumCounts] using this

/-- The workers reported for a test (or for all) are exactly those that registered a visit, each once. -/
theorem workers_exact (ops : List (String × String)) (node : Option String) (w : String) :
    w ∈ getWorkers (registerAll ops) node ↔ ∃ op ∈ ops, keyMatches node none op = true ∧ op.2 = w := by
  rw [mem_getWorkers]
  constructor
  · rintro ⟨k, hk, hm, hw⟩
    have := (mem_keys_foldl [] ops k).1 (by simpa [registerAll] using hk)
    simp at this
    exact ⟨k, this, hm, hw⟩
  · rintro ⟨k, hk, hm, hw⟩
    refine ⟨k, ?_, hm, hw⟩
    have := (mem_keys_foldl [] ops k).2 (Or.inr hk)
    simpa [registerAll] using this

theorem workers_each_once (ops : List (String × String)) (node : Option String) :
    (getWorkers (registerAll ops) node).Nodup := nodup_dedup _

/-- Equivalent tests of different workers share their visit bookkeeping: when the nodes of one
equivalence class are parsed one after the other (any number, any order) and each new node bridges
with all earlier ones (the discipline of `parse_branches_for_node_and_object` and of cloning), then
afterwards any two of them reference the same register objects and are linked symmetrically. -/
theorem shared_after_bridging (ms : List Nat) (hnd : ms.Nodup) (x y : Nat) (hx : x ∈ ms) (hy : y ∈ ms) :
    let st := ms.foldl arrive ({ regOf := [], bridged := [] }, [])
    st.1.reg x = st.1.reg y ∧ st.1.isBridged x y = st.1.isBridged y x ∧ (x ≠ y → st.1.isBridged x y = true) := by
  intro st
  have h := classInv_foldl ms _ classInv_init hnd (by simp)
  have hseen : ∀ z, z ∈ ms → z ∈ st.2 := by
    intro z hz
    have : ∀ (l : List Nat) (s : Bridging × List Nat), (l.foldl arrive s).2 = s.2 ++ l := by
      intro l
      induction l with
      | nil => simp
      | cons a r ih => intro s; simp [List.foldl_cons, ih, arrive]
    show z ∈ (ms.foldl arrive _).2
    rw [this]; simpa using hz
  exact ⟨h.shared x (hseen x hx) y (hseen y hy), h.sym x y, h.linked x (hseen x hx) y (hseen y hy)⟩

/-- … and likewise for the other bridging discipline of the code, the all-pairs loop of the update tool
(`for node1 in nodes: for node2 in nodes: node1.bridge_with_node(node2)`): afterwards every two distinct
nodes of the class are linked to each other DIRECTLY (the `bridged` relation is a clique, not only
connected — `shared_started_workers`, `shared_results` read direct neighbours only) and reference the
same register objects (those of the last node).  Any number of nodes, any order. -/
theorem shared_after_all_pairs (ms : List Nat) (hnd : ms.Nodup) (x y : Nat) (hx : x ∈ ms) (hy : y ∈ ms) (hxy : x ≠ y) :
    let b := allPairs ms { regOf := [], bridged := [] }
    b.isBridged x y = true ∧ b.isBridged y x = true ∧ b.reg x = b.reg y := by
  intro b
  have h0 : PairsInv [] ms { regOf := [], bridged := [] } := by
    refine ⟨by simp, ?_, ?_, by simp⟩
    · intro a c h; simp [Bridging.isBridged] at h
    · intro c _; rfl
  have h := pairsInv_foldl ms hnd [] ms (by simp) _ h0
  have hl := h.linked x hx y (by simpa using hy) hxy
  refine ⟨hl.1, hl.2, ?_⟩
  have hx' := h.regDone x hx
  have hy' := h.regDone y hy
  simp only [List.append_nil] at hx' hy'
  cases hl' : ms.getLast? with
  | none => simp at hl'; subst hl'; simp at hx
  | some l =>
    rw [hl'] at hx' hy'
    show (allPairs ms _).reg x = (allPairs ms _).reg y
    unfold allPairs
    rw [hx', hy']
    rfl

/-- A visit registered through one member of a bridged class is read through every member: the two
nodes address the same register object, hence the same counters. -/
theorem visit_seen_by_all (regs : Nat → Register) (b : Bridging) (x y : Nat) (h : b.reg x = b.reg y)
    (node worker : Option String) :
    getCounters (regs (b.reg x)) node worker = getCounters (regs (b.reg y)) node worker := by rw [h]

/-! ## Non-vacuity and boundary witnesses -/

/-- Really parsed multi-vm names repeat inner variants (the net block once per vm): they are outside `WF`
but inside `WFb`, so membership exactness, order independence and `contains` still apply to them; only
"each once" can fail — a query occurring twice in one name returns that test twice (witness below; the
same happens in the real class). -/
def multiVmNames : List (List String × Nat) :=
  [(["normal", "t3", "vms", "vm1", "nets", "localhost", "net1", "vm2", "nets", "localhost", "net1"], 0),
   (["all", "customize", "vms", "vm1", "nets", "localhost", "net1"], 1)]

example : get (insertAll multiVmNames) ["nets", "localhost", "net1"] = [0, 0, 1] := by decide
example : get (insertAll multiVmNames) ["t3", "vms", "vm1"] = [0] := by decide

/-- the five literal names of the selftests (`test_prefix_tree_*`) satisfy `WF` -/
def selftestNames : List (List String × Nat) :=
  [(["aaa", "bbb", "ccc"], 0), (["aaa", "bbb", "fff"], 1), (["aaa", "eee", "ccc"], 2),
   (["ddd", "bbb", "ccc"], 3), (["ddd", "bbb", "ccc", "ggg"], 4)]

example : WF selftestNames := wfCheck_sound _ (by decide)
example : get (insertAll selftestNames) ["bbb", "ccc"] = [0, 3, 4] := by decide
example : contains (insertAll selftestNames) ["bbb", "ccc"] = true := by decide
example : contains (insertAll selftestNames) ["bbb", "ggg"] = false := by decide

/-- outside `WF` (the first variant `b` of the second name re-occurs inside the first name) the
structure is not a general suffix trie: `b.c` is filed under `a.b`, and `get "a.b.c"` returns it
although no inserted name contains `a.b.c`.  The same happens in the real class (DESIGN.md C16). -/
example : get (insertAll [(["a", "b"], 0), (["b", "c"], 1)]) ["a", "b", "c"] = [1] := by decide

example : getCounters (registerAll [("n", "net1"), ("n", "net2"), ("n", "net1"), ("m", "net1")]) (some "n") (some "net1") = 2 := by
  decide
example : (allPairs [0, 1, 2] { regOf := [], bridged := [] }).isBridged 1 2 = true := by decide
example : (([0, 1, 2].foldl arrive ({ regOf := [], bridged := [] }, [])).1.reg 0
    = ([0, 1, 2].foldl arrive ({ regOf := [], bridged := [] }, [])).1.reg 2) := by decide

/-! ## Translator tie: the hand model of the edge registers equals the code's current source

`I2N/Extracted/GenIndex.lean` is regenerated on every run from the source of `EdgeRegister.register`,
`get_counters`, `get_workers` (harness/pygen_pxindex.py).  The source keeps a dict of dicts
(`I2N.PyDict.PyReg`: node key ↦ worker key ↦ counter, insertion ordered), the hand model a flat association list
keyed by the pair; the ADAPTER is `I2N.Index.flat` (concatenation of the inner dictionaries in dictionary order,
counters as naturals).  Hypothesis of all three: `RegWF r` — what a Python dict guarantees by construction (no node
key twice, no worker key twice inside a node) and that no counter is negative; it is decidable, holds for the empty
registry and is preserved by the source's `register` (part of `register_matches_source`), so it holds for every
registry the code can build.  It excludes only lists that are not dictionaries. -/

open I2N.PyDict I2N.Extracted.GenIndex

/-- `EdgeRegister.register` (generated from the source) never raises on a well-formed registry, keeps it well
formed, and its effect seen through the adapter is the model's `register` — the same entries with the same counters
(a permutation: the source files a new worker of a known node inside that node's dictionary, the model appends the
pair at the end; neither `getCounters` nor `getWorkers` observes the order, see `getCounters_perm`). -/
theorem register_matches_source (r : PyReg) (h : RegWF r) (n w : String) :
    ∃ r', (genRegister n w).run r = .ok ((), r') ∧ RegWF r' ∧ (flat r').Perm (register (flat r) n w) :=
  ⟨regStep r n w, genRegister_run r n w, regWF_regStep r h n w, flat_regStep_perm r h n w⟩

/-- `EdgeRegister.get_counters` (generated from the source) returns the model's `getCounters` of the adapter's image,
for all four argument shapes (`none` = argument omitted / `None`). -/
theorem getCounters_matches_source (r : PyReg) (h : RegWF r) (node worker : Option String) :
    genGetCounters r node worker = (getCounters (flat r) node worker : Int) := by
  rw [getCounters_flat r h node worker]
  unfold genGetCounters
  simp only [Id.run, pure]
  rw [← keys_nodeSel r node]
  have hg := nodeSel_getD r h.1 node
  rw [foldl_foldl_add_eq (keys (nodeSel r node))
    (fun nk => if worker.isSome = true then [worker.getD ""] else keys (getD r nk []))
    (fun nk wk => getD (getD r nk []) wk 0) 0]
  simp only [Int.zero_add, keys, List.map_map]
  congr 1
  apply List.map_congr_left
  intro e he
  simp only [Function.comp]
  rw [hg e he]
  cases worker <;> simp [workerSel, keys]

/-- `EdgeRegister.get_workers` (generated from the source) returns, as a set, the model's `getWorkers` of the adapter's
image (the Python value is a `set`: only membership is compared; the model's list is duplicate free by
`workers_each_once`). -/
theorem getWorkers_matches_source (r : PyReg) (h : RegWF r) (node : Option String) (w : String) :
    w ∈ genGetWorkers r node ↔ w ∈ getWorkers (flat r) node := by
  rw [getWorkers_flat r h.1 node, mem_dedup, mem_workers_flat]
  unfold genGetWorkers
  simp only [Id.run, pure]
  rw [← keys_nodeSel r node, mem_foldl_append]
  have hg := nodeSel_getD r h.1 node
  simp only [List.not_mem_nil, false_or, keys, List.mem_map]
  constructor
  · rintro ⟨nk, ⟨e, he, rfl⟩, hw⟩
    exact ⟨e, he, by rw [hg e he] at hw; exact hw⟩
  · rintro ⟨e, he, hw⟩
    exact ⟨e.1, ⟨e, he, rfl⟩, by rw [hg e he]; exact hw⟩

/-- the source's `register` run over a list of visits, from a registry `r` -/
def genRegisterAll : List (String × String) → RegM Unit
  | [] => pure ()
  | op :: rest => do genRegister op.1 op.2; genRegisterAll rest

/-- END TO END, on the source itself: after any sequence of `register` calls on a fresh `EdgeRegister` (any number, any
nodes and workers) no call raised, `get_counters` returns exactly the number of matching visits and `get_workers`
exactly the workers that visited — `counters_exact` / `workers_exact` transported along the three equalities above. -/
theorem source_counters_exact (ops : List (String × String)) :
    ∃ r, (genRegisterAll ops).run [] = .ok ((), r) ∧ RegWF r ∧
      (∀ node worker, genGetCounters r node worker = ((ops.filter (keyMatches node worker)).length : Int)) ∧
      (∀ node w, w ∈ genGetWorkers r node ↔ ∃ op ∈ ops, keyMatches node none op = true ∧ op.2 = w) := by
  suffices hgen : ∀ (ops : List (String × String)) (r0 : PyReg) (m0 : Register), RegWF r0 → SameObs r0 m0 →
      ∃ r, (genRegisterAll ops).run r0 = .ok ((), r) ∧ RegWF r ∧
        SameObs r (ops.foldl (fun m op => register m op.1 op.2) m0) by
    obtain ⟨r, hrun, hwf, hobs⟩ := hgen ops [] [] (by decide) ⟨fun _ _ => rfl, fun _ _ => Iff.rfl⟩
    refine ⟨r, hrun, hwf, ?_, ?_⟩
    · intro node worker
      rw [getCounters_matches_source r hwf, hobs.1]
      exact congrArg Int.ofNat (counters_exact ops node worker)
    · intro node w
      rw [getWorkers_matches_source r hwf, hobs.2]
      exact workers_exact ops node w
  intro ops
  induction ops with
  | nil => intro r0 m0 h0 hp; exact ⟨r0, rfl, h0, hp⟩
  | cons op rest ih =>
    intro r0 m0 h0 hp
    obtain ⟨r1, hrun1, hwf1, hperm1⟩ := register_matches_source r0 h0 op.1 op.2
    obtain ⟨r, hrun, hwf, hobs⟩ := ih r1 (register m0 op.1 op.2) hwf1 (sameObs_register r0 r1 m0 op.1 op.2 hp hperm1)
    refine ⟨r, ?_, hwf, by simpa using hobs⟩
    simp only [genRegisterAll, StateT.run_bind, hrun1]
    exact hrun

/-! ### non-vacuity and boundary of the tie -/

/-- a registry as the code builds it: two nodes, the first visited by two workers -/
def sampleReg : PyReg := [("n", [("net1", 2), ("net2", 1)]), ("m", [("net1", 1)])]

example : RegWF sampleReg := by decide
example : RegWF ([] : PyReg) := by decide
example : flat sampleReg = [(("n", "net1"), 2), (("n", "net2"), 1), (("m", "net1"), 1)] := by decide
example : genGetCounters sampleReg (some "n") none = 3 := by decide
example : genGetCounters sampleReg none (some "net1") = 3 := by decide
example : genGetWorkers sampleReg none = ["net1", "net2", "net1"] := by decide
/-- a new worker of a known node: the source files it inside the node's dictionary, the model at the end — the
permutation of `register_matches_source` is proper -/
example : (genRegister "n" "net3").run sampleReg
    = .ok ((), [("n", [("net1", 2), ("net2", 1), ("net3", 1)]), ("m", [("net1", 1)])]) := by rfl
example : register (flat sampleReg) "n" "net3"
    = [(("n", "net1"), 2), (("n", "net2"), 1), (("m", "net1"), 1), (("n", "net3"), 1)] := by decide
/-- `RegWF` cannot be dropped: on a list that is not a dictionary (a node key twice) the source's lookups see the
first entry only, the model sums both -/
example : genGetCounters [("n", [("w", 1)]), ("n", [("w", 5)])] (some "n") none = 1
    ∧ getCounters (flat [("n", [("w", 1)]), ("n", [("w", 5)])]) (some "n") none = 6 := by decide
/-- the primitives of the pinned stores do raise where Python raises (`register` itself never does) -/
example : (addCount "n" "w" 1).run [] = .error .keyError := by rfl

end I2N.Props.C16
