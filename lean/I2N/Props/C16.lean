import I2N.Model.Index
namespace I2N.Props.C16
theorem placeholder : True := trivial
end I2N.Props.C16
