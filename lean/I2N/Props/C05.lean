import I2N.Lemmas.TravReady
import I2N.Lemmas.TravClean
import I2N.Model.TravMon
import I2N.Extracted.GenClean
import I2N.Lemmas.GenLazy
import I2N.Lemmas.GenShared
/-!
# C05 — States are removed only after every dependant finished, and only if asked
-/
namespace I2N.Props.C05
open I2N.Trav

/-- the request a reversal sends to the state control (if any): its action and its state list -/
def syncRequest (g : Graph) (s : State) (n w : Nat) (rv : Option (List String)) : Option (String × List (String × String)) :=
  match (syncStates g s n w rv).2 with
  | [Event.door _ a reqs _ _] => some (a, reqs)
  | _ => none

/-- invariant of the loop of `sync_states`: every state queued for removal is marked `f.`; states are
queued for a copy only when the pool filter is neither `reuse` nor `block`; the action names what was queued -/
def AccOk (nd : Node) (acc : SyncAcc) : Prop :=
  (∀ vs ∈ acc.2.2.1, (unsetModeOf nd vs.1).toList.head? = some 'f') ∧
  (acc.2.2.2.1 ≠ [] → ¬ (nd.poolFilter = "reuse" ∨ nd.poolFilter = "block")) ∧
  (acc.2.1 = "unset" → acc.2.2.1 ≠ []) ∧ (acc.2.1 = "get" → acc.2.2.2.1 ≠ []) ∧
  (acc.1 = true → acc.2.1 = "unset" ∨ acc.2.1 = "get") ∧
  (∀ vs ∈ acc.2.2.1, vs ∈ nd.sets)

theorem accOk_step (nd : Node) (rv : Option (List String)) (acc : SyncAcc) (vs : String × String)
    (hvs : vs ∈ nd.sets) (h : AccOk nd acc) : AccOk nd (syncStep nd rv acc vs) := by
  obtain ⟨h1, h2, h3, h4, h5, h6⟩ := h
  unfold syncStep
  dsimp only
  generalize vmSelected rv vs.1 = sel
  by_cases c1 : acc.2.2.2.2 = true
  · rw [if_pos c1]; exact ⟨h1, h2, h3, h4, h5, h6⟩
  rw [if_neg c1]
  by_cases c2 : ((unsetModeOf nd vs.1).toList.head? != some 'f' && (unsetModeOf nd vs.1).toList.head? != some 'r') = true
  · rw [if_pos c2]; exact ⟨h1, h2, h3, h4, h5, h6⟩
  rw [if_neg c2]
  by_cases c3 : (!sel) = true
  · rw [if_pos c3]; exact ⟨h1, h2, h3, h4, h5, h6⟩
  rw [if_neg c3]
  by_cases c4 : ((unsetModeOf nd vs.1).toList.head? == some 'f') = true
  · rw [if_pos c4]
    refine ⟨?_, h2, by simp, by simp, by simp, ?_⟩
    · intro x hx
      simp only [List.mem_append, List.mem_singleton] at hx
      rcases hx with hx | hx
      · exact h1 x hx
      · subst hx; simpa using c4
    · intro x hx
      simp only [List.mem_append, List.mem_singleton] at hx
      rcases hx with hx | hx
      · exact h6 x hx
      · subst hx; exact hvs
  rw [if_neg c4]
  by_cases c5 : (nd.poolFilter == "reuse" || nd.poolFilter == "block") = true
  · rw [if_pos c5]; exact ⟨h1, h2, h3, h4, by simp, h6⟩
  rw [if_neg c5]
  refine ⟨h1, ?_, by simp, by simp, by simp, h6⟩
  intro _
  simpa using c5

theorem accOk_syncAcc (nd : Node) (rv : Option (List String)) : AccOk nd (syncAcc nd rv) := by
  unfold syncAcc
  have : ∀ (l : List (String × String)) acc, (∀ x ∈ l, x ∈ nd.sets) → AccOk nd acc →
      AccOk nd (l.foldl (syncStep nd rv) acc) := by
    intro l
    induction l with
    | nil => intro acc _ h; exact h
    | cons a r ih =>
      intro acc hl h
      exact ih _ (fun x hx => hl x (by simp [hx])) (accOk_step nd rv acc a (hl a (by simp)) h)
  exact this _ _ (fun _ h => h) ⟨by simp, by simp, by simp, by simp, by simp, by simp⟩

/-- Only states marked for removal (`unset_mode` starting with `f`) are ever removed, and with the
default pool filter (`reuse`, also `block`) no state is copied while backing out: whatever
`sync_states` requests is either an `unset` of marked states of this node, or a `get` under
`pool_filter=copy`. -/
theorem sync_request_sound (g : Graph) (s : State) (n w : Nat) (rv : Option (List String)) (a : String)
    (reqs : List (String × String)) (h : syncRequest g s n w rv = some (a, reqs)) :
    (a = "unset" ∧ reqs ≠ [] ∧ ∀ vs ∈ reqs, vs ∈ (g.node n).sets ∧ (unsetModeOf (g.node n) vs.1).toList.head? = some 'f') ∨
    (a = "get" ∧ reqs ≠ [] ∧ ¬ ((g.node n).poolFilter = "reuse" ∨ (g.node n).poolFilter = "block")) := by
  obtain ⟨h1, h2, h3, h4, h5, h6⟩ := accOk_syncAcc (g.node n) rv
  unfold syncRequest syncStates at h
  dsimp only at h
  by_cases hc : (syncAcc (g.node n) rv).1 = true
  · simp only [hc, Bool.not_true, Bool.false_eq_true, if_false] at h
    by_cases ha : (syncAcc (g.node n) rv).2.1 = "unset"
    · simp only [ha, beq_self_eq_true, if_true, Option.some.injEq, Prod.mk.injEq] at h
      left
      rw [← h.1, ← h.2]
      exact ⟨rfl, h3 ha, fun vs hvs => ⟨h6 vs hvs, h1 vs hvs⟩⟩
    · have hne : ((syncAcc (g.node n) rv).2.1 == "unset") = false := by simpa using ha
      simp only [hne, Bool.false_eq_true, if_false, Option.some.injEq, Prod.mk.injEq] at h
      right
      rcases h5 hc with h5 | h5
      · exact absurd h5 ha
      · rw [← h.1, ← h.2]
        exact ⟨rfl, h4 h5, h2 (h4 h5)⟩
  · have : (syncAcc (g.node n) rv).1 = false := by simpa using hc
    simp [this] at h

/-- States not marked for removal are never removed by a run: if no object of the node is marked `f.`
the reversal sends no `unset` at all. -/
theorem reuse_states_never_unset (g : Graph) (s : State) (n w : Nat) (rv : Option (List String))
    (hno : ∀ vs ∈ (g.node n).sets, (unsetModeOf (g.node n) vs.1).toList.head? ≠ some 'f') (reqs : List (String × String)) :
    syncRequest g s n w rv ≠ some ("unset", reqs) := by
  intro h
  rcases sync_request_sound g s n w rv _ _ h with ⟨_, hne, hall⟩ | ⟨ha, _⟩
  · obtain ⟨x, hx⟩ := List.exists_mem_of_ne_nil _ hne
    exact hno x (hall x hx).1 (hall x hx).2
  · simp at ha

/-- With the default pool filter nothing is copied while backing out. -/
theorem default_filter_no_copy (g : Graph) (s : State) (n w : Nat) (rv : Option (List String))
    (hf : (g.node n).poolFilter = "reuse" ∨ (g.node n).poolFilter = "block") (reqs : List (String × String)) :
    syncRequest g s n w rv ≠ some ("get", reqs) := by
  intro h
  rcases sync_request_sound g s n w rv _ _ h with ⟨ha, _⟩ | ⟨_, _, hnf⟩
  · simp at ha
  · exact hnf hf

/-- "The last worker closes the door": a reversible node (some object marked `f.`) is cleaned only
when, for every involved worker of the cleaning worker's swarm (every involved worker for
`localhost`), that worker's copy of the node is cleanup-ready — all its dependants were dropped, i.e.
finished or skipped for that worker — and carries no pending (`UNKNOWN`) result, and all involved
workers have finished the node. -/
theorem clean_requires_all_ready (g : Graph) (s : State) (n w : Nat) (hrev : isReversible (g.node n) = true)
    (h : cleanDecision g s n w = .ok true) :
    isFinished g s n w (-1) = true ∧
    ∀ v ∈ involved g s n, ((g.worker w).swarm == "localhost" || strIn (g.worker w).swarm (g.worker v).id) = true →
      ∃ m, (if g.idIn v n then some n else (g.copies n).tail.find? (fun m => g.idIn v m)) = some m ∧
        isCleanupReady g s m v = true ∧ (s.nd m).results.all (fun r => lower r.status != "unknown") = true := by
  unfold cleanDecision at h
  dsimp only at h
  by_cases h1 : (g.node n).dryRun = true
  · simp [h1] at h
  by_cases h2 : (g.node n).flat = true
  · simp [h1, h2] at h
  by_cases h3 : (g.node n).cloneSource = true
  · simp [h1, h2, h3] at h
  by_cases h4 : g.idIn w n = true
  · simp only [h1, h2, h3, h4, hrev, Bool.false_eq_true, if_false, Bool.not_true, Bool.not_false, if_true] at h
    split at h
    · simp at h
    · split at h
      · simp at h
      · rename_i hany hall
        simp only [Except.ok.injEq] at h
        refine ⟨h, ?_⟩
        intro v hv hsw
        have hvin : v ∈ (involved g s n).filter (fun v =>
            (g.worker w).swarm == "localhost" || strIn (g.worker w).swarm (g.worker v).id) :=
          List.mem_filter.2 ⟨hv, hsw⟩
        simp only [Bool.not_eq_true, Bool.not_eq_false'] at hall
        rw [List.all_eq_true] at hall
        have := hall v hvin
        split at this
        · simp at this
        · rename_i m hm
          simp only [Bool.and_eq_true, Bool.not_eq_true'] at this
          refine ⟨m, hm, this.1, ?_⟩
          rw [List.all_eq_true]
          intro r hr
          have h2' := this.2
          rw [List.any_eq_false] at h2'
          have := h2' r hr
          simpa using this
  · have : g.idIn w n = false := by simpa using h4
    simp [h1, h2, h3, this] at h

/-- flat, cloned and dry nodes are never reversed -/
theorem never_clean_flat_or_clone_source (g : Graph) (s : State) (n w : Nat)
    (h : (g.node n).flat = true ∨ (g.node n).cloneSource = true ∨ (g.node n).dryRun = true) :
    cleanDecision g s n w = .ok false := by
  unfold cleanDecision
  rcases h with h | h | h
  · by_cases b : (g.node n).dryRun = true <;> simp [b, h]
  · by_cases b : (g.node n).dryRun = true <;> by_cases c : (g.node n).flat = true <;> simp [b, c, h]
  · simp [h]

/-! ## lifted to the step: over ALL reachable states

Vocabulary as in `Props/C01.lean` (`ReachH`, `Trv`, `visH`, `OwnerNames`, `FlatClass`; `Lemmas/TravReady.lean`). -/

/-- A child is dropped only after the worker traversed it: in every reachable state, if worker `v` is registered in
`droppedCleanup` of the class of `n` for the class of a parsed child `c`, then `v`'s own copy of `c`'s class carries `v`'s
`finished` mark. -/
theorem children_dropped_means_decided (g : Graph) (hwf : graphWF g = true) (hroot : (g.node g.root).flat = true)
    (hO : OwnerNames g) (hF : FlatClass g) {ncls : Nat} {store : Store} {H0 : List Nat} {s : State}
    (hr : ReachH g ncls store H0 s) (n c v : Nat) (hc : c < g.nodes.length) (hfc : (g.node c).flat = false)
    (h : v ∈ regWorkers (s.cr (g.node n).cls).droppedCleanup (some (g.node c).cls)) :
    ∃ c', c' < g.nodes.length ∧ (g.node c').cls = (g.node c).cls ∧ (g.node c').owner = some v ∧
      (s.nd c').finished = some v :=
  ((hr.trv (GraphWF.of_bool hwf) hroot hO.uniq).dropC _ _ v h).owned hO hF hc hfc

/-- … and at that time the run decision for it was negative and the node was cleanup-ready: `drop_child` is called only
on the way down, after `should_run = false` and `is_cleanup_ready` (single-iteration form: if the rest of the loop body
changes some `droppedCleanup` register, both were the case). -/
theorem child_dropped_only_when_decided (g : Graph) (s : State) (w next prev : Nat) (dir : Dir) (s' : State) (evs : List Event)
    (f : Flow) (h : afterTraverse g s w next prev dir = (s', evs, f))
    (hdrop : ∃ c, (s'.cr c).droppedCleanup ≠ (s.cr c).droppedCleanup) :
    dir = .down ∧ ∃ s1 e1, runDecision g s next w = .ok (false, s1, e1) ∧ isCleanupReady g s1 next w = true := by
  obtain ⟨c, hc⟩ := hdrop
  unfold afterTraverse at h
  cases hd : runDecision g s next w with
  | error e =>
    simp only [hd, Prod.mk.injEq] at h
    rw [← h.1] at hc; exact absurd rfl hc
  | ok r =>
    obtain ⟨run, s1, e1⟩ := r
    have hcr : ∀ c, s1.cr c = s.cr c := by
      intro c
      rcases runDecision_state g s next w run s1 e1 hd with h' | h'
      · rw [h']
      · rw [h']; rfl
    simp only [hd] at h
    cases dir with
    | up =>
      exfalso
      simp only [Prod.mk.injEq] at h
      apply hc
      rw [← h.1, ← hcr c]
      split
      · show ((dropParent g s1 prev next w).cr c).droppedCleanup = _
        unfold dropParent
        rcases cr_setCr_cases s1 (g.node prev).cls
          (fun r => { r with droppedSetup := regAdd r.droppedSetup ((g.node next).cls, w) }) c with h' | ⟨_, h'⟩
        · rw [h']
        · rw [h']
      · rfl
    | down =>
      refine ⟨rfl, ?_⟩
      cases run with
      | true =>
        exfalso
        simp only [if_true, Prod.mk.injEq] at h
        apply hc
        rw [← h.1, ← hcr c]; rfl
      | false =>
        refine ⟨s1, e1, rfl, ?_⟩
        by_cases hready : isCleanupReady g s1 next w = true
        · exact hready
        · exfalso
          simp only [Bool.false_eq_true, if_false, hready] at h
          apply hc
          cases hp : pickChild g s1 next w with
          | none =>
            simp only [hp, Prod.mk.injEq] at h
            rw [← h.1, hcr c]
          | some r =>
            obtain ⟨c2, s2⟩ := r
            simp only [hp, Prod.mk.injEq] at h
            obtain ⟨_, _, hs2⟩ := pickChild_rel g s1 next w c2 s2 hp
            rw [← h.1, ← hcr c, hs2]
            show ((s1.setCr _ _).cr c).droppedCleanup = _
            rcases cr_setCr_cases s1 (g.node c2).cls
              (fun r => { r with pickedBySetup := regAdd r.pickedBySetup ((g.node next).cls, w) }) c with h' | ⟨_, h'⟩
            · rw [h']
            · rw [h']

/-- Cleanup-readiness therefore means "all dependants traversed": in a state satisfying the invariant (every reachable
state and every intermediate state of a step), a node that is cleanup-ready for `v` on a graph `gv` with the nodes of
`g` (the graph as parsed so far) has all its relevant parsed children traversed by `v`. -/
theorem cleanup_ready_children_traversed (g : Graph) (hwf : graphWF g = true) (hO : OwnerNames g) (hF : FlatClass g)
    {H0 : List Nat} {s : State} (t : Trv g H0 s) (gv : Graph) (hsn : SameNodes gv g)
    (hsub : ∀ n c, c ∈ (gv.node n).cleanup → c ∈ (g.node n).cleanup) (m v : Nat)
    (h : isCleanupReady gv s m v = true) :
    ∀ c ∈ (gv.node m).cleanup, relevant g v c.1 = true → (g.node c.1).flat = false →
      ∃ c', c' < g.nodes.length ∧ (g.node c').cls = (g.node c.1).cls ∧ (g.node c').owner = some v ∧
        (s.nd c').finished = some v := by
  intro c hc hrel hfc
  have h1 := (cleanup_ready_iff gv s m v).mp h c hc (by rw [relevant_sameNodes hsn]; exact hrel)
  rw [hsn.cls, hsn.cls] at h1
  exact (t.dropC _ _ v h1).owned hO hF ((GraphWF.of_bool hwf).cleanup_lt m c (hsub m c hc)) hfc

/-- "The last worker closes the door", at the level of the step: whenever a `resume` step of worker `w` emits an `unset`
request, it was sent by `w` for a node `n` from `sync_states` inside `reverse_node`, after the clean decision — taken in a
state `sd` of this step (`sd` satisfies the invariant `Trv`, the other workers' records are those of `s`, `n` carries
`w`'s `started` mark), on the graph visible at that time (`visH g hid`, `hid` between what is hidden in `sd` and what was
hidden initially) — was positive.  The request lists only states of `n` marked for removal.  And if `n` is reversible,
then in `sd` all involved workers had finished the node and every involved worker `v` of `w`'s swarm (all for `localhost`)
had its copy `m` of `n` cleanup-ready, without pending result, and had traversed every relevant parsed dependant of `m`. -/
theorem unset_only_when_all_dropped (g : Graph) (hwf : graphWF g = true) (hroot : (g.node g.root).flat = true)
    (hO : OwnerNames g) (hF : FlatClass g) {ncls : Nat} {store : Store} {H0 : List Nat} {s : State}
    (hr : ReachH g ncls store H0 s) (w : Nat) (out : Outcome) (fuel : Nat)
    (wid : String) (reqs : List (String × String)) (sc : List String) (ok : Bool)
    (he : Event.door wid "unset" reqs sc ok ∈ (resume g s w out fuel).2) :
    wid = (g.worker w).id ∧ ∃ hid sd n, (∀ h ∈ sd.hidden, h ∈ hid) ∧ (∀ h ∈ hid, h ∈ H0) ∧ Trv g H0 sd ∧
      (∀ v, v ≠ w → sd.wd v = s.wd v) ∧ n < g.nodes.length ∧ (sd.nd n).started = some w ∧
      cleanDecision (visH g hid) sd n w = .ok true ∧
      (reqs ≠ [] ∧ ∀ vs ∈ reqs, vs ∈ (g.node n).sets ∧ (unsetModeOf (g.node n) vs.1).toList.head? = some 'f') ∧
      (isReversible (g.node n) = true →
        isFinished g sd n w (-1) = true ∧
        ∀ v ∈ involved g sd n,
          ((g.worker w).swarm == "localhost" || strIn (g.worker w).swarm (g.worker v).id) = true →
          ∃ m, (if g.idIn v n then some n else (g.copies n).tail.find? (fun m => g.idIn v m)) = some m ∧
            isCleanupReady (visH g hid) sd m v = true ∧ (sd.nd m).results.all (fun r => lower r.status != "unknown") = true ∧
            ∀ c ∈ ((visH g hid).node m).cleanup, relevant g v c.1 = true → (g.node c.1).flat = false →
              ∃ c', c' < g.nodes.length ∧ (g.node c').cls = (g.node c.1).cls ∧ (g.node c').owner = some v ∧
                (sd.nd c').finished = some v) := by
  have t := hr.trv (GraphWF.of_bool hwf) hroot hO.uniq
  obtain ⟨hid, sd, n, h1, h2, h3, hn, hst, hcd, hev⟩ :=
    ((resume_ok g H0 (GraphWF.of_bool hwf) hroot s w out fuel t).2 _ he).1 wid reqs sc ok rfl
  have td := t.upd hO.uniq h3
  have hsn := sameNodes_visH g hid
  obtain ⟨hw, _, ha, hreq⟩ := syncStates_unset_event (visH g hid) sd n w none wid reqs sc ok hev
  -- the request is addressed to the pool of the copy's own worker, which under `OwnerNames` is the acting worker
  have hnet : (visH g hid).netOf n w = w := by
    obtain ⟨d1, _, _, d4⟩ := I2N.Trav.Clean.cleanDecision_true (visH g hid) sd n w hcd
    have ho : (g.node n).owner = some w :=
      (hO w n hn (by rw [← hsn.flat]; exact d1)).mp (by rw [← idIn_sameNodes hsn]; exact d4)
    unfold Graph.netOf; rw [hsn.owner, ho]; rfl
  rw [hnet] at hw
  obtain ⟨a1, _, a3, _, _, a6⟩ := accOk_syncAcc ((visH g hid).node n) none
  refine ⟨by rw [hw, hsn.worker], hid, sd, n, h1, h2, td, h3.others, hn, hst, hcd, ⟨?_, ?_⟩, fun hrev => ?_⟩
  · rw [hreq]; exact a3 ha
  · intro vs hvs
    rw [hreq] at hvs
    exact ⟨by rw [← hsn.sets]; exact a6 vs hvs, by rw [← unsetModeOf_sameNodes hsn]; exact a1 vs hvs⟩
  · obtain ⟨hfin, hall⟩ := clean_requires_all_ready (visH g hid) sd n w (by rw [isReversible_sameNodes hsn]; exact hrev) hcd
    refine ⟨by rw [← isFinished_sameNodes hsn]; exact hfin, fun v hv hsw => ?_⟩
    obtain ⟨m, hm, hcr, hres⟩ := hall v (by rw [involved_sameNodes hsn]; exact hv) (by rw [hsn.worker, hsn.worker]; exact hsw)
    refine ⟨m, ?_, hcr, hres, ?_⟩
    · rw [← hm]
      simp only [idIn_sameNodes hsn, copies_sameNodes hsn]
    · exact cleanup_ready_children_traversed g hwf hO hF td (visH g hid) hsn (fun n c => visH_cleanup_sub g hid n c) m v hcr

/-- … on a pre-parsed graph (nothing hidden initially) the decision is taken on the full graph: all dependants count. -/
theorem unset_only_when_all_dropped_eager (g : Graph) (hwf : graphWF g = true) (hroot : (g.node g.root).flat = true)
    (hO : OwnerNames g) (hF : FlatClass g) {ncls : Nat} {store : Store} {s : State}
    (hr : ReachH g ncls store [] s) (w : Nat) (out : Outcome) (fuel : Nat)
    (wid : String) (reqs : List (String × String)) (sc : List String) (ok : Bool)
    (he : Event.door wid "unset" reqs sc ok ∈ (resume g s w out fuel).2) :
    wid = (g.worker w).id ∧ ∃ sd n, Trv g [] sd ∧ (∀ v, v ≠ w → sd.wd v = s.wd v) ∧ n < g.nodes.length ∧
      (sd.nd n).started = some w ∧ cleanDecision g sd n w = .ok true ∧
      (isReversible (g.node n) = true →
        isFinished g sd n w (-1) = true ∧
        ∀ v ∈ involved g sd n,
          ((g.worker w).swarm == "localhost" || strIn (g.worker w).swarm (g.worker v).id) = true →
          ∃ m, (if g.idIn v n then some n else (g.copies n).tail.find? (fun m => g.idIn v m)) = some m ∧
            isCleanupReady g sd m v = true ∧ (sd.nd m).results.all (fun r => lower r.status != "unknown") = true ∧
            ∀ c ∈ (g.node m).cleanup, relevant g v c.1 = true → (g.node c.1).flat = false →
              ∃ c', c' < g.nodes.length ∧ (g.node c').cls = (g.node c.1).cls ∧ (g.node c').owner = some v ∧
                (sd.nd c').finished = some v) := by
  obtain ⟨h0, hid, sd, n, _, h2, td, h3, hn, hst, hcd, _, hrev⟩ :=
    unset_only_when_all_dropped g hwf hroot hO hF hr w out fuel wid reqs sc ok he
  have : hid = [] := by
    cases hid with
    | nil => rfl
    | cons a r => exact absurd (h2 a List.mem_cons_self) (by simp)
  subst this
  exact ⟨h0, sd, n, td, h3, hn, hst, hcd, hrev⟩

/-- the only source of `unset` requests is this: a step that emits none of them removes no state through the door
(`reuse_states_never_unset` lifted: a node without `f.`-marked set state never appears in an `unset` request) -/
theorem unset_only_if_marked_step (g : Graph) (hwf : graphWF g = true) (hroot : (g.node g.root).flat = true)
    (hO : OwnerNames g) (hF : FlatClass g) {ncls : Nat} {store : Store} {H0 : List Nat} {s : State}
    (hr : ReachH g ncls store H0 s) (w : Nat) (out : Outcome) (fuel : Nat)
    (wid : String) (reqs : List (String × String)) (sc : List String) (ok : Bool)
    (he : Event.door wid "unset" reqs sc ok ∈ (resume g s w out fuel).2) :
    ∃ n, n < g.nodes.length ∧ ∃ vs ∈ (g.node n).sets, vs ∈ reqs ∧ (unsetModeOf (g.node n) vs.1).toList.head? = some 'f' := by
  obtain ⟨_, hid, sd, n, _, _, _, _, hn, _, _, ⟨hne, hall⟩, _⟩ :=
    unset_only_when_all_dropped g hwf hroot hO hF hr w out fuel wid reqs sc ok he
  obtain ⟨vs, hvs⟩ := List.exists_mem_of_ne_nil _ hne
  exact ⟨n, hn, vs, (hall vs hvs).1, hvs, (hall vs hvs).2⟩

/-! ### non-vacuity (the instance `exGraph` of `Lemmas/TravReady.lean`) -/

example : graphWF exGraph = true ∧ (exGraph.node exGraph.root).flat = true ∧ ownerNamesB exGraph = true := by decide
example : FlatClass exGraph := by decide
example : ReachH exGraph 3 [] [] exS2 := reachH_runSched exGraph 3 [] [] 100 _ _ ReachH.init

set_option maxRecDepth 100000 in
/-- `b` (node 2, reversible: `unset_mode=fi`) passed: net1 backs out of it, removes its state and — being the only
involved worker — drops it as a child of `a`; its copy of `b` carries its mark -/
example : isReversible (exGraph.node 2) = true ∧
    Event.door "net1" "unset" [("vm1", "b")] ["own"] true ∈ (resume exGraph exS2 0 exPass 100).2 ∧
    0 ∈ regWorkers ((resume exGraph exS2 0 exPass 100).1.cr (exGraph.node 0).cls).droppedCleanup (some (exGraph.node 2).cls) ∧
    ((resume exGraph exS2 0 exPass 100).1.nd 2).finished = some 0 := by
  decide +kernel

/-! lazy expansion (`H0 = [0, 1, 2, 3]`, see `Props/C01.lean`): the same removal on the lazily expanded suite -/

example : ReachH exLazy 4 [] [0, 1, 2, 3] exL2 := reachH_runSched exLazy 4 [] _ 100 _ _ ReachH.init

set_option maxRecDepth 100000 in
example : exL2.hidden = [1, 3] ∧
    Event.door "net1" "unset" [("vm1", "b")] ["own"] true ∈ (resume exLazy exL2 0 exPass 100).2 := by
  decide +kernel

/-! ## the run-level statement: an `unset` request appears only after the dependants are done

Vocabulary of `Lemmas/TravClean.lean`: `WellFormed g ncls` (decidable: edge end points in range, a worker's id names exactly
its own copies, the copies of a class are all flat or all parsed, edges recorded at both ends, one copy of a class per
worker, a flat root without parents, registers for every class, set states only for own objects), `InScope g w v` (the
test of `default_clean_decision`: the cleaning worker is a `localhost` one or its swarm id occurs in `v`'s id), `ReachC`
(the reachable states of a pre-parsed graph: steps of real workers with positive fuel), `ReachH … H0` (any initial hidden
set: lazy expansion). -/
open I2N.Trav.Clean

/-- Where an `unset` request of a step comes from, for ANY initial hidden set (lazy expansion included): it was sent by the
acting worker `w` to its OWN pool only (scope `["own"]`), from `sync_states` in `reverse_node` of a node `p`, after the clean
decision taken in a state `sd` of this step on the graph visible then (`visH g hid`) was positive.  `p` is `w`'s own parsed
copy (not flat), not a clone source, not a dry run; the request lists only set states of `p` whose removal policy starts
with `f`; all involved workers have finished `p`; and every involved worker `v` within `w`'s scope has its copy `m` of `p`
without pending (`UNKNOWN`) result, has dropped every visible dependant `c` of `m` it cares for, and has traversed it
(`finished` mark of `v` on `c`). -/
theorem unset_request_provenance (g : Graph) {ncls : Nat} (hW : WellFormed g ncls) {store : Store} {H0 : List Nat} {s : State}
    (hr : ReachH g ncls store H0 s) (w : Nat) (out : Outcome) (fuel : Nat)
    (wid : String) (reqs : List (String × String)) (sc : List String) (ok : Bool)
    (he : Event.door wid "unset" reqs sc ok ∈ (resume g s w out fuel).2) :
    wid = (g.worker w).id ∧ sc = ["own"] ∧ ok = true ∧
    ∃ hid sd p, (∀ h ∈ sd.hidden, h ∈ hid) ∧ (∀ h ∈ hid, h ∈ H0) ∧ Upd g H0 w s sd ∧ p < g.nodes.length ∧
      cleanDecision (visH g hid) sd p w = .ok true ∧
      ((g.node p).flat = false ∧ (g.node p).cloneSource = false ∧ (g.node p).dryRun = false ∧ g.idIn w p = true) ∧
      (reqs ≠ [] ∧ ∀ vs ∈ reqs, vs ∈ (g.node p).sets ∧ (unsetModeOf (g.node p) vs.1).toList.head? = some 'f') ∧
      isFinished g sd p w (-1) = true ∧
      ∀ v ∈ involved g sd p, InScope g w v = true →
        ∃ m, (if g.idIn v p then some p else (g.copies p).tail.find? (fun m => g.idIn v m)) = some m ∧
          (sd.nd m).results.all (fun r => lower r.status != "unknown") = true ∧
          ∀ c ∈ ((visH g hid).node m).cleanup, relevant g v c.1 = true →
            v ∈ regWorkers (sd.cr (g.node m).cls).droppedCleanup (some (g.node c.1).cls) ∧
            ((g.node c.1).flat = false → (sd.nd c.1).finished = some v) := by
  obtain ⟨hwf, hOb, hF, hS, hC, hT, hK, hSO⟩ := hW
  have hO := ownerNamesB_sound hOb
  have hU := relUniq_of hO hF hC
  have t := hr.trv (GraphWF.of_bool hwf) hT.1 hO.uniq
  obtain ⟨hid, sd, n, h1, h2, h3, hn, hst, hcd, hev⟩ :=
    ((resume_ok g H0 (GraphWF.of_bool hwf) hT.1 s w out fuel t).2 _ he).1 wid reqs sc ok rfl
  have td := t.upd hO.uniq h3
  have hsn := sameNodes_visH g hid
  obtain ⟨hw, _, ha, hreq⟩ := syncStates_unset_event (visH g hid) sd n w none wid reqs sc ok hev
  -- the request is addressed to the pool of the copy's own worker, which under `OwnerNames` is the acting worker
  have hnet : (visH g hid).netOf n w = w := by
    obtain ⟨d1, _, _, d4⟩ := I2N.Trav.Clean.cleanDecision_true (visH g hid) sd n w hcd
    have ho : (g.node n).owner = some w :=
      (hO w n hn (by rw [← hsn.flat]; exact d1)).mp (by rw [← idIn_sameNodes hsn]; exact d4)
    unfold Graph.netOf; rw [hsn.owner, ho]; rfl
  rw [hnet] at hw
  obtain ⟨hsc, hok⟩ := syncStates_unset_own (visH g hid) sd n w none wid reqs sc ok hev
  obtain ⟨a1, _, a3, _, _, a6⟩ := accOk_syncAcc ((visH g hid).node n) none
  have hne : reqs ≠ [] := by rw [hreq]; exact a3 ha
  have hall : ∀ vs ∈ reqs, vs ∈ (g.node n).sets ∧ (unsetModeOf (g.node n) vs.1).toList.head? = some 'f' := by
    intro vs hvs
    rw [hreq] at hvs
    exact ⟨by rw [← hsn.sets]; exact a6 vs hvs, by rw [← unsetModeOf_sameNodes hsn]; exact a1 vs hvs⟩
  have hrev : isReversible (g.node n) = true := by
    obtain ⟨vs, hvs⟩ := List.exists_mem_of_ne_nil _ hne
    unfold isReversible
    rw [List.any_eq_true]
    exact ⟨vs.1, hSO n hn vs (hall vs hvs).1, by rw [(hall vs hvs).2]; rfl⟩
  obtain ⟨c1, c2, c3, c4⟩ := cleanDecision_true (visH g hid) sd n w hcd
  obtain ⟨hfin, hinv⟩ := clean_requires_all_ready (visH g hid) sd n w (by rw [isReversible_sameNodes hsn]; exact hrev) hcd
  refine ⟨by rw [hw, hsn.worker], hsc, hok, hid, sd, n, h1, h2, h3, hn, hcd,
    ⟨by rw [← hsn.flat]; exact c1, by rw [← sameNodes_cloneSource hsn]; exact c2, by rw [← sameNodes_dryRun hsn]; exact c3,
      by rw [← idIn_sameNodes hsn]; exact c4⟩,
    ⟨hne, hall⟩, by rw [← isFinished_sameNodes hsn]; exact hfin, fun v hv hsw => ?_⟩
  obtain ⟨m, hm, hcr, hres⟩ := hinv v (by rw [involved_sameNodes hsn]; exact hv)
    (by unfold InScope at hsw; rw [hsn.worker, hsn.worker]; exact hsw)
  refine ⟨m, ?_, hres, fun c hc hrel => ?_⟩
  · rw [← hm]
    simp only [idIn_sameNodes hsn, copies_sameNodes hsn]
  · have hd := (cleanup_ready_iff (visH g hid) sd m v).mp hcr c hc (by rw [relevant_sameNodes hsn]; exact hrel)
    rw [hsn.cls, hsn.cls] at hd
    refine ⟨hd, fun hfc => ?_⟩
    obtain ⟨p', b1, b2, b3, b4⟩ := td.dropC _ _ v hd
    have hcl : c.1 < g.nodes.length := (GraphWF.of_bool hwf).cleanup_lt m c (visH_cleanup_sub g hid m c hc)
    have hpc : p' = c.1 := hU v p' c.1 b1 hcl b2 b3 hrel
    rw [hpc] at b4
    exact b4 hfc

/-- **States are removed only after every dependant finished** (pre-parsed graphs; any workers, interleaving, outcomes).
If a step of worker `w` emits an `unset` request, then
(1) it is for set states of a node `p` — `w`'s own parsed copy, neither flat nor a clone source nor a dry run — whose
removal policy starts with `f` (marked for removal), and all involved workers have finished `p`;
(2) for every worker `v` that is involved in `p` (has picked a copy of it: hypothesis (b)) and lies within the scope the
clean decision of `w` waits for (hypothesis (a)): `v`'s copy `m` of `p` carries no pending (`UNKNOWN`) result, and every
dependant `c` of `m` that `v` cares for has been dropped by `v`, carries `v`'s `finished` mark, and NO EXECUTION OF IT IS IN
FLIGHT: no other worker `u` awaits a test on `c` (`w` itself is inside this very step, not inside a test);
(3) the request goes to `w`'s own pool only.
The two hypotheses on `v` are necessary: see `cross_swarm_dependant_in_flight` (a) and
`lazy_unpicked_dependant_starts_after_unset` (b).  A dependant may keep an `UNKNOWN` placeholder for ever (result never
reported: `run_test_node` defaults to ERROR and leaves the placeholder), which is why (2) speaks of executions in flight
and not of placeholders on the dependants. -/
theorem unset_after_dependants (g : Graph) {ncls : Nat} (hW : WellFormed g ncls) {store : Store} {s : State}
    (hr : ReachC g ncls store s) (w : Nat) (out : Outcome) (fuel : Nat)
    (wid : String) (reqs : List (String × String)) (sc : List String) (ok : Bool)
    (he : Event.door wid "unset" reqs sc ok ∈ (resume g s w out fuel).2) :
    wid = (g.worker w).id ∧ sc = ["own"] ∧ ok = true ∧
    ∃ sd p, p < g.nodes.length ∧ (∀ v, v ≠ w → sd.wd v = s.wd v) ∧ cleanDecision g sd p w = .ok true ∧
      ((g.node p).flat = false ∧ (g.node p).cloneSource = false ∧ (g.node p).dryRun = false ∧ g.idIn w p = true) ∧
      (reqs ≠ [] ∧ ∀ vs ∈ reqs, vs ∈ (g.node p).sets ∧ (unsetModeOf (g.node p) vs.1).toList.head? = some 'f') ∧
      isFinished g sd p w (-1) = true ∧
      ∀ v ∈ involved g sd p, InScope g w v = true →
        ∃ m, (if g.idIn v p then some p else (g.copies p).tail.find? (fun m => g.idIn v m)) = some m ∧
          (sd.nd m).results.all (fun r => lower r.status != "unknown") = true ∧
          ∀ c ∈ (g.node m).cleanup, relevant g v c.1 = true →
            v ∈ regWorkers (sd.cr (g.node m).cls).droppedCleanup (some (g.node c.1).cls) ∧
            ((g.node c.1).flat = false → (sd.nd c.1).finished = some v ∧
              ∀ u, u ≠ w → ∀ ph dir uid tag wait, (s.wd u).pc ≠ .test c.1 ph dir uid tag wait) := by
  obtain ⟨e1, e2, e3, hid, sd, p, _, h2, h3, hp, hcd, f1, f2, f3, f4⟩ :=
    unset_request_provenance g hW hr.reachH w out fuel wid reqs sc ok he
  have hnil : hid = [] := by
    cases hid with
    | nil => rfl
    | cons a r => exact absurd (h2 a List.mem_cons_self) (by simp)
  subst hnil
  have ci := hr.cinv hW.hyp hW.2.2.2.2.2.2.1
  have hO := ownerNamesB_sound hW.2.1
  have t := hr.reachH.trv (GraphWF.of_bool hW.1) hW.2.2.2.2.2.1.1 hO.uniq
  refine ⟨e1, e2, e3, sd, p, hp, h3.others, hcd, f1, f2, f3, fun v hv hsw => ?_⟩
  obtain ⟨m, hm, hres, hch⟩ := f4 v hv hsw
  refine ⟨m, hm, hres, fun c hc hrel => ?_⟩
  obtain ⟨hd, hfin⟩ := hch c hc hrel
  refine ⟨hd, fun hfc => ⟨hfin hfc, fun u hu ph dir uid tag wait hpc => ?_⟩⟩
  -- only the owner executes a copy: `u = v`
  obtain ⟨hcl, hidu, _, _⟩ := t.pc u c.1 ph dir uid tag wait hpc
  have huv : u = v := hO.uniq c.1 hcl hfc u v hidu (relevant_nonflat hrel hfc)
  subst huv
  -- `u` has not dropped the node it is executing; `w` registers drops in its own name only
  have hnd := ci.not_dropped_in_flight u c.1 ph dir uid tag wait hpc
  rcases h3.dropC _ _ u hd with h | ⟨h, _⟩
  · exact hnd ⟨_, h⟩
  · exact hu h

/-- … hence, when all workers wait for each other (one swarm, or `localhost` workers), for EVERY involved worker -/
theorem unset_after_dependants_one_scope (g : Graph) {ncls : Nat} (hW : WellFormed g ncls) (hS : OneScope g) {store : Store}
    {s : State} (hr : ReachC g ncls store s) (w : Nat) (hw : w < g.workers.length) (out : Outcome) (fuel : Nat)
    (wid : String) (reqs : List (String × String)) (sc : List String) (ok : Bool)
    (he : Event.door wid "unset" reqs sc ok ∈ (resume g s w out fuel).2) :
    ∃ sd p, p < g.nodes.length ∧ (∀ v, v ≠ w → sd.wd v = s.wd v) ∧
      ∀ v ∈ involved g sd p,
        ∃ m, (if g.idIn v p then some p else (g.copies p).tail.find? (fun m => g.idIn v m)) = some m ∧
          (sd.nd m).results.all (fun r => lower r.status != "unknown") = true ∧
          ∀ c ∈ (g.node m).cleanup, relevant g v c.1 = true →
            v ∈ regWorkers (sd.cr (g.node m).cls).droppedCleanup (some (g.node c.1).cls) ∧
            ((g.node c.1).flat = false → (sd.nd c.1).finished = some v ∧
              ∀ u, u ≠ w → ∀ ph dir uid tag wait, (s.wd u).pc ≠ .test c.1 ph dir uid tag wait) := by
  obtain ⟨_, _, _, sd, p, hp, ho, _, _, _, _, h⟩ := unset_after_dependants g hW hr w out fuel wid reqs sc ok he
  refine ⟨sd, p, hp, ho, fun v hv => h v hv (hS w hw v ?_)⟩
  unfold involved at hv
  exact List.mem_range.mp (List.mem_filter.mp hv).1

/-- **No dependant is being executed when a state is removed** (pre-parsed graphs, one scope, the default reuse shape).
A worker that executes a dependant of its copy of `p` has traversed that copy, so its `finished` mark is on it, so — by
`is_finished(worker, -1)`, the last test of the clean decision — it is involved, and `unset_after_dependants` applies to
it.  Hence: whenever a step of `w` emits an `unset` request for states of `p`, NO other worker awaits a test on a node one
of whose parents is that worker's copy of `p` (`w` itself is inside this step, not inside a test).  This is what is
guaranteed about workers that have not picked `p` (hypothesis (b)) on a pre-parsed graph: they are not executing a
dependant; on a lazily expanded graph they may start one AFTERWARDS (`lazy_unpicked_dependant_starts_after_unset`). -/
theorem unset_no_dependant_in_flight (g : Graph) {ncls : Nat} (hW : WellFormed g ncls) (hS : OneScope g) (hG : GlobalShape g)
    {store : Store} {s : State} (hr : ReachC g ncls store s) (w : Nat) (hw : w < g.workers.length) (out : Outcome)
    (fuel : Nat) (wid : String) (reqs : List (String × String)) (sc : List String) (ok : Bool)
    (he : Event.door wid "unset" reqs sc ok ∈ (resume g s w out fuel).2) :
    ∃ p, p < g.nodes.length ∧
      (reqs ≠ [] ∧ ∀ vs ∈ reqs, vs ∈ (g.node p).sets ∧ (unsetModeOf (g.node p) vs.1).toList.head? = some 'f') ∧
      ∀ u, u ≠ w → ∀ c ph dir uid tag wait, (s.wd u).pc = .test c ph dir uid tag wait →
        ∀ m ∈ (g.node c).setup.map (·.1), (g.node m).cls = (g.node p).cls → relevant g u m = true → False := by
  obtain ⟨_, _, _, hid, sd, p, _, h2, h3, hp, _, f1, f2, f3, f4⟩ :=
    unset_request_provenance g hW hr.reachH w out fuel wid reqs sc ok he
  have hnil : hid = [] := by
    cases hid with
    | nil => rfl
    | cons a r => exact absurd (h2 a List.mem_cons_self) (by simp)
  subst hnil
  have H := hW.hyp
  have ci := hr.cinv H hW.2.2.2.2.2.2.1
  have hO := ownerNamesB_sound hW.2.1
  have hF := hW.2.2.1
  have t := hr.reachH.trv (GraphWF.of_bool hW.1) hW.2.2.2.2.2.1.1 hO.uniq
  refine ⟨p, hp, f2, fun u hu c ph dir uid tag wait hpc m hm hmc hmrel => ?_⟩
  -- `c` was setup-ready for `u` when the test was started: `u` has dropped its copy `m` of `p` as a parent of `c`
  obtain ⟨hcl, hidu, hcf, hid', _, hb, hready⟩ := t.pc u c ph dir uid tag wait hpc
  have hnil' : hid' = [] := by
    cases hid' with
    | nil => rfl
    | cons a r => exact absurd (hb a List.mem_cons_self) (by simp)
  subst hnil'
  obtain ⟨q, hq, hqm⟩ := List.mem_map.mp hm
  have hml : m < g.nodes.length := by rw [← hqm]; exact H.wf.setup_lt c q hq
  have hds := (setup_ready_iff' g s c u).mp hready q hq (by rw [hqm]; exact hmrel)
  rw [hqm] at hds
  -- … so `u`'s `finished` mark is on `m`, in `s` and still in `sd`
  obtain ⟨p', b1, b2, b3, b4⟩ := t.dropS _ _ u hds
  have hp'm : p' = m := H.uniq u p' m b1 hml b2 b3 hmrel
  rw [hp'm] at b4
  have hmf : (g.node m).flat = false := by rw [hF m hml p hp hmc]; exact f1.1
  have hfin_s : (s.nd m).finished = some u := b4 hmf
  have hfin_sd : (sd.nd m).finished = some u := by
    rcases h3.fin m with h | ⟨_, hr', _⟩
    · rw [h]; exact hfin_s
    · exact absurd (hO.uniq m hml hmf u w (relevant_nonflat hmrel hmf) (relevant_nonflat hr' hmf)) hu
  -- … hence `u` is involved, and the run-level statement applies to it
  have hinv := involved_of_finished g sd p w m u hp f1.1 (hG p hp) f3 hml hmc hfin_sd
  have hul : u < g.workers.length := by
    unfold involved at hinv
    exact List.mem_range.mp (List.mem_filter.mp hinv).1
  obtain ⟨m', hm', _, hch⟩ := f4 u hinv (hS w hw u hul)
  obtain ⟨k1, k2, k3⟩ := pickedOf_spec g p u m' hp f1.1 hm'
  have hmm : m' = m := H.uniq u m' m k1 hml (k2.trans hmc.symm) (relevant_of_idIn k3) hmrel
  subst hmm
  have hcm : c ∈ (g.node m').cleanup.map (·.1) := (H.sym m' hml c hcl).mp hm
  obtain ⟨q', hq', hq'c⟩ := List.mem_map.mp hcm
  have hrc : relevant g u q'.1 = true := by rw [hq'c]; exact relevant_of_idIn hidu
  obtain ⟨hd, _⟩ := hch q' hq' hrc
  rw [hq'c] at hd
  exact not_in_flight_of_dropped ci t hO h3 hcf (relevant_of_idIn hidu) hd u hu ph dir uid tag wait hpc

/-- The statement that covers lazy expansion (any initial hidden set) is PARTIAL: everything of `unset_after_dependants`
but the absence of executions in flight, and the dependants are those visible when the decision is taken.  Missing: on a
lazily expanded graph a node a worker has dropped can get a NEW dependant when the worker expands another flat test for
itself; the worker then walks up to the dropped node again and — if its rerun rule has flipped meanwhile — may execute it
again, so "dropped" does not imply "never on the path again" there (the proof of the pre-parsed case rests on exactly that:
`Lemmas/TravClean.lean`, `CInv`).  And a dependant that is only expanded for a worker that has not picked `p` yet is not
waited for at all: `lazy_unpicked_dependant_starts_after_unset`. -/
theorem unset_after_dependants_lazy_partial (g : Graph) {ncls : Nat} (hW : WellFormed g ncls) {store : Store} {H0 : List Nat}
    {s : State} (hr : ReachH g ncls store H0 s) (w : Nat) (out : Outcome) (fuel : Nat)
    (wid : String) (reqs : List (String × String)) (sc : List String) (ok : Bool)
    (he : Event.door wid "unset" reqs sc ok ∈ (resume g s w out fuel).2) :
    wid = (g.worker w).id ∧ sc = ["own"] ∧ ok = true ∧
    ∃ hid sd p, (∀ h ∈ sd.hidden, h ∈ hid) ∧ (∀ h ∈ hid, h ∈ H0) ∧ p < g.nodes.length ∧ (∀ v, v ≠ w → sd.wd v = s.wd v) ∧
      cleanDecision (visH g hid) sd p w = .ok true ∧
      ((g.node p).flat = false ∧ (g.node p).cloneSource = false ∧ (g.node p).dryRun = false ∧ g.idIn w p = true) ∧
      (reqs ≠ [] ∧ ∀ vs ∈ reqs, vs ∈ (g.node p).sets ∧ (unsetModeOf (g.node p) vs.1).toList.head? = some 'f') ∧
      isFinished g sd p w (-1) = true ∧
      ∀ v ∈ involved g sd p, InScope g w v = true →
        ∃ m, (if g.idIn v p then some p else (g.copies p).tail.find? (fun m => g.idIn v m)) = some m ∧
          (sd.nd m).results.all (fun r => lower r.status != "unknown") = true ∧
          ∀ c ∈ ((visH g hid).node m).cleanup, relevant g v c.1 = true →
            v ∈ regWorkers (sd.cr (g.node m).cls).droppedCleanup (some (g.node c.1).cls) ∧
            ((g.node c.1).flat = false → (sd.nd c.1).finished = some v) := by
  obtain ⟨e1, e2, e3, hid, sd, p, h1, h2, h3, hp, hcd, f1, f2, f3, f4⟩ :=
    unset_request_provenance g hW hr w out fuel wid reqs sc ok he
  exact ⟨e1, e2, e3, hid, sd, p, h1, h2, hp, h3.others, hcd, f1, f2, f3, f4⟩

/-! ### non-vacuity and the witnesses of the two hypotheses -/

example : WellFormed exGraph 3 ∧ OneScope exGraph ∧ GlobalShape exGraph := by decide
example : ReachC exGraph 3 [] exS2 :=
  reachC_runSched exGraph 3 [] 100 (by decide) _ (by decide) _ ReachC.init

/-- (a) cross-swarm, hypothesis `InScope g w v` (known finding `cleanup:unset-while-dependant-runs:cross-swarm`): `c2.net2` is
involved in `p` (it reused it and was told to fetch the state from `c1.net1`'s pool) and is executing the dependant `d`
(node 5, a cleanup child of its copy 1 of `p`) when `c1.net1`, which only waits for involved workers of its own swarm,
removes the state from its pool.  What IS guaranteed for workers outside the scope: nothing about their dependants; only
that the request touches the cleaning worker's own pool (`sc = ["own"]`), so copies in other pools stay. -/
theorem cross_swarm_dependant_in_flight :
    (WellFormed exCross 4 ∧ ¬ OneScope exCross ∧ InScope exCross 0 1 = false ∧ (5, ["vm1"]) ∈ (exCross.node 1).cleanup) ∧
    (1 ∈ involved exCross exX3 0 ∧ pcNode (exX3.wd 1).pc = some 5) ∧
    Event.door "c1.net1" "unset" [("vm1", "p")] ["own"] true ∈ (resume exCross exX3 0 exPass 100).2 :=
  ⟨by decide +kernel, by decide +kernel, by decide +kernel⟩

/-- why (2) speaks of executions in flight and not of placeholders on the dependants: the result of `c` (node 2) was never
reported — `run_test_node` gives up after ten waits, defaults to ERROR and leaves the `UNKNOWN` placeholder in the node's
results for ever; `c` is finished for the worker all the same, and the state of `p` is removed with the placeholder there -/
theorem dependant_may_keep_unknown_placeholder :
    ((exX13.nd 2).results.map (·.status) = ["UNKNOWN"] ∧ (exX13.nd 2).finished = some 0 ∧ pcNode (exX13.wd 0).pc = some 4) ∧
    Event.door "c1.net1" "unset" [("vm1", "p")] ["own"] true ∈ (resume exCross exX13 0 exPass 100).2 :=
  ⟨by decide +kernel, by decide +kernel⟩

example : ReachC exCross 4 [] exX3 :=
  reachC_runSched exCross 4 [] 100 (by decide) _ (by decide) _ ReachC.init

/-- (b) not picked yet, hypothesis `v ∈ involved g sd p` (known finding
`states:lazy-expansion-state-removed-before-the-dependant-worker-picked-its-producer`): on the lazily expanded graph net2
has expanded the flat test `e` for itself — its copies of `e` (node 3) and of the producer `p` (node 1) exist, `e` is a
dependant of `p` and not traversed — but runs the other setup `q` first and has not PICKED `p` yet, so it is not involved;
net1 finds itself the only involved worker and removes the state; afterwards net2 starts `e`, told to fetch the state from
net1's pool.  What IS guaranteed for a worker that is not involved: it has not picked any copy of `p` (definition of
`involved`), and the request touches net1's own pool only. -/
theorem lazy_unpicked_dependant_starts_after_unset :
    (WellFormed exLazyB 6 ∧ OneScope exLazyB ∧ (3, ["vm1"]) ∈ (exLazyB.node 1).cleanup) ∧
    (exB2.hidden = [2, 4] ∧ involved exLazyB exB2 0 = [0] ∧ (exB2.nd 3).finished = none) ∧
    Event.door "net1" "unset" [("vm1", "p")] ["own"] true ∈ (resume exLazyB exB2 0 exPass 100).2 ∧
    Event.start "net2" "1" "2a1" [("vm1", ":/pool/shared net2:/pool/swarm net1:/pool/swarm")] 1 ∈
      (resume exLazyB exB3 1 exPass 100).2 :=
  ⟨by decide +kernel, by decide +kernel, by decide +kernel, by decide +kernel⟩

example : ReachH exLazyB 6 [] [0, 1, 2, 3, 4, 5] exB2 := reachH_runSched exLazyB 6 [] _ 100 _ _ ReachH.init

/-! ## The regenerated clean decision (`harness/pygen.py`)

`I2N/Extracted/GenClean.lean` is regenerated on every run from the source of `TestNode.default_clean_decision`: the four
tests in front (dry run, flat, clone source, foreign worker → `RuntimeError`), the `is_reversible` loop over the node's
objects (`for … : flag = …; flag |= …; if flag: break  else: flag = False`, printed as `List.any`) and the selection
"not reversible → clean; reversible → the loop over the involved workers".  That last loop is pinned verbatim (its text
is in `harness/pygen.py`, a changed body is refused) and enters as `door`, what it returns or raises; `cleanDoor` is
how `cleanDecision` mirrors it (tied by the differential runs). -/

section Regenerated
open I2N.Extracted.GenClean

theorem singleton_beq_f (c : Char) : (String.singleton c == "f") = (c == 'f') := by
  by_cases h : c = 'f'
  · subst h; decide
  · have : String.singleton c ≠ "f" := by
      intro h2
      apply h
      have := congrArg String.toList h2
      simpa using this
    rw [beq_eq_false_iff_ne.mpr this, beq_eq_false_iff_ne.mpr h]

/-- the first character of the unset mode the model holds for object `vm` of `nd`, as Python's `mode[0]` -/
def modeHead (nd : Node) (vm : String) : String :=
  match (unsetModeOf nd vm).toList.head? with
  | some c => String.singleton c
  | none => ""

theorem modeHead_f (nd : Node) (vm : String) :
    (modeHead nd vm == "f") = ((unsetModeOf nd vm).toList.head? == some 'f') := by
  unfold modeHead
  cases h : (unsetModeOf nd vm).toList.head? with
  | none => decide
  | some c => simp only [singleton_beq_f]; rfl

/-- the loop over the involved workers of `default_clean_decision` ("close the door"), as `cleanDecision` mirrors it -/
def cleanDoor (g : Graph) (s : State) (n w : Nat) : Except String Bool :=
  let inv := (involved g s n).filter (fun v =>
    (g.worker w).swarm == "localhost" || strIn (g.worker w).swarm (g.worker v).id)
  let pickedOf := fun (v : Nat) =>
    if g.idIn v n then some n else (g.copies n).tail.find? (fun m => g.idIn v m)
  if inv.any (fun v => (pickedOf v).isNone) then .error "ValueError" else
  let okAll := inv.all (fun v =>
    match pickedOf v with
    | none => false
    | some m => isCleanupReady g s m v && !((s.nd m).results.any (fun r => lower r.status == "unknown")))
  if !okAll then .ok false else .ok (isFinished g s n w (-1))

theorem any_congr_mem {α} (p q : α → Bool) (l : List α) (h : ∀ x ∈ l, p x = q x) : l.any p = l.any q := by
  induction l with
  | nil => rfl
  | cons a l ih =>
    simp only [List.any_cons]
    rw [h a (by simp), ih (fun x hx => h x (by simp [hx]))]

/-- the encoding under which the model's one unset mode per object stands for the two parameter reads of the code:
an object counts as reversible in the code (`unset_mode_images` or `unset_mode_vms`, each defaulting to `unset_mode`,
starts with `f`) iff the mode exported for it starts with `f` -/
def ModesEncoded (nd : Node) (imagesMode vmsMode : String → String) : Prop :=
  ∀ o ∈ nd.objs, ((imagesMode o == "f") || (vmsMode o == "f")) = ((unsetModeOf nd o).toList.head? == some 'f')

/-- **The hand written `cleanDecision` is the Python source of `default_clean_decision`** (the tests in front of the
pinned loop, their order, the `RuntimeError`, the meaning of `is_reversible` as "some object", and which branch leads
to the loop), for every graph, state, copy and worker — modulo the explicit encoding `ModesEncoded` of the two
per-object parameter reads by the one exported mode. -/
theorem cleanDecision_matches_source (g : Graph) (s : State) (n w : Nat) (imagesMode vmsMode : String → String)
    (henc : ModesEncoded (g.node n) imagesMode vmsMode) :
    cleanDecision g s n w =
      genCleanDecision (g.node n).dryRun (g.node n).flat (g.node n).cloneSource (g.idIn w n) (g.node n).objs
        imagesMode vmsMode (cleanDoor g s n w) := by
  have hrev : isReversible (g.node n) =
      (g.node n).objs.any (fun o => (imagesMode o == "f") || (vmsMode o == "f")) := by
    unfold isReversible
    exact any_congr_mem _ _ _ (fun o ho => (henc o ho).symm)
  unfold cleanDecision genCleanDecision cleanDoor
  dsimp only
  rw [hrev]
  cases (g.node n).dryRun <;> cases (g.node n).flat <;> cases (g.node n).cloneSource <;> cases g.idIn w n <;>
    try rfl
  all_goals
    cases (g.node n).objs.any (fun o => (imagesMode o == "f") || (vmsMode o == "f")) <;> rfl

/-- non-vacuity of `ModesEncoded`: reading both parameters as the exported mode satisfies it, for every node -/
theorem modesEncoded_modeHead (nd : Node) : ModesEncoded nd (modeHead nd) (modeHead nd) := by
  intro o _
  rw [modeHead_f, Bool.or_self]

/-- the generated definition computes: not reversible → clean at once; reversible → whatever the loop says; a foreign
worker raises before the objects are looked at; a dry run never cleans -/
example : genCleanDecision false false false true ["vm1", "vm2"] (fun _ => "r") (fun _ => "r") (.ok false) = .ok true ∧
    genCleanDecision false false false true ["vm1", "vm2"] (fun o => if o == "vm2" then "f" else "r") (fun _ => "r")
      (.ok false) = .ok false ∧
    genCleanDecision false false false true ["vm1"] (fun _ => "r") (fun _ => "f") (.error "ValueError") =
      .error "ValueError" ∧
    genCleanDecision false false false false [] (fun _ => "f") (fun _ => "f") (.ok true) = .error "RuntimeError" ∧
    genCleanDecision true false false false ["vm1"] (fun _ => "f") (fun _ => "f") (.ok true) = .ok false :=
  ⟨rfl, rfl, rfl, rfl, rfl⟩

end Regenerated

end I2N.Props.C05

-- ==== pxloc ====
/-! ## Translator tie: `shared_involved_workers` is the Python source (`harness/pygen_pxloc.py`)

`Extracted/GenInvolved.lean` is regenerated on every run from the CURRENT source of the property
`TestNode.shared_involved_workers` (avocado_i2n/cartgraph/node.py) — the set `default_clean_decision` runs over and
`is_started` / `is_finished` compare with for the threshold `-1`.  Translated (nothing pinned): the union of the workers of
the two `picked_by` registers, the nested comprehension over `TestSwarm.run_swarms` and the workers of each swarm with the
filter `w.id in worker_ids`, `set(…)`.  Atoms (trusted): `<register>.get_workers()` = `regWorkers <register> none`; a
worker's id stands for the worker (register keys are worker indices in the model); `TestSwarm.run_swarms` = the swarms in
dictionary order, each standing for the list of its workers. -/
namespace I2N.Props.C05
open I2N.Trav
open I2N.Extracted.GenInvolved

/-- **The hand written `involved` is the Python source of `shared_involved_workers`**, for every graph, state and node
and EVERY division of the workers into swarms.  Hypothesis `hs`: the swarms, one after the other, list the workers
`0 … |workers|-1` in the exported order (this is how `harness/travlib.py` numbers them: swarm by swarm; it excludes
divisions that forget or repeat a worker).  The equality is one of LISTS (hence of the sets they stand for). -/
theorem involved_matches_source (g : Graph) (s : State) (n : Nat) (swarms : List (List Nat))
    (hs : swarms.flatten = List.range g.workers.length) :
    involved g s n =
      genSharedInvolvedWorkers (regWorkers (s.cr (g.node n).cls).pickedBySetup none)
        (regWorkers (s.cr (g.node n).cls).pickedByCleanup none) swarms := by
  rw [I2N.GenLazy.genSharedInvolvedWorkers_eq, hs]
  rfl

/-- non-vacuity of `hs`: three workers in two swarms -/
example : ([[0, 1], [2]] : List (List Nat)).flatten = List.range 3 := by decide

/-- the generated definition computes: the workers of either register, each once, in swarm order -/
example : genSharedInvolvedWorkers [2] [0, 2] [[0, 1], [2, 3]] = [0, 2] ∧
    genSharedInvolvedWorkers [] [] [[0, 1], [2, 3]] = [] ∧
    genSharedInvolvedWorkers [1] [] [[0], [], [1]] = [1] := by decide

/-- **The hand written `sharedResults` is the Python source of `shared_results`**: the node's own results followed by
those of its bridged copies in order, for every graph, state and node.  `self.bridged_nodes` = the other copies of the
class (`(g.copies n).tail`; none for a flat node).  No hypotheses. -/
theorem sharedResults_matches_source (g : Graph) (s : State) (n : Nat) :
    sharedResults g s n = genSharedResults (s.nd n).results (g.copies n).tail (fun m => (s.nd m).results) := by
  rw [I2N.GenShared.genSharedResults_eq, sharedResults]
  conv => lhs; rw [I2N.GenShared.copies_cons g n]
  rw [List.flatMap_cons]

/-- the generated definition computes: own results first, then copy by copy -/
example :
    genSharedResults [{ name := "a", status := "PASS", uid := "1" }] [4, 7]
      (fun m => if m == 7 then [{ name := "b", status := "FAIL", uid := "2" }] else []) =
      [{ name := "a", status := "PASS", uid := "1" }, { name := "b", status := "FAIL", uid := "2" }] := by decide

end I2N.Props.C05
