import I2N.Lemmas.Trav
import I2N.Model.TravMon
/-!
# C05 — States are removed only after every dependant finished, and only if asked
-/
namespace I2N.Props.C05
open I2N.Trav

/-- the request a reversal sends to the state control (if any): its action and its state list -/
def syncRequest (g : Graph) (s : State) (n w : Nat) (rv : Option (List String)) : Option (String × List (String × String)) :=
  match (syncStates g s n w rv).2 with
  | [Event.door _ a reqs _ _] => some (a, reqs)
  | _ => none

/-- invariant of the loop of `sync_states`: every state queued for removal is marked `f.`; states are
queued for a copy only when the pool filter is neither `reuse` nor `block`; the action names what was queued -/
def AccOk (nd : Node) (acc : SyncAcc) : Prop :=
  (∀ vs ∈ acc.2.2.1, (unsetModeOf nd vs.1).toList.head? = some 'f') ∧
  (acc.2.2.2.1 ≠ [] → ¬ (nd.poolFilter = "reuse" ∨ nd.poolFilter = "block")) ∧
  (acc.2.1 = "unset" → acc.2.2.1 ≠ []) ∧ (acc.2.1 = "get" → acc.2.2.2.1 ≠ []) ∧
  (acc.1 = true → acc.2.1 = "unset" ∨ acc.2.1 = "get") ∧
  (∀ vs ∈ acc.2.2.1, vs ∈ nd.sets)

theorem accOk_step (nd : Node) (rv : Option (List String)) (acc : SyncAcc) (vs : String × String)
    (hvs : vs ∈ nd.sets) (h : AccOk nd acc) : AccOk nd (syncStep nd rv acc vs) := by
  obtain ⟨h1, h2, h3, h4, h5, h6⟩ := h
  unfold syncStep
  dsimp only
  generalize vmSelected rv vs.1 = sel
  by_cases c1 : acc.2.2.2.2 = true
  · rw [if_pos c1]; exact ⟨h1, h2, h3, h4, h5, h6⟩
  rw [if_neg c1]
  by_cases c2 : ((unsetModeOf nd vs.1).toList.head? != some 'f' && (unsetModeOf nd vs.1).toList.head? != some 'r') = true
  · rw [if_pos c2]; exact ⟨h1, h2, h3, h4, h5, h6⟩
  rw [if_neg c2]
  by_cases c3 : (!sel) = true
  · rw [if_pos c3]; exact ⟨h1, h2, h3, h4, h5, h6⟩
  rw [if_neg c3]
  by_cases c4 : ((unsetModeOf nd vs.1).toList.head? == some 'f') = true
  · rw [if_pos c4]
    refine ⟨?_, h2, by simp, by simp, by simp, ?_⟩
    · intro x hx
      simp only [List.mem_append, List.mem_singleton] at hx
      rcases hx with hx | hx
      · exact h1 x hx
      · subst hx; simpa using c4
    · intro x hx
      simp only [List.mem_append, List.mem_singleton] at hx
      rcases hx with hx | hx
      · exact h6 x hx
      · subst hx; exact hvs
  rw [if_neg c4]
  by_cases c5 : (nd.poolFilter == "reuse" || nd.poolFilter == "block") = true
  · rw [if_pos c5]; exact ⟨h1, h2, h3, h4, by simp, h6⟩
  rw [if_neg c5]
  refine ⟨h1, ?_, by simp, by simp, by simp, h6⟩
  intro _
  simpa using c5

theorem accOk_syncAcc (nd : Node) (rv : Option (List String)) : AccOk nd (syncAcc nd rv) := by
  unfold syncAcc
  have : ∀ (l : List (String × String)) acc, (∀ x ∈ l, x ∈ nd.sets) → AccOk nd acc →
      AccOk nd (l.foldl (syncStep nd rv) acc) := by
    intro l
    induction l with
    | nil => intro acc _ h; exact h
    | cons a r ih =>
      intro acc hl h
      exact ih _ (fun x hx => hl x (by simp [hx])) (accOk_step nd rv acc a (hl a (by simp)) h)
  exact this _ _ (fun _ h => h) ⟨by simp, by simp, by simp, by simp, by simp, by simp⟩

/-- Only states marked for removal (`unset_mode` starting with `f`) are ever removed, and with the
default pool filter (`reuse`, also `block`) no state is copied while backing out: whatever
`sync_states` requests is either an `unset` of marked states of this node, or a `get` under
`pool_filter=copy`. -/
theorem sync_request_sound (g : Graph) (s : State) (n w : Nat) (rv : Option (List String)) (a : String)
    (reqs : List (String × String)) (h : syncRequest g s n w rv = some (a, reqs)) :
    (a = "unset" ∧ reqs ≠ [] ∧ ∀ vs ∈ reqs, vs ∈ (g.node n).sets ∧ (unsetModeOf (g.node n) vs.1).toList.head? = some 'f') ∨
    (a = "get" ∧ reqs ≠ [] ∧ ¬ ((g.node n).poolFilter = "reuse" ∨ (g.node n).poolFilter = "block")) := by
  obtain ⟨h1, h2, h3, h4, h5, h6⟩ := accOk_syncAcc (g.node n) rv
  unfold syncRequest syncStates at h
  dsimp only at h
  by_cases hc : (syncAcc (g.node n) rv).1 = true
  · simp only [hc, Bool.not_true, Bool.false_eq_true, if_false] at h
    by_cases ha : (syncAcc (g.node n) rv).2.1 = "unset"
    · simp only [ha, beq_self_eq_true, if_true, Option.some.injEq, Prod.mk.injEq] at h
      left
      rw [← h.1, ← h.2]
      exact ⟨rfl, h3 ha, fun vs hvs => ⟨h6 vs hvs, h1 vs hvs⟩⟩
    · have hne : ((syncAcc (g.node n) rv).2.1 == "unset") = false := by simpa using ha
      simp only [hne, Bool.false_eq_true, if_false, Option.some.injEq, Prod.mk.injEq] at h
      right
      rcases h5 hc with h5 | h5
      · exact absurd h5 ha
      · rw [← h.1, ← h.2]
        exact ⟨rfl, h4 h5, h2 (h4 h5)⟩
  · have : (syncAcc (g.node n) rv).1 = false := by simpa using hc
    simp [this] at h

/-- States not marked for removal are never removed by a run: if no object of the node is marked `f.`
the reversal sends no `unset` at all. -/
theorem reuse_states_never_unset (g : Graph) (s : State) (n w : Nat) (rv : Option (List String))
    (hno : ∀ vs ∈ (g.node n).sets, (unsetModeOf (g.node n) vs.1).toList.head? ≠ some 'f') (reqs : List (String × String)) :
    syncRequest g s n w rv ≠ some ("unset", reqs) := by
  intro h
  rcases sync_request_sound g s n w rv _ _ h with ⟨_, hne, hall⟩ | ⟨ha, _⟩
  · obtain ⟨x, hx⟩ := List.exists_mem_of_ne_nil _ hne
    exact hno x (hall x hx).1 (hall x hx).2
  · simp at ha

/-- With the default pool filter nothing is copied while backing out. -/
theorem default_filter_no_copy (g : Graph) (s : State) (n w : Nat) (rv : Option (List String))
    (hf : (g.node n).poolFilter = "reuse" ∨ (g.node n).poolFilter = "block") (reqs : List (String × String)) :
    syncRequest g s n w rv ≠ some ("get", reqs) := by
  intro h
  rcases sync_request_sound g s n w rv _ _ h with ⟨ha, _⟩ | ⟨_, _, hnf⟩
  · simp at ha
  · exact hnf hf

/-- "The last worker closes the door": a reversible node (some object marked `f.`) is cleaned only
when, for every involved worker of the cleaning worker's swarm (every involved worker for
`localhost`), that worker's copy of the node is cleanup-ready — all its dependants were dropped, i.e.
finished or skipped for that worker — and carries no pending (`UNKNOWN`) result, and all involved
workers have finished the node. -/
theorem clean_requires_all_ready (g : Graph) (s : State) (n w : Nat) (hrev : isReversible (g.node n) = true)
    (h : cleanDecision g s n w = .ok true) :
    isFinished g s n w (-1) = true ∧
    ∀ v ∈ involved g s n, ((g.worker w).swarm == "localhost" || strIn (g.worker w).swarm (g.worker v).id) = true →
      ∃ m, (if g.idIn v n then some n else (g.copies n).tail.find? (fun m => g.idIn v m)) = some m ∧
        isCleanupReady g s m v = true ∧ (s.nd m).results.all (fun r => lower r.status != "unknown") = true := by
  unfold cleanDecision at h
  dsimp only at h
  by_cases h1 : (g.node n).dryRun = true
  · simp [h1] at h
  by_cases h2 : (g.node n).flat = true
  · simp [h1, h2] at h
  by_cases h3 : (g.node n).cloneSource = true
  · simp [h1, h2, h3] at h
  by_cases h4 : g.idIn w n = true
  · simp only [h1, h2, h3, h4, hrev, Bool.false_eq_true, if_false, Bool.not_true, Bool.not_false, if_true] at h
    split at h
    · simp at h
    · split at h
      · simp at h
      · rename_i hany hall
        simp only [Except.ok.injEq] at h
        refine ⟨h, ?_⟩
        intro v hv hsw
        have hvin : v ∈ (involved g s n).filter (fun v =>
            (g.worker w).swarm == "localhost" || strIn (g.worker w).swarm (g.worker v).id) :=
          List.mem_filter.2 ⟨hv, hsw⟩
        simp only [Bool.not_eq_true, Bool.not_eq_false'] at hall
        rw [List.all_eq_true] at hall
        have := hall v hvin
        split at this
        · simp at this
        · rename_i m hm
          simp only [Bool.and_eq_true, Bool.not_eq_true'] at this
          refine ⟨m, hm, this.1, ?_⟩
          rw [List.all_eq_true]
          intro r hr
          have h2' := this.2
          rw [List.any_eq_false] at h2'
          have := h2' r hr
          simpa using this
  · have : g.idIn w n = false := by simpa using h4
    simp [h1, h2, h3, this] at h

/-- flat, cloned and dry nodes are never reversed -/
theorem never_clean_flat_or_clone_source (g : Graph) (s : State) (n w : Nat)
    (h : (g.node n).flat = true ∨ (g.node n).cloneSource = true ∨ (g.node n).dryRun = true) :
    cleanDecision g s n w = .ok false := by
  unfold cleanDecision
  rcases h with h | h | h
  · by_cases b : (g.node n).dryRun = true <;> simp [b, h]
  · by_cases b : (g.node n).dryRun = true <;> by_cases c : (g.node n).flat = true <;> simp [b, c, h]
  · simp [h]

end I2N.Props.C05
