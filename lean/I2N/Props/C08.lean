import I2N.Lemmas.Trav
import I2N.Lemmas.TravLoc
import I2N.Lemmas.TravProgress
import I2N.Model.TravMon
/-!
# C08 — Tests run only on their own worker and are told where their setup lives
-/
namespace I2N.Props.C08
open I2N.Trav

/-- A worker never runs, re-runs or cleans a composite test that was not parsed for it: when its id
is not part of the test's name the decisions raise (`RuntimeError`) instead of answering. -/
theorem foreign_worker_rejected (g : Graph) (s : State) (n w : Nat)
    (hroot : (g.node n).sharedRoot = false) (hdry : (g.node n).dryRun = false) (hflat : (g.node n).flat = false)
    (hclone : (g.node n).cloneSource = false) (hid : g.idIn w n = false) :
    runDecision g s n w = .error "RuntimeError" ∧ cleanDecision g s n w = .error "RuntimeError" ∧
    ((s.nd n).rerunDisabled = false → shouldRerun g s n w = .error "RuntimeError") := by
  refine ⟨?_, ?_, ?_⟩
  · unfold runDecision; simp [hroot, hdry, hflat, hclone, hid]
  · unfold cleanDecision; simp [hdry, hflat, hclone, hid]
  · intro hr; unfold shouldRerun; simp [hr, hdry, hflat, hclone, hid]

/-- Whatever a worker picks next — parent or child — is one of its own copies (its id is in the name)
or a flat node. -/
theorem picks_are_own_or_flat (g : Graph) (s : State) (n w c : Nat) (s' : State) :
    (pickChild g s n w = some (c, s') → relevant g w c = true ∧ c ∈ (g.node n).cleanup.map (·.1)) ∧
    (pickParent g s n w = some (c, s') → relevant g w c = true ∧ c ∈ (g.node n).setup.map (·.1)) := by
  have mem_insertBy : ∀ (le : Nat → Nat → Bool) (a x : Nat) (l : List Nat), x ∈ insertBy le a l → x = a ∨ x ∈ l := by
    intro le a x l
    induction l with
    | nil => simp [insertBy]
    | cons b r ih =>
      simp only [insertBy]
      split
      · simp
      · simp only [List.mem_cons]
        rintro (h | h)
        · exact Or.inr (Or.inl h)
        · rcases ih h with h | h
          · exact Or.inl h
          · exact Or.inr (Or.inr h)
  have mem_sort : ∀ (le : Nat → Nat → Bool) (x : Nat) (l : List Nat), x ∈ stableSort le l → x ∈ l := by
    intro le x l
    induction l with
    | nil => simp [stableSort]
    | cons a r ih =>
      simp only [stableSort, List.foldr_cons] at ih ⊢
      intro h
      rcases mem_insertBy le a x _ h with h | h
      · simp [h]
      · exact List.mem_cons_of_mem _ (ih h)
  constructor
  · intro h
    unfold pickChild at h
    dsimp only at h
    split at h
    · simp at h
    · rename_i d r hs
      simp only [Option.some.injEq, Prod.mk.injEq] at h
      have hd := mem_sort _ d _ (by rw [hs]; simp)
      rw [List.mem_filter] at hd
      have h2 := hd.2
      simp only [Bool.and_eq_true] at h2
      rw [← h.1]; exact ⟨h2.1, hd.1⟩
  · intro h
    unfold pickParent at h
    dsimp only at h
    split at h
    · simp at h
    · rename_i d r hs
      simp only [Option.some.injEq, Prod.mk.injEq] at h
      have hd := mem_sort _ d _ (by rw [hs]; simp)
      rw [List.mem_filter] at hd
      have h2 := hd.2
      simp only [Bool.and_eq_true] at h2
      rw [← h.1]; exact ⟨h2.1, hd.1⟩

/-- The workers named as setup sources are exactly those with a passing result of the producing
class: `v` is listed for parent `p` iff some shared result of `p` has status PASS and `v` is the first
worker (in swarm order) whose id occurs in that result's name. -/
theorem named_sources_are_passers (g : Graph) (s : State) (p v : Nat) :
    v ∈ sharedResultWorkerIds g s p ↔
      ∃ r ∈ sharedResults g s p, r.status = "PASS" ∧
        (List.range g.workers.length).find? (fun w => strIn (g.worker w).id r.name) = some v := by
  unfold sharedResultWorkerIds
  have mem_dedup : ∀ (l : List Nat) (a : Nat), a ∈ dedupNat l ↔ a ∈ l := by
    intro l a
    induction l with
    | nil => simp [dedupNat]
    | cons b l ih =>
      simp only [dedupNat]
      split
      · rename_i h
        have : b ∈ l := by simpa using h
        rw [ih]; simp only [List.mem_cons]
        constructor
        · exact Or.inr
        · rintro (rfl | h') <;> assumption
      · simp [ih]
  rw [mem_dedup, List.mem_filterMap]
  constructor
  · rintro ⟨r, hr, h⟩
    by_cases hp : r.status = "PASS"
    · simp only [hp, bne_self_eq_false, Bool.false_eq_true, if_false] at h
      exact ⟨r, hr, hp, h⟩
    · have : (r.status != "PASS") = true := by simpa using hp
      simp [this] at h
  · rintro ⟨r, hr, hp, h⟩
    refine ⟨r, hr, ?_⟩
    simp [hp, h]

/-! ## the locations a test is told (`pull_locations`) -/

/-- Completeness of `pull_locations`.  After `pullLocations g s n` of a parsed copy `n`, for every setup edge
`(p, vms)` of `n`, every object `vm` of the edge and every location of the parent — the shared pool and the pool of
every worker with a passing result of `p`'s class — the entry `get_location_<vm>` of `n` exists and contains the
location (`strIn loc str`: Python's `loc in str`, the very test the code uses to avoid duplicates).
`hn` says the copy has a dynamic record (true in every state the traversal reaches). -/
theorem locations_complete (g : Graph) (s : State) (n : Nat) (hflat : (g.node n).flat = false)
    (hn : n < s.nodes.length) (p : Nat) (vms : List String) (he : (p, vms) ∈ (g.node n).setup)
    (vm : String) (hvm : vm ∈ vms)
    (loc : String) (hloc : loc ∈ sharedLoc :: (sharedResultWorkerIds g s p).map (workerLoc g)) :
    ∃ str, locOf ((pullLocations g s n).nd n).getLoc vm = some str ∧ strIn loc str = true :=
  pullLocations_complete g s n hflat hn p vms he vm hvm loc hloc

/-- Soundness of `pull_locations` (token form; no hypothesis on the worker ids needed).  Starting from no entries,
the entry of `vm` is `joinLocs L` — the locations of `L` joined by single blanks in this order — for a non-empty
list `L` each member of which is a location of a setup edge through `vm`: nothing else is ever listed.

Partial: what is NOT true without a separation hypothesis on the worker ids is the converse in the token sense —
a location may be missing from `L` because it is a substring of a location already listed (the duplicate test of
the code is a substring test): see `location_swallowed_by_substring` below.  `locations_complete` gives the converse
in the substring sense only. -/
theorem locations_sound_partial (g : Graph) (s : State) (n : Nat) (hflat : (g.node n).flat = false)
    (hn : n < s.nodes.length) (hempty : (s.nd n).getLoc = []) (vm str : String)
    (h : locOf ((pullLocations g s n).nd n).getLoc vm = some str) :
    ∃ L : List String, L ≠ [] ∧ str = joinLocs L ∧
      ∀ l ∈ L, ∃ p vms, (p, vms) ∈ (g.node n).setup ∧ vm ∈ vms ∧
        l ∈ sharedLoc :: (sharedResultWorkerIds g s p).map (workerLoc g) :=
  pullLocations_sound g s n hflat hn hempty vm str h

/-- two workers, one id a suffix of the other (what `nets=net1` over two clusters produces, finding F4); the parent
`p = 0` has a passing result of either worker, the child `n = 1` depends on it through `vm1` -/
def gSub : Graph :=
  { workers := [{ id := "cluster1.net1", swarm := "cluster1" }, { id := "net1", swarm := "localhost" }],
    nodes := [{ cls := 0, owner := some 0, name := "p.cluster1.net1", pfx := "1", cleanup := [(1, ["vm1"])] },
              { cls := 1, owner := some 1, name := "n.net1", pfx := "2", setup := [(0, ["vm1"])] }],
    root := 0 }

def sSub : State :=
  { nodes := [{ results := [{ name := "p.cluster1.net1", status := "PASS", uid := "1" },
                            { name := "p.net1", status := "PASS", uid := "1r1" }] }, {}],
    regs := [{}, {}], workers := [{}, {}], store := [] }

/-- non-vacuity of `locations_complete` / `locations_sound_partial`, and the witness of what the substring test
loses: both workers passed the parent, but the entry lists only the shared pool and `cluster1.net1`'s pool —
`net1:/pool/swarm` is "already there" as a substring of `cluster1.net1:/pool/swarm`. -/
theorem location_swallowed_by_substring :
    sharedResultWorkerIds gSub sSub 0 = [0, 1] ∧
    locOf ((pullLocations gSub sSub 1).nd 1).getLoc "vm1" = some ":/pool/shared cluster1.net1:/pool/swarm" ∧
    joinLocs [sharedLoc, workerLoc gSub 0] = ":/pool/shared cluster1.net1:/pool/swarm" ∧
    strIn (workerLoc gSub 1) ":/pool/shared cluster1.net1:/pool/swarm" = true := by decide

example : ∃ str, locOf ((pullLocations gSub sSub 1).nd 1).getLoc "vm1" = some str ∧ strIn (workerLoc gSub 1) str = true :=
  locations_complete gSub sSub 1 rfl (by decide) 0 ["vm1"] (by decide) "vm1" (by decide) _ (by decide)

example := locations_sound_partial gSub sSub 1 rfl (by decide) rfl "vm1" _ location_swallowed_by_substring.2.1

/-! ## ownership as a reachable-state invariant

`ReachableF` (Lemmas/TravProgress.lean): initial state, then any sequence of `resume` steps of real workers with any
outcomes and positive fuel (`ReachableF.reachable`: such a state is `Reachable` in the sense of C04).
`EdgeSym g`: every edge is recorded at both ends (`edgeSymB g = true` is the decidable form). -/

/-- Every node on a worker's path after the root is relevant to the worker: flat, or a copy whose name contains the
worker's id. -/
theorem path_owned (g : Graph) (hsym : EdgeSym g) (ncls : Nat) (store : List (String × List (String × String)))
    (s : State) (h : ReachableF g ncls store s) (w : Nat) (hw : w < s.workers.length) :
    ∀ x ∈ (s.wd w).path.tail, relevant g w x = true := by
  rcases (h.pinv hsym).path w hw with h' | h'
  · rw [h'.1]; intro x hx; simp at hx
  · exact h'.tail

/-- `runs_on_owner`, state form.  In every reachable state: a copy marked as started by `w` is relevant to `w`; the
copy `n` a worker is executing (its pc is `.test n …`: inside the test or its result wait) has the worker's id in
its name and is the last node of the worker's path; and under `OwnerNames` it was parsed for this worker. -/
theorem runs_on_owner (g : Graph) (hsym : EdgeSym g) (ncls : Nat) (store : List (String × List (String × String)))
    (s : State) (h : ReachableF g ncls store s) (n w : Nat) :
    ((s.nd n).started = some w → relevant g w n = true) ∧
    ((s.wd w).pc.node? = some n → g.idIn w n = true ∧ (s.wd w).path.getLast? = some n) :=
  ⟨(h.pinv hsym).markRel n w, fun hp => ⟨((h.pinv hsym).testOwn w n hp).1, ((h.pinv hsym).testOwn w n hp).2.1⟩⟩

/-- the names identify the owner: a parsed copy carries the id of worker `w` in its name iff it was parsed for `w`
(what fails for ambiguous ids like `net1` / `cluster1.net1`, finding F4) -/
def OwnerNames (g : Graph) : Prop :=
  ∀ w n, (g.node n).flat = false → (g.idIn w n = true ↔ (g.node n).owner = some w)

/-- `runs_on_owner`, event form.  Whenever a step of worker `w` from a reachable state emits a start event, the event
carries `w`'s id and the class of a node `n` with `g.idIn w n` (the run decision raises otherwise:
`foreign_worker_rejected`); under `OwnerNames` a parsed such `n` has `owner n = some w`. -/
theorem runs_on_owner_events (g : Graph) (hsym : EdgeSym g) (ncls : Nat) (store : List (String × List (String × String)))
    (s : State) (h : ReachableF g ncls store s) (w : Nat) (out : Outcome) (fuel : Nat)
    (wid cls uid : String) (locs : List (String × String)) (unk : Nat)
    (he : Event.start wid cls uid locs unk ∈ (resume g s w out fuel).2) :
    wid = (g.worker w).id ∧ ∃ n ph, cls = clsName g n ph ∧ g.idIn w n = true ∧
      (OwnerNames g → (g.node n).flat = false → (g.node n).owner = some w) := by
  obtain ⟨h1, n, ph, h2, h3⟩ := resume_starts g hsym s w out fuel (h.pinv hsym) _ he
  exact ⟨h1, n, ph, h2, h3, fun ho hf => (ho w n hf).mp h3⟩

/-- non-vacuity: the two-node graph above is edge-symmetric, its first worker's first step from the initial state is
a reachable state, and that step emits no start event for a foreign copy -/
example : EdgeSym gSub := edgeSymB_sound (by decide)
example : ReachableF gSub 2 [] (resume gSub (initState gSub 2 []) 0 ⟨none, 0⟩ 5).1 :=
  .step _ 0 ⟨none, 0⟩ 5 (.init []) (by decide) (by decide)
example := path_owned gSub (edgeSymB_sound (by decide)) 2 [] _
  (.step _ 0 ⟨none, 0⟩ 5 (.init []) (by decide) (by decide)) 0

end I2N.Props.C08
