import I2N.Lemmas.Trav
import I2N.Lemmas.TravLoc
import I2N.Lemmas.TravProgress
import I2N.Lemmas.TravLocExact
import I2N.Model.TravMon
import I2N.Lemmas.GenLoc
/-!
# C08 — Tests run only on their own worker and are told where their setup lives
-/
namespace I2N.Props.C08
open I2N.Trav

/-- A worker never runs, re-runs or cleans a composite test that was not parsed for it: when its id
is not part of the test's name the decisions raise (`RuntimeError`) instead of answering. -/
theorem foreign_worker_rejected (g : Graph) (s : State) (n w : Nat)
    (hroot : (g.node n).sharedRoot = false) (hdry : (g.node n).dryRun = false) (hflat : (g.node n).flat = false)
    (hclone : (g.node n).cloneSource = false) (hid : g.idIn w n = false) :
    runDecision g s n w = .error "RuntimeError" ∧ cleanDecision g s n w = .error "RuntimeError" ∧
    ((s.nd n).rerunDisabled = false → shouldRerun g s n w = .error "RuntimeError") := by
  refine ⟨?_, ?_, ?_⟩
  · unfold runDecision; simp [hroot, hdry, hflat, hclone, hid]
  · unfold cleanDecision; simp [hdry, hflat, hclone, hid]
  · intro hr; unfold shouldRerun; simp [hr, hdry, hflat, hclone, hid]

/-- Whatever a worker picks next — parent or child — is one of its own copies (its id is in the name)
or a flat node. -/
theorem picks_are_own_or_flat (g : Graph) (s : State) (n w c : Nat) (s' : State) :
    (pickChild g s n w = some (c, s') → relevant g w c = true ∧ c ∈ (g.node n).cleanup.map (·.1)) ∧
    (pickParent g s n w = some (c, s') → relevant g w c = true ∧ c ∈ (g.node n).setup.map (·.1)) := by
  have mem_insertBy : ∀ (le : Nat → Nat → Bool) (a x : Nat) (l : List Nat), x ∈ insertBy le a l → x = a ∨ x ∈ l := by
    intro le a x l
    induction l with
    | nil => simp [insertBy]
    | cons b r ih =>
      simp only [insertBy]
      split
      · simp
      · simp only [List.mem_cons]
        rintro (h | h)
        · exact Or.inr (Or.inl h)
        · rcases ih h with h | h
          · exact Or.inl h
          · exact Or.inr (Or.inr h)
  have mem_sort : ∀ (le : Nat → Nat → Bool) (x : Nat) (l : List Nat), x ∈ stableSort le l → x ∈ l := by
    intro le x l
    induction l with
    | nil => simp [stableSort]
    | cons a r ih =>
      simp only [stableSort, List.foldr_cons] at ih ⊢
      intro h
      rcases mem_insertBy le a x _ h with h | h
      · simp [h]
      · exact List.mem_cons_of_mem _ (ih h)
  constructor
  · intro h
    unfold pickChild at h
    dsimp only at h
    split at h
    · simp at h
    · rename_i d r hs
      simp only [Option.some.injEq, Prod.mk.injEq] at h
      have hd := mem_sort _ d _ (by rw [hs]; simp)
      rw [List.mem_filter] at hd
      have h2 := hd.2
      simp only [Bool.and_eq_true] at h2
      rw [← h.1]; exact ⟨h2.1, hd.1⟩
  · intro h
    unfold pickParent at h
    dsimp only at h
    split at h
    · simp at h
    · rename_i d r hs
      simp only [Option.some.injEq, Prod.mk.injEq] at h
      have hd := mem_sort _ d _ (by rw [hs]; simp)
      rw [List.mem_filter] at hd
      have h2 := hd.2
      simp only [Bool.and_eq_true] at h2
      rw [← h.1]; exact ⟨h2.1, hd.1⟩

/-- The workers named as setup sources are exactly those with a passing result of the producing
class: `v` is listed for parent `p` iff some shared result of `p` has status PASS and `v` is the first
worker (in swarm order) whose id occurs in that result's name. -/
theorem named_sources_are_passers (g : Graph) (s : State) (p v : Nat) :
    v ∈ sharedResultWorkerIds g s p ↔
      ∃ r ∈ sharedResults g s p, r.status = "PASS" ∧
        (List.range g.workers.length).find? (fun w => strIn (g.worker w).id r.name) = some v := by
  unfold sharedResultWorkerIds
  have mem_dedup : ∀ (l : List Nat) (a : Nat), a ∈ dedupNat l ↔ a ∈ l := by
    intro l a
    induction l with
    | nil => simp [dedupNat]
    | cons b l ih =>
      simp only [dedupNat]
      split
      · rename_i h
        have : b ∈ l := by simpa using h
        rw [ih]; simp only [List.mem_cons]
        constructor
        · exact Or.inr
        · rintro (rfl | h') <;> assumption
      · simp [ih]
  rw [mem_dedup, List.mem_filterMap]
  constructor
  · rintro ⟨r, hr, h⟩
    by_cases hp : r.status = "PASS"
    · simp only [hp, bne_self_eq_false, Bool.false_eq_true, if_false] at h
      exact ⟨r, hr, hp, h⟩
    · have : (r.status != "PASS") = true := by simpa using hp
      simp [this] at h
  · rintro ⟨r, hr, hp, h⟩
    refine ⟨r, hr, ?_⟩
    simp [hp, h]

/-! ## the locations a test is told (`pull_locations`) -/

/-- Completeness of `pull_locations`.  After `pullLocations g s n` of a parsed copy `n`, for every setup edge
`(p, vms)` of `n`, every object `vm` of the edge and every location of the parent — the shared pool and the pool of
every worker with a passing result of `p`'s class — the entry `get_location_<vm>` of `n` exists and contains the
location (`strIn loc str`: Python's `loc in str`, the very test the code uses to avoid duplicates).
`hn` says the copy has a dynamic record (true in every state the traversal reaches). -/
theorem locations_complete (g : Graph) (s : State) (n : Nat) (hflat : (g.node n).flat = false)
    (hn : n < s.nodes.length) (p : Nat) (vms : List String) (he : (p, vms) ∈ (g.node n).setup)
    (vm : String) (hvm : vm ∈ vms)
    (loc : String) (hloc : loc ∈ sharedLoc :: (sharedResultWorkerIds g s p).map (workerLoc g)) :
    ∃ str, locOf ((pullLocations g s n).nd n).getLoc vm = some str ∧ strIn loc str = true :=
  pullLocations_complete g s n hflat hn p vms he vm hvm loc hloc

/-- Soundness of `pull_locations` (token form; no hypothesis on the worker ids needed).  Starting from no entries,
the entry of `vm` is `joinLocs L` — the locations of `L` joined by single blanks in this order — for a non-empty
list `L` each member of which is a location of a setup edge through `vm`: nothing else is ever listed.

Partial: what is NOT true without a separation hypothesis on the worker ids is the converse in the token sense —
a location may be missing from `L` because it is a substring of a location already listed (the duplicate test of
the code is a substring test): see `location_swallowed_by_substring` below.  `locations_complete` gives the converse
in the substring sense only. -/
theorem locations_sound_partial (g : Graph) (s : State) (n : Nat) (hflat : (g.node n).flat = false)
    (hn : n < s.nodes.length) (hempty : (s.nd n).getLoc = []) (vm str : String)
    (h : locOf ((pullLocations g s n).nd n).getLoc vm = some str) :
    ∃ L : List String, L ≠ [] ∧ str = joinLocs L ∧
      ∀ l ∈ L, ∃ p vms, (p, vms) ∈ (g.node n).setup ∧ vm ∈ vms ∧
        l ∈ sharedLoc :: (sharedResultWorkerIds g s p).map (workerLoc g) :=
  pullLocations_sound g s n hflat hn hempty vm str h

/-- two workers, one id a suffix of the other (what `nets=net1` over two clusters produces, finding F4); the parent
`p = 0` has a passing result of either worker, the child `n = 1` depends on it through `vm1` -/
def gSub : Graph :=
  { workers := [{ id := "cluster1.net1", swarm := "cluster1" }, { id := "net1", swarm := "localhost" }],
    nodes := [{ cls := 0, owner := some 0, name := "p.cluster1.net1", pfx := "1", cleanup := [(1, ["vm1"])] },
              { cls := 1, owner := some 1, name := "n.net1", pfx := "2", setup := [(0, ["vm1"])] }],
    root := 0 }

def sSub : State :=
  { nodes := [{ results := [{ name := "p.cluster1.net1", status := "PASS", uid := "1" },
                            { name := "p.net1", status := "PASS", uid := "1r1" }] }, {}],
    regs := [{}, {}], workers := [{}, {}], store := [] }

/-- non-vacuity of `locations_complete` / `locations_sound_partial`, and the witness of what the substring test
loses: both workers passed the parent, but the entry lists only the shared pool and `cluster1.net1`'s pool —
`net1:/pool/swarm` is "already there" as a substring of `cluster1.net1:/pool/swarm`. -/
theorem location_swallowed_by_substring :
    sharedResultWorkerIds gSub sSub 0 = [0, 1] ∧
    locOf ((pullLocations gSub sSub 1).nd 1).getLoc "vm1" = some ":/pool/shared cluster1.net1:/pool/swarm" ∧
    joinLocs [sharedLoc, workerLoc gSub 0] = ":/pool/shared cluster1.net1:/pool/swarm" ∧
    strIn (workerLoc gSub 1) ":/pool/shared cluster1.net1:/pool/swarm" = true := by decide

example : ∃ str, locOf ((pullLocations gSub sSub 1).nd 1).getLoc "vm1" = some str ∧ strIn (workerLoc gSub 1) str = true :=
  locations_complete gSub sSub 1 rfl (by decide) 0 ["vm1"] (by decide) "vm1" (by decide) _ (by decide)

example := locations_sound_partial gSub sSub 1 rfl (by decide) rfl "vm1" _ location_swallowed_by_substring.2.1

/-! ## ownership as a reachable-state invariant

`ReachableF` (Lemmas/TravProgress.lean): initial state, then any sequence of `resume` steps of real workers with any
outcomes and positive fuel (`ReachableF.reachable`: such a state is `Reachable` in the sense of C04).
`EdgeSym g`: every edge is recorded at both ends (`edgeSymB g = true` is the decidable form). -/

/-- Every node on a worker's path after the root is relevant to the worker: flat, or a copy whose name contains the
worker's id. -/
theorem path_owned (g : Graph) (hsym : EdgeSym g) (ncls : Nat) (store : List (String × List (String × String)))
    (s : State) (h : ReachableF g ncls store s) (w : Nat) (hw : w < s.workers.length) :
    ∀ x ∈ (s.wd w).path.tail, relevant g w x = true := by
  rcases (h.pinv hsym).path w hw with h' | h'
  · rw [h'.1]; intro x hx; simp at hx
  · exact h'.tail

/-- `runs_on_owner`, state form.  In every reachable state: a copy marked as started by `w` is relevant to `w`; the
copy `n` a worker is executing (its pc is `.test n …`: inside the test or its result wait) has the worker's id in
its name and is the last node of the worker's path; and under `OwnerNames` it was parsed for this worker. -/
theorem runs_on_owner (g : Graph) (hsym : EdgeSym g) (ncls : Nat) (store : List (String × List (String × String)))
    (s : State) (h : ReachableF g ncls store s) (n w : Nat) :
    ((s.nd n).started = some w → relevant g w n = true) ∧
    ((s.wd w).pc.node? = some n → g.idIn w n = true ∧ (s.wd w).path.getLast? = some n) :=
  ⟨(h.pinv hsym).markRel n w, fun hp => ⟨((h.pinv hsym).testOwn w n hp).1, ((h.pinv hsym).testOwn w n hp).2.1⟩⟩

/-- the names identify the owner: a parsed copy carries the id of worker `w` in its name iff it was parsed for `w`
(what fails for ambiguous ids like `net1` / `cluster1.net1`, finding F4) -/
def OwnerNames (g : Graph) : Prop :=
  ∀ w n, (g.node n).flat = false → (g.idIn w n = true ↔ (g.node n).owner = some w)

/-- `runs_on_owner`, event form.  Whenever a step of worker `w` from a reachable state emits a start event, the event
carries `w`'s id and the class of a node `n` with `g.idIn w n` (the run decision raises otherwise:
`foreign_worker_rejected`); under `OwnerNames` a parsed such `n` has `owner n = some w`. -/
theorem runs_on_owner_events (g : Graph) (hsym : EdgeSym g) (ncls : Nat) (store : List (String × List (String × String)))
    (s : State) (h : ReachableF g ncls store s) (w : Nat) (out : Outcome) (fuel : Nat)
    (wid cls uid : String) (locs : List (String × String)) (unk : Nat)
    (he : Event.start wid cls uid locs unk ∈ (resume g s w out fuel).2) :
    wid = (g.worker w).id ∧ ∃ n ph, cls = clsName g n ph ∧ g.idIn w n = true ∧
      (OwnerNames g → (g.node n).flat = false → (g.node n).owner = some w) := by
  obtain ⟨h1, n, ph, h2, h3⟩ := resume_starts g hsym s w out fuel (h.pinv hsym) _ he
  exact ⟨h1, n, ph, h2, h3, fun ho hf => (ho w n hf).mp h3⟩

/-- non-vacuity: the two-node graph above is edge-symmetric, its first worker's first step from the initial state is
a reachable state, and that step emits no start event for a foreign copy -/
example : EdgeSym gSub := edgeSymB_sound (by decide)
example : ReachableF gSub 2 [] (resume gSub (initState gSub 2 []) 0 ⟨none, 0⟩ 5).1 :=
  .step _ 0 ⟨none, 0⟩ 5 (.init []) (by decide) (by decide)
example := path_owned gSub (edgeSymB_sound (by decide)) 2 [] _
  (.step _ 0 ⟨none, 0⟩ 5 (.init []) (by decide) (by decide)) 0

/-! ## the exact form of the location theorem (`Lemmas/TravLocExact.lean`)

`LocsSeparated g` (decidable): every location string — `sharedLoc` and `workerLoc g v` for every worker `v` — is
blank-free, and none of them is a substring of another one's (in particular distinct workers have distinct strings).
`passersThrough g s n vm`: the workers with a passing result of a setup parent of `n` through the object `vm`, each once,
in order of first occurrence (edges in dict order, per edge in the order of `shared_result_worker_ids`).
`pushNew L a`: `L` if `a ∈ L`, else `L ++ [a]`.  `seqOf g s n vm`: the locations `pull_locations` offers to the entry of
`vm`, in the order of the three loops (per edge through `vm`: the shared pool, then the passers' pools).
`TokAt U cur vm L`: the entry of `vm` in `cur` is `joinLocs L` for the duplicate-free token list `L ⊆ U` (no entry for
`L = []`). -/

/-- **(a) The string lemma.**  A blank-free needle is contained in `a ++ " " ++ b` iff it is contained in `a` or in
`b` (Python: `x in a + " " + b` for `" " not in x`). -/
theorem blank_free_needle_splits (x a b : String) (hx : ' ' ∉ x.toList) :
    strIn x (a ++ " " ++ b) = true ↔ strIn x a = true ∨ strIn x b = true :=
  strIn_join_iff x a b hx

/-- Consequence for joined entries: on separated location strings the duplicate test of `pull_locations`
(`loc in entry`) is exactly the membership test in the list of joined tokens. -/
theorem duplicate_test_is_membership (g : Graph) (hsep : LocsSeparated g) (loc : String) (hloc : loc ∈ allLocs g)
    (L : List String) (hL : ∀ l ∈ L, l ∈ allLocs g) : strIn loc (joinLocs L) = true ↔ loc ∈ L :=
  strIn_joinLocs_iff hsep.sep loc hloc L hL

/-- **(b) `locations_exact`.**  Under `LocsSeparated g` and starting from an empty `get_location` record, after
`pullLocations g s n` of a parsed copy `n` the entry of every object `vm` is EXACTLY: nothing, when no setup edge of `n`
carries `vm`; otherwise the blank-join of the duplicate-free list
`[shared pool] ++ [pool of every worker with a PASS result on a parent class through vm, in order of first occurrence]`.
As a set: the listed sources are the shared pool and exactly the workers that passed a producer (none missing, none
spurious, none twice). -/
theorem locations_exact (g : Graph) (hsep : LocsSeparated g) (s : State) (n : Nat) (hflat : (g.node n).flat = false)
    (hn : n < s.nodes.length) (hempty : (s.nd n).getLoc = []) (vm : String) :
    locOf ((pullLocations g s n).nd n).getLoc vm =
      (if edgesThrough g n vm = [] then none
       else some (joinLocs (sharedLoc :: (passersThrough g s n vm).map (workerLoc g)))) ∧
    (sharedLoc :: (passersThrough g s n vm).map (workerLoc g)).Nodup ∧ (passersThrough g s n vm).Nodup ∧
    (∀ v, v ∈ passersThrough g s n vm ↔
      ∃ p vms, (p, vms) ∈ (g.node n).setup ∧ vm ∈ vms ∧ v ∈ sharedResultWorkerIds g s p) := by
  refine ⟨?_, ?_, nodup_passersThrough g s n vm, mem_passersThrough g s n vm⟩
  · rw [pullLocations_exact hsep s n hflat hn hempty vm]
    unfold enc expectedLocs
    by_cases he : edgesThrough g n vm = []
    · simp [he]
    · simp [he]
  · have := expectedLocs_nodup hsep s n vm
    unfold expectedLocs at this
    by_cases he : edgesThrough g n vm = []
    · -- no edge: no passer either
      have hp : passersThrough g s n vm = [] := by
        unfold passersThrough; rw [he]; rfl
      rw [hp]; simp
    · simpa [he] using this

/-- **(b′) What accumulates.**  From ANY `get_location` record whose entry of `vm` is the join of a duplicate-free
token list `T0` of location strings, `pull_locations` leaves the join of `T0` followed by the locations of `seqOf` not
yet present, in order of first occurrence: old tokens keep their place (`T0` is a prefix), the members are the old ones
and the offered ones, and a second call in the same state changes nothing (`locAdd` is idempotent on separated
strings). -/
theorem locations_accumulate (g : Graph) (hsep : LocsSeparated g) (s : State) (n : Nat) (hflat : (g.node n).flat = false)
    (hn : n < s.nodes.length) (vm : String) (T0 : List String) (h0 : TokAt (allLocs g) (s.nd n).getLoc vm T0) :
    TokAt (allLocs g) ((pullLocations g s n).nd n).getLoc vm ((seqOf g s n vm).foldl pushNew T0) ∧
    T0 <+: (seqOf g s n vm).foldl pushNew T0 ∧
    (∀ t, t ∈ (seqOf g s n vm).foldl pushNew T0 ↔ t ∈ T0 ∨ t ∈ seqOf g s n vm) ∧
    (seqOf g s n vm).foldl pushNew ((seqOf g s n vm).foldl pushNew T0) = (seqOf g s n vm).foldl pushNew T0 :=
  ⟨pullLocations_tok hsep.sep g s n hflat hn (locsOf_sub_allLocs g s) vm T0 h0, prefix_foldl_pushNew _ _,
    fun t => mem_foldl_pushNew _ _ t,
    foldl_pushNew_of_subset _ _ (fun x hx => (mem_foldl_pushNew _ _ x).mpr (Or.inr hx))⟩

/-- **The entry determines its tokens.**  On blank-free non-empty tokens the blank-join is injective: the list of
sources a test reads out of `get_location_<vm>` (by splitting at blanks) is the list the theorems above speak of, not
merely a list with the same join; in particular the token list `T` of `locations_invariant` and
`start_locations_exact` is unique. -/
theorem entry_determines_tokens (L L' : List String) (hL : ∀ l ∈ L, ' ' ∉ l.toList ∧ l ≠ "")
    (hL' : ∀ l ∈ L', ' ' ∉ l.toList ∧ l ≠ "") (h : joinLocs L = joinLocs L') : L = L' :=
  joinLocs_inj L L' hL hL' h

example : joinLocs [sharedLoc, workerLoc gSub 1] = ":/pool/shared net1:/pool/swarm" := by decide
example := entry_determines_tokens [sharedLoc, workerLoc gSub 1] [sharedLoc, workerLoc gSub 1] (by decide) (by decide) rfl

/-- `LocsSeparated` cannot be dropped: on the witness instance of `location_swallowed_by_substring` (worker ids
`cluster1.net1` and `net1`) the hypothesis fails and so does the conclusion of `locations_exact` — both workers passed
the producer, the entry lists one of them. -/
theorem locs_separated_needed :
    ¬ LocsSeparated gSub ∧ (gSub.node 1).flat = false ∧ (sSub.nd 1).getLoc = [] ∧
    passersThrough gSub sSub 1 "vm1" = [0, 1] ∧
    locOf ((pullLocations gSub sSub 1).nd 1).getLoc "vm1" ≠
      some (joinLocs (sharedLoc :: (passersThrough gSub sSub 1 "vm1").map (workerLoc gSub))) := by decide

/-- two workers `net1`, `net2`; a stateless test `a` (copies 0, 1), a dependant `b` (copies 2, 3), the shared root 4 -/
def gTwo : Graph :=
  { workers := [{ id := "net1", swarm := "localhost" }, { id := "net2", swarm := "localhost" }],
    nodes := [
      { cls := 0, owner := some 0, name := "all.a.vms.vm1.nets.localhost.net1", pfx := "1a1", objs := ["vm1"],
        setup := [(4, ["vm1"])], cleanup := [(2, ["vm1"])] },
      { cls := 0, owner := some 1, name := "all.a.vms.vm1.nets.localhost.net2", pfx := "1a1", objs := ["vm1"],
        setup := [(4, ["vm1"])], cleanup := [(3, ["vm1"])] },
      { cls := 1, owner := some 0, name := "all.b.vms.vm1.nets.localhost.net1", pfx := "2a1", objs := ["vm1"],
        setup := [(0, ["vm1"])] },
      { cls := 1, owner := some 1, name := "all.b.vms.vm1.nets.localhost.net2", pfx := "2a1", objs := ["vm1"],
        setup := [(1, ["vm1"])] },
      { cls := 2, owner := none, name := "all.internal.stateless.noop", pfx := "1", flat := true, sharedRoot := true,
        cleanup := [(0, ["vm1"]), (1, ["vm1"])] }],
    root := 4 }

/-- `net1` passed `a`, `net2` has not run it -/
def sTwo : State :=
  { nodes := [{ results := [{ name := "all.a.vms.vm1.nets.localhost.net1", status := "PASS", uid := "1a1" }] }, {}, {}, {}, {}],
    regs := [{}, {}, {}], workers := [{}, {}], store := [] }

/-- non-vacuity of `locations_exact`: two workers `net1`/`net2`, one passed — `net2`'s copy of `b` is told the shared
pool and `net1`'s pool, exactly -/
example : LocsSeparated gTwo := by decide
example : passersThrough gTwo sTwo 3 "vm1" = [0] ∧
    locOf ((pullLocations gTwo sTwo 3).nd 3).getLoc "vm1" = some ":/pool/shared net1:/pool/swarm" ∧
    locOf ((pullLocations gTwo sTwo 3).nd 3).getLoc "vm2" = none := by decide
example := locations_exact gTwo (by decide) sTwo 3 rfl (by decide) rfl "vm1"
example := locations_accumulate gTwo (by decide) sTwo 3 rfl (by decide) "vm1" [] (tokAt_nil _ _)

/-! ### run level

`ReachableFrom g ncls store H`: the states reachable (steps of real workers with fuel, any interleaving and outcomes)
from the initial state in which exactly the nodes `H` are not parsed yet; `H = []` is a pre-parsed graph.  Every
`ReachableF` state is `ReachableFrom` some `H` (`ReachableF.from`) and conversely (`ReachableFrom.reachableF`). -/

/-- **(c1) The location invariant.**  In every reachable state, for every copy `n` and object `vm`, the entry
`get_location_<vm>` of `n` is the blank-join of a duplicate-free list `T` of location strings (no entry iff `T = []`),
and every listed string is justified NOW: it is the shared pool, or the pool of a worker `v` that has a PASS result on
a setup parent of `n` through `vm` — nothing spurious is ever listed, nothing twice. -/
theorem locations_invariant (g : Graph) (hsep : LocsSeparated g) (ncls : Nat) (store : List (String × List (String × String)))
    (s : State) (h : ReachableF g ncls store s) (n : Nat) (vm : String) :
    ∃ T : List String, T.Nodup ∧ locOf (s.nd n).getLoc vm = (if T = [] then none else some (joinLocs T)) ∧
      ∀ t ∈ T, t = sharedLoc ∨ ∃ p vms v, (p, vms) ∈ (g.node n).setup ∧ vm ∈ vms ∧
        v ∈ sharedResultWorkerIds g s p ∧ t = workerLoc g v := by
  obtain ⟨H, hr⟩ := h.from
  obtain ⟨T, h1, h2⟩ := (hr.linv hsep).toks n vm
  exact ⟨T, h1.nodup, h1.entry, fun t ht => (h2 t ht).cases⟩

/-- **(c2) The locations a started test is told.**  For every reachable state and every `start` event of a step, the
event's `locs` are the `get_location` record of the started copy `n` in a state `sd` of that step — for the phases
`plain` and `pre` the DECISION state (right after `pull_locations`, which `traverse_node` calls before the run
decision; no parse step lies between, so `vis g sd` is the graph the call saw), for `main` the state in which the
second half of an object root starts.  For every object `vm` the entry is the blank-join of a duplicate-free token
list `T` with:
* soundness (all phases): every token is the shared pool or the pool of a worker with a PASS result, in `sd`, on a setup
  parent of `n` through `vm`;
* completeness (`plain`, `pre`): every location of every setup edge through `vm` of the graph as parsed at that moment is
  a token; and `T` is what an earlier visit left (`T0`, a prefix) followed by the locations of `seqOf` not yet present, in
  order of first occurrence. -/
theorem start_locations_exact (g : Graph) (hsep : LocsSeparated g) (ncls : Nat) (store : List (String × List (String × String)))
    (s : State) (h : ReachableF g ncls store s) (w : Nat) (out : Outcome) (fuel : Nat)
    (wid cls uid : String) (locs : List (String × String)) (unk : Nat)
    (he : Event.start wid cls uid locs unk ∈ (resume g s w out fuel).2) :
    ∃ n ph sd, cls = clsName g n ph ∧ locs = (sd.nd n).getLoc ∧
      ∀ vm, ∃ T : List String, T.Nodup ∧ locOf locs vm = (if T = [] then none else some (joinLocs T)) ∧
        (∀ t ∈ T, t = sharedLoc ∨ ∃ p vms v, (p, vms) ∈ (g.node n).setup ∧ vm ∈ vms ∧
          v ∈ sharedResultWorkerIds g sd p ∧ t = workerLoc g v) ∧
        (ph ≠ .main →
          (∀ p vms, (p, vms) ∈ ((vis g sd).node n).setup → vm ∈ vms →
            ∀ t ∈ sharedLoc :: (sharedResultWorkerIds g sd p).map (workerLoc g), t ∈ T) ∧
          ∃ T0, T0 <+: T ∧ T = (seqOf (vis g sd) sd n vm).foldl pushNew T0) := by
  obtain ⟨H, hr⟩ := h.from
  obtain ⟨n, ph, sd, h1, h2, h3, h4⟩ := (resume_L hsep s w out fuel (hr.linv hsep)).2 _ he wid cls uid locs unk rfl
  refine ⟨n, ph, sd, h1, h2, fun vm => ?_⟩
  by_cases hph : ph = .main
  · obtain ⟨T, t1, t2⟩ := h3.toks n vm
    exact ⟨T, t1.nodup, by rw [h2]; exact t1.entry, fun t ht => (t2 t ht).cases, fun hm => absurd hph hm⟩
  · obtain ⟨T0, t1, t2⟩ := h4 hph vm
    refine ⟨_, t1.nodup, by rw [h2]; exact t1.entry, fun t ht => ?_, fun _ => ⟨fun p vms hp hvm t ht => ?_, T0, prefix_foldl_pushNew _ _, rfl⟩⟩
    · rcases (mem_foldl_pushNew _ _ t).mp ht with h' | h'
      · exact (t2 t h').cases
      · exact (Listed.ofVis (subVis_vis g sd) ((mem_seqOf _ sd n vm t).mp h')).cases
    · refine (mem_foldl_pushNew _ _ t).mpr (Or.inr ((mem_seqOf _ sd n vm t).mpr ⟨p, vms, hp, hvm, ?_⟩))
      rw [locsOf_static (sameStatic_vis g sd)]
      exact ht

/-- **(c3) Pre-parsed graphs: listed sources = shared pool ∪ exactly the passers.**  On a graph that is parsed before
the traversal (`H = []`), for every `start` event of phase `plain` or `pre` of a step from a reachable state and every
object `vm` carried by a setup edge of the started copy `n`: the entry exists, is the blank-join of a duplicate-free
token list `T`, and a string is a token iff it is the shared pool or the pool of a worker with a PASS result, in the
decision state `sd`, on a setup parent of `n` through `vm`.  In particular (`LocsSeparated`: distinct workers have
distinct strings) worker `v`'s pool is listed iff `v` passed a producer. -/
theorem start_locations_exact_preparsed (g : Graph) (hsep : LocsSeparated g) (ncls : Nat)
    (store : List (String × List (String × String))) (s : State) (h : ReachableFrom g ncls store [] s)
    (w : Nat) (out : Outcome) (fuel : Nat) (wid cls uid : String) (locs : List (String × String)) (unk : Nat)
    (he : Event.start wid cls uid locs unk ∈ (resume g s w out fuel).2) :
    ∃ n ph sd, cls = clsName g n ph ∧ locs = (sd.nd n).getLoc ∧
      (ph ≠ .main → ∀ vm, (∃ p vms, (p, vms) ∈ (g.node n).setup ∧ vm ∈ vms) →
        ∃ T : List String, T.Nodup ∧ locOf locs vm = some (joinLocs T) ∧
          (∀ t, t ∈ T ↔ t = sharedLoc ∨ ∃ p vms v, (p, vms) ∈ (g.node n).setup ∧ vm ∈ vms ∧
            v ∈ sharedResultWorkerIds g sd p ∧ t = workerLoc g v) ∧
          (∀ v, v < g.workers.length → (workerLoc g v ∈ T ↔
            ∃ p vms, (p, vms) ∈ (g.node n).setup ∧ vm ∈ vms ∧ v ∈ sharedResultWorkerIds g sd p))) := by
  obtain ⟨n, ph, sd, h1, h2, h3, h4⟩ := (resume_L hsep s w out fuel (h.linv hsep)).2 _ he wid cls uid locs unk rfl
  refine ⟨n, ph, sd, h1, h2, fun hph vm hedge => ?_⟩
  have hvis : vis g sd = g := vis_of_hidden_nil g sd h3.hid
  obtain ⟨T0, t1, t2⟩ := h4 hph vm
  rw [hvis] at t1
  have hmem : ∀ t, t ∈ (seqOf g sd n vm).foldl pushNew T0 ↔ Listed g sd n vm t := by
    intro t
    rw [mem_foldl_pushNew, mem_seqOf]
    exact ⟨fun h => h.elim (t2 t) id, Or.inr⟩
  have hiff : ∀ t, t ∈ (seqOf g sd n vm).foldl pushNew T0 ↔ t = sharedLoc ∨ ∃ p vms v, (p, vms) ∈ (g.node n).setup ∧
      vm ∈ vms ∧ v ∈ sharedResultWorkerIds g sd p ∧ t = workerLoc g v := by
    intro t
    rw [hmem]
    constructor
    · exact Listed.cases
    · rintro (rfl | ⟨p, vms, v, hp, hvm, hv, rfl⟩)
      · obtain ⟨p, vms, hp, hvm⟩ := hedge
        exact ⟨p, vms, hp, hvm, List.mem_cons_self⟩
      · exact ⟨p, vms, hp, hvm, List.mem_cons_of_mem _ (List.mem_map.mpr ⟨v, hv, rfl⟩)⟩
  have hne : (seqOf g sd n vm).foldl pushNew T0 ≠ [] := by
    intro h0
    have := (hiff sharedLoc).mpr (Or.inl rfl)
    rw [h0] at this
    cases this
  refine ⟨_, t1.nodup, ?_, hiff, fun v hv => ?_⟩
  · rw [h2, t1.entry]; unfold enc; simp [hne]
  · rw [hiff]
    constructor
    · rintro (h' | ⟨p, vms, v', hp, hvm, hv', he'⟩)
      · exact absurd h'.symm (hsep.shared_ne v hv)
      · have := hsep.inj v v' hv (mem_sharedResultWorkerIds_lt g sd p v' hv') he'
        subst this
        exact ⟨p, vms, hp, hvm, hv'⟩
    · rintro ⟨p, vms, hp, hvm, hv'⟩
      exact Or.inr ⟨p, vms, v, hp, hvm, hv', rfl⟩

/-- non-vacuity at run level (`gTwo`, pre-parsed): `net1` runs `a` (first step, never reported → second step with PASS),
goes on to its copy of `b` and starts it; the start event carries exactly the shared pool and `net1`'s own pool -/
def sTwo1 : State := (resume gTwo (initState gTwo 3 [] []) 0 ⟨none, 0⟩ 100).1

example : ReachableFrom gTwo 3 [] [] sTwo1 := .step _ 0 ⟨none, 0⟩ 100 .init (by decide) (by decide)

set_option maxRecDepth 100000 in
example : Event.start "net1" "1" "2a1" [("vm1", ":/pool/shared net1:/pool/swarm")] 1 ∈
    (resume gTwo sTwo1 0 ⟨some "PASS", 1⟩ 100).2 := by decide +kernel

set_option maxRecDepth 100000 in
example := start_locations_exact_preparsed gTwo (by decide) 3 [] sTwo1
  (.step _ 0 ⟨none, 0⟩ 100 .init (by decide) (by decide)) 0 ⟨some "PASS", 1⟩ 100 "net1" "1" "2a1"
  [("vm1", ":/pool/shared net1:/pool/swarm")] 1 (by decide +kernel)

set_option maxRecDepth 100000 in
example := start_locations_exact gTwo (by decide) 3 [] sTwo1
  (.step _ 0 ⟨none, 0⟩ 100 (.init []) (by decide) (by decide)) 0 ⟨some "PASS", 1⟩ 100 "net1" "1" "2a1"
  [("vm1", ":/pool/shared net1:/pool/swarm")] 1 (by decide +kernel)

example := locations_invariant gTwo (by decide) 3 [] sTwo1 (.step _ 0 ⟨none, 0⟩ 100 (.init []) (by decide) (by decide)) 2 "vm1"

/-! ## which pool a state request addresses (closing part of the model gap "worker ids that are substrings of one another")

`scan_states`, `sync_states` and the test itself work with the parameters of the node COPY (`node.params["nets"]`): the pool
examined, changed or filled is that of the worker the copy was parsed for - `g.netOf n w` in the model - whoever acts on
the copy.  The acting worker's id only decides WHETHER it acts (`worker.id in params["name"]`, a substring test).  An earlier
version of the model used the acting worker's pool; the two agree exactly when a worker acts on its own copies
(`netOf_of_owner`, i.e. always under `OwnerNames`), and differ under finding F4 (`foreign_copy_request_goes_to_foreign_pool`:
the first block of `corpus/C08/worker-id-substring.json`, which the model now reproduces). -/

/-- on its own copy the acting worker's pool is addressed -/
theorem netOf_of_owner (g : Graph) (n w : Nat) (h : (g.node n).owner = some w) : g.netOf n w = w := by
  unfold Graph.netOf; rw [h]; rfl

/-- a parsed copy a worker cares for (`relevant`) is addressed through that worker's own pool, provided the worker's id
occurs in the copy's name only if the copy is its own - for this pair; `OwnerNames g` of `Lemmas/TravReady.lean`, the
hypothesis of the ownership theorems, says so for all pairs -/
theorem netOf_of_relevant (g : Graph) (n w : Nat) (hO : g.idIn w n = true → (g.node n).owner = some w)
    (hf : (g.node n).flat = false) (hrel : relevant g w n = true) : g.netOf n w = w := by
  unfold relevant at hrel
  rw [hf, Bool.false_or] at hrel
  exact netOf_of_owner g n w (hO hrel)

/-- every request `scan_states` / `sync_states` send to the state control names the pool of the copy's own worker -/
theorem state_requests_address_copy_pool (g : Graph) (s : State) (n w : Nat) (rv : Option (List String)) :
    ∀ e ∈ (scanStates g s n w).2 ++ (syncStates g s n w rv).2,
      ∃ act reqs sc ok, e = Event.door (g.worker (g.netOf n w)).id act reqs sc ok := by
  intro e he
  rcases List.mem_append.mp he with he | he
  · unfold scanStates at he
    dsimp only at he
    split at he
    · cases he
    · rw [List.mem_singleton.mp he]; exact ⟨_, _, _, _, rfl⟩
  · unfold syncStates at he
    dsimp only at he
    split at he
    · cases he
    · split at he
      · rw [List.mem_singleton.mp he]; exact ⟨_, _, _, _, rfl⟩
      · rw [List.mem_singleton.mp he]; exact ⟨_, _, _, _, rfl⟩

/-- the corpus case `corpus/C08/worker-id-substring.json` (workers `net11`, `net1`; a setup test `setup01` that sets
`vm1/s01`, two leaves; `pool_scope=own`), as the harness describes it to the driver -/
def gF4 : Graph :=
  let nd := fun (cls : Nat) (owner : Nat) (name pfx : String) (rank : Nat) (sets gets : List (String × String))
      (setup cleanup : List (Nat × List String)) =>
    ({ cls := cls, owner := some owner, name := name, pfx := pfx, rank := rank, sets := sets, gets := gets,
       maxTries := some 1, timeout := 100, shape := .own, scope := ["own"], objs := ["vms_vm1", "vm1"],
       setup := setup, cleanup := cleanup } : Node)
  { workers := [{ id := "net11", swarm := "localhost" }, { id := "net1", swarm := "localhost" }],
    nodes := [
      nd 0 0 "all.setup01.vms.vm1.varvm1.nets.localhost.net11" "1a1" 3 [("vm1", "s01")] [] [(6, ["vm1"])]
        [(1, ["vm1"]), (2, ["vm1"])],
      nd 1 0 "normal.nongui.leaf0.vms.vm1.varvm1.nets.localhost.net11" "1" 0 [] [("vm1", "s01")] [(0, ["vm1"])] [],
      nd 2 0 "normal.nongui.leaf1.vms.vm1.varvm1.nets.localhost.net11" "2" 5 [] [("vm1", "s01")] [(0, ["vm1"])] [],
      nd 0 1 "all.setup01.vms.vm1.varvm1.nets.localhost.net1" "1a1" 4 [("vm1", "s01")] [] [(6, ["vm1"])]
        [(4, ["vm1"]), (5, ["vm1"])],
      nd 1 1 "normal.nongui.leaf0.vms.vm1.varvm1.nets.localhost.net1" "1" 1 [] [("vm1", "s01")] [(3, ["vm1"])] [],
      nd 2 1 "normal.nongui.leaf1.vms.vm1.varvm1.nets.localhost.net1" "2" 6 [] [("vm1", "s01")] [(3, ["vm1"])] [],
      { cls := 3, owner := none, name := "all.internal.stateless.noop", pfx := "1", flat := true, sharedRoot := true,
        rank := 2, timeout := 3600, scope := [], cleanup := [(0, ["vm1"]), (3, ["vm1"])] }],
    root := 6 }

set_option maxRecDepth 100000 in
/-- **F4 at the level of the state control** (`decide`; this is block 0 of the real run of the corpus case, event for
event): `net1`'s id occurs in the name of `net11`'s copy of `setup01` (node 0), which it therefore cares for and - the copy
comes first among the root's children - picks; the `check` request it sends names `net11`'s pool (the copy's parameters),
and the test it then starts is `net11`'s copy, executed by `net1`.  `netOf` is not the acting worker here: the hypothesis of
`netOf_of_relevant` (and with it `OwnerNames`) fails for exactly this pair. -/
theorem foreign_copy_request_goes_to_foreign_pool :
    (resume gF4 (initState gF4 4 []) 1 ⟨none, 0⟩ 100).2 =
      [Event.door "net11" "check" [("vm1", "s01")] ["own"] false,
       Event.start "net1" "0" "1a1" [("vm1", ":/pool/shared")] 1] ∧
    relevant gF4 1 0 = true ∧ (gF4.node 0).owner = some 0 ∧ gF4.netOf 0 1 = 0 ∧
    ((resume gF4 (initState gF4 4 []) 1 ⟨none, 0⟩ 100).1.nd 0).started = some 1 ∧
    gF4.idIn 1 0 = true := by
  decide +kernel

/-- non-vacuity of `netOf_of_relevant`: in `gTwo` (ids `net1`, `net2`) `net2` cares for its copy of `b` (node 3), which
is its own, and addresses its own pool -/
example : gTwo.netOf 3 1 = 1 := netOf_of_relevant gTwo 3 1 (by decide) (by decide) (by decide)

end I2N.Props.C08

/-! ## Translator tie: `shared_result_worker_ids` is the Python source (`harness/pygen_pxready.py`)

`Extracted/GenLoc.lean` is regenerated on every run from the CURRENT source of the property
`TestNode.shared_result_worker_ids` (the workers whose pools `pull_locations` names): the loop over the shared results, the
`continue` for every status but `PASS`, the first worker id that is a SUBSTRING of the result's name, `add` + `break`. -/
namespace I2N.Props.C08
open I2N.Trav
open I2N.Extracted.GenLoc

/-- **The hand written `sharedResultWorkerIds` is the Python source of `shared_result_worker_ids`**, as sets: the Python
returns a `set` of worker ids (the generated list stands for its elements; a set has no order and no repetitions), the
model a duplicate-free list of worker indices; the ids of the model's workers are exactly the elements of the Python's set.
For every graph (any number of workers, also with ids that are substrings of one another or equal), state and node.
No hypotheses.  Atoms: `self.shared_results` = `sharedResults`, the ids of `TestSwarm.run_swarms` in swarm / worker order =
`g.workers.map (·.id)`. -/
theorem sharedResultWorkerIds_matches_source (g : Graph) (s : State) (n : Nat) (x : String) :
    x ∈ genSharedResultWorkerIds (sharedResults g s n) (g.workers.map (·.id)) ↔
      x ∈ (sharedResultWorkerIds g s n).map (fun w => (g.worker w).id) :=
  I2N.GenLoc.mem_genSharedResultWorkerIds g s n x

/-- the locations `pullLocations` adds for a parent `p` are the shared pool and one `<id>:/pool/swarm` per element of the
Python's set (`workerLoc g v = id v ++ ":/pool/swarm"`): the list the model folds over names exactly the ids generated
from the source -/
theorem pull_locations_names_source_ids (g : Graph) (s : State) (p : Nat) (loc : String) :
    loc ∈ (sharedResultWorkerIds g s p).map (workerLoc g) ↔
      ∃ x ∈ genSharedResultWorkerIds (sharedResults g s p) (g.workers.map (·.id)), loc = x ++ ":/pool/swarm" := by
  constructor
  · intro h
    obtain ⟨w, hw, rfl⟩ := List.mem_map.1 h
    exact ⟨(g.worker w).id, (sharedResultWorkerIds_matches_source g s p _).2 (List.mem_map.2 ⟨w, hw, rfl⟩), rfl⟩
  · rintro ⟨x, hx, rfl⟩
    obtain ⟨w, hw, rfl⟩ := List.mem_map.1 ((sharedResultWorkerIds_matches_source g s p _).1 hx)
    exact List.mem_map.2 ⟨w, hw, rfl⟩

/-- the generated definition computes: only PASS results count, the FIRST id contained in the name wins (`net1` before
`net11`: the substring identity F4), a result naming no worker adds nothing -/
example :
    genSharedResultWorkerIds
      [{ name := "a.net11", status := "PASS", uid := "1" }, { name := "a.net2", status := "FAIL", uid := "2" },
       { name := "b.net2", status := "PASS", uid := "3" }, { name := "c", status := "PASS", uid := "4" }]
      ["net1", "net11", "net2"] = ["net1", "net2"] := by decide

end I2N.Props.C08
