import I2N.Lemmas.Trav
import I2N.Model.TravMon
/-!
# C08 — Tests run only on their own worker and are told where their setup lives
-/
namespace I2N.Props.C08
open I2N.Trav

/-- A worker never runs, re-runs or cleans a composite test that was not parsed for it: when its id
is not part of the test's name the decisions raise (`RuntimeError`) instead of answering. -/
theorem foreign_worker_rejected (g : Graph) (s : State) (n w : Nat)
    (hroot : (g.node n).sharedRoot = false) (hdry : (g.node n).dryRun = false) (hflat : (g.node n).flat = false)
    (hclone : (g.node n).cloneSource = false) (hid : g.idIn w n = false) :
    runDecision g s n w = .error "RuntimeError" ∧ cleanDecision g s n w = .error "RuntimeError" ∧
    ((s.nd n).rerunDisabled = false → shouldRerun g s n w = .error "RuntimeError") := by
  refine ⟨?_, ?_, ?_⟩
  · unfold runDecision; simp [hroot, hdry, hflat, hclone, hid]
  · unfold cleanDecision; simp [hdry, hflat, hclone, hid]
  · intro hr; unfold shouldRerun; simp [hr, hdry, hflat, hclone, hid]

/-- Whatever a worker picks next — parent or child — is one of its own copies (its id is in the name)
or a flat node. -/
theorem picks_are_own_or_flat (g : Graph) (s : State) (n w c : Nat) (s' : State) :
    (pickChild g s n w = some (c, s') → relevant g w c = true ∧ c ∈ (g.node n).cleanup.map (·.1)) ∧
    (pickParent g s n w = some (c, s') → relevant g w c = true ∧ c ∈ (g.node n).setup.map (·.1)) := by
  have mem_insertBy : ∀ (le : Nat → Nat → Bool) (a x : Nat) (l : List Nat), x ∈ insertBy le a l → x = a ∨ x ∈ l := by
    intro le a x l
    induction l with
    | nil => simp [insertBy]
    | cons b r ih =>
      simp only [insertBy]
      split
      · simp
      · simp only [List.mem_cons]
        rintro (h | h)
        · exact Or.inr (Or.inl h)
        · rcases ih h with h | h
          · exact Or.inl h
          · exact Or.inr (Or.inr h)
  have mem_sort : ∀ (le : Nat → Nat → Bool) (x : Nat) (l : List Nat), x ∈ stableSort le l → x ∈ l := by
    intro le x l
    induction l with
    | nil => simp [stableSort]
    | cons a r ih =>
      simp only [stableSort, List.foldr_cons] at ih ⊢
      intro h
      rcases mem_insertBy le a x _ h with h | h
      · simp [h]
      · exact List.mem_cons_of_mem _ (ih h)
  constructor
  · intro h
    unfold pickChild at h
    dsimp only at h
    split at h
    · simp at h
    · rename_i d r hs
      simp only [Option.some.injEq, Prod.mk.injEq] at h
      have hd := mem_sort _ d _ (by rw [hs]; simp)
      rw [List.mem_filter] at hd
      have h2 := hd.2
      simp only [Bool.and_eq_true] at h2
      rw [← h.1]; exact ⟨h2.1, hd.1⟩
  · intro h
    unfold pickParent at h
    dsimp only at h
    split at h
    · simp at h
    · rename_i d r hs
      simp only [Option.some.injEq, Prod.mk.injEq] at h
      have hd := mem_sort _ d _ (by rw [hs]; simp)
      rw [List.mem_filter] at hd
      have h2 := hd.2
      simp only [Bool.and_eq_true] at h2
      rw [← h.1]; exact ⟨h2.1, hd.1⟩

/-- The workers named as setup sources are exactly those with a passing result of the producing
class: `v` is listed for parent `p` iff some shared result of `p` has status PASS and `v` is the first
worker (in swarm order) whose id occurs in that result's name. -/
theorem named_sources_are_passers (g : Graph) (s : State) (p v : Nat) :
    v ∈ sharedResultWorkerIds g s p ↔
      ∃ r ∈ sharedResults g s p, r.status = "PASS" ∧
        (List.range g.workers.length).find? (fun w => strIn (g.worker w).id r.name) = some v := by
  unfold sharedResultWorkerIds
  have mem_dedup : ∀ (l : List Nat) (a : Nat), a ∈ dedupNat l ↔ a ∈ l := by
    intro l a
    induction l with
    | nil => simp [dedupNat]
    | cons b l ih =>
      simp only [dedupNat]
      split
      · rename_i h
        have : b ∈ l := by simpa using h
        rw [ih]; simp only [List.mem_cons]
        constructor
        · exact Or.inr
        · rintro (rfl | h') <;> assumption
      · simp [ih]
  rw [mem_dedup, List.mem_filterMap]
  constructor
  · rintro ⟨r, hr, h⟩
    by_cases hp : r.status = "PASS"
    · simp only [hp, bne_self_eq_false, Bool.false_eq_true, if_false] at h
      exact ⟨r, hr, hp, h⟩
    · have : (r.status != "PASS") = true := by simpa using hp
      simp [this] at h
  · rintro ⟨r, hr, hp, h⟩
    refine ⟨r, hr, ?_⟩
    simp [hp, h]

end I2N.Props.C08
