import I2N.Lemmas.NetReattach
import I2N.Lemmas.NetGen
import I2N.Extracted.GenNetwork
/-!
# C18 — The vm network model stays consistent and its address arithmetic is exact

"Building a vm network from parameters assigns every interface to exactly one network configuration whose
subnet contains its address, without duplicate addresses, and this remains true when an interface is
reattached to another vm's network.  Address allocation hands out every address of the configured range once
and then reports exhaustion, netmask and prefix length convert into each other consistently, and address
translation maps a host to the same host offset in the target subnet."

All theorems are about `I2N.Model.Net`, the model the compiled driver `drv_net` runs against the real
`VMNetwork`/`VMNetconfig`.  Three statements are `_partial` because the real code (and therefore the model)
violates the full statement; the witnesses are next to them:
  * `reattach_inv_partial` / `run_inv_partial`: reattaching with a `proxy_nic` leaves the client interface outside
    every registry (`reattach_proxy_breaks`), and the allocator may hand out an address that a statically
    configured interface already uses (`witness_pool_collision`);
  * `build_inv_partial`: a subnet with the same network address as an earlier one but a shorter prefix silently
    replaces the earlier netconfig in `VMNetwork.netconfigs` (`witness_nested_subnet`).
-/
namespace I2N.Props.C18
open I2N.Net

/-! ## Netmask ↔ prefix length -/

/-- a netmask is contiguous if it is the netmask of some prefix length -/
def Contiguous (m : Nat) : Prop := ∃ b, b ≤ 32 ∧ m = netmaskOfBits b

/-- `mask_bit` of the netmask of a prefix length gives the prefix length back, for all 33 lengths -/
theorem maskbit_netmask (b : Nat) (hb : b ≤ 32) : maskBit (netmaskOfBits b) = b :=
  maskBit_netmaskOfBits b hb

/-- … and back: exactly the contiguous netmasks are reproduced from their `mask_bit` -/
theorem netmask_maskbit (m : Nat) : netmaskOfBits (maskBit m) = m ↔ Contiguous m := by
  constructor
  · intro h; exact ⟨maskBit m, maskBit_le m, h.symm⟩
  · rintro ⟨b, hb, rfl⟩; rw [maskbit_netmask b hb]

/-- different prefix lengths have different netmasks -/
theorem netmaskOfBits_injective (a b : Nat) (ha : a ≤ 32) (hb : b ≤ 32) (h : netmaskOfBits a = netmaskOfBits b) :
    a = b := by
  rw [← maskbit_netmask a ha, ← maskbit_netmask b hb, h]

example : maskBit (netmaskOfBits 24) = 24 ∧ netmaskOfBits 24 = 4294967040 := by decide
example : Contiguous 4294901760 := ⟨16, by decide, by decide⟩
-- a non-contiguous mask (255.0.255.0) is read as /24 by the code and is *not* reproduced
example : maskBit 4278255360 = 24 ∧ netmaskOfBits (maskBit 4278255360) ≠ 4278255360 := by decide

/-! ## Network address -/

/-- `_get_network_ip` is the start of the aligned block of `2^(32-b)` addresses containing the address -/
theorem network_ip_spec (ip b : Nat) :
    networkIp ip b % 2 ^ (32 - b) = 0 ∧ networkIp ip b ≤ ip ∧ ip < networkIp ip b + 2 ^ (32 - b) :=
  ⟨networkIp_mod ip b, networkIp_le ip b, lt_networkIp_add ip b⟩

/-- … and is the only such address -/
theorem network_ip_unique (ip b n : Nat) (h0 : n % 2 ^ (32 - b) = 0) (h1 : n ≤ ip) (h2 : ip < n + 2 ^ (32 - b)) :
    networkIp ip b = n := networkIp_eq_of ip b n h0 h1 h2

/-- membership in the subnet of a netconfig (`x in own.network`) is the interval test -/
theorem subnet_contains_iff (c : Netconfig) (x : Nat) :
    inNet c x = true ↔
      networkIp c.netIp c.bits ≤ x ∧ x < networkIp c.netIp c.bits + 2 ^ (32 - c.bits) := by
  simp only [inNet, beq_iff_eq]
  exact networkIp_eq_iff x c.bits _ (networkIp_mod _ _)

example : networkIp 3232235786 24 = 3232235776 := by decide   -- 192.168.1.10/24 → 192.168.1.0

/-! ## Allocation -/

/-- From any state of the range map: the not yet handed out offsets are handed out in insertion order, each
    exactly once (as `net_ip + offset`), and the next call reports exhaustion. -/
theorem alloc_all_once (c : Netconfig) (hb : ∀ o ∈ freeOffsets c.range, c.netIp + o < ipSpace) :
    (allocateN c (freeOffsets c.range).length).1 = (freeOffsets c.range).map (c.netIp + ·) ∧
    allocate (allocateN c (freeOffsets c.range).length).2 = .error .indexError := by
  obtain ⟨h1, h2⟩ := allocateN_all (freeOffsets c.range) c rfl hb
  exact ⟨h1, allocate_error _ h2⟩

/-- For a netconfig fresh `from_interface` with `range = lo-hi` inside the address space: the addresses
    `net_ip+lo … net_ip+hi`, in this order, without repetition, then `IndexError`. -/
theorem alloc_fresh_range (f : Iface) (hb : (fromInterface f).netIp + f.hi < ipSpace) :
    let c := fromInterface f
    let n := f.hi + 1 - f.lo
    (allocateN c n).1 = (List.range' f.lo n).map (c.netIp + ·) ∧ (allocateN c n).1.Nodup ∧
    (allocateN c n).1.length = n ∧ allocate (allocateN c n).2 = .error .indexError := by
  intro c n
  have hfree : freeOffsets c.range = List.range' f.lo n := freeOffsets_mkRange f.lo f.hi
  have hbound : ∀ o ∈ freeOffsets c.range, c.netIp + o < ipSpace := by
    intro o ho
    rw [hfree, List.mem_range'_1] at ho
    have : c.netIp + f.hi < ipSpace := hb
    omega
  have := alloc_all_once c hbound
  rw [hfree, List.length_range'] at this
  refine ⟨this.1, ?_, ?_, this.2⟩
  · rw [this.1]
    exact List.Pairwise.map _ (fun a b hab h => hab (by omega)) List.nodup_range'
  · rw [this.1]; simp

/-- a successful allocation always returns the first free offset, marks exactly it, and stays in the space -/
theorem alloc_step (c c' : Netconfig) (a : Nat) (h : allocate c = .ok (a, c')) :
    ∃ o l, freeOffsets c.range = o :: l ∧ a = c.netIp + o ∧ freeOffsets c'.range = l ∧ a < ipSpace := by
  obtain ⟨o, l, h1, h2, h3, _, _, _, _, h4⟩ := allocate_inv c c' a h
  exact ⟨o, l, h1, h2, h3, h4⟩

-- 192.168.1.0/24 with range 100-102: .100 .101 .102, then exhaustion
example : (allocateN (fromInterface ⟨3232235777, 4294967040, none, 100, 102, none⟩) 3).1
    = [3232235876, 3232235877, 3232235878] := by decide
example : (fromInterface ⟨3232235777, 4294967040, none, 100, 102, none⟩).netIp + 102 < ipSpace := by decide

/-! ## Translation -/

/-- A host of the netconfig's subnet is mapped to the same host offset in the subnet of `nat` (same prefix
    length): no error, same offset, inside the target subnet, inside the address space. -/
theorem translate_offset (c : Netconfig) (ip nat : Nat) (hnat : nat < ipSpace)
    (hal : networkIp c.netIp c.bits = c.netIp) (hin : inNet c ip = true) :
    ∃ r, translate c ip nat = .ok r ∧ c.netIp ≤ ip ∧ networkIp nat c.bits ≤ r ∧
      r - networkIp nat c.bits = ip - c.netIp ∧ networkIp r c.bits = networkIp nat c.bits ∧ r < ipSpace :=
  translate_in_subnet c ip nat hnat hal hin

/-- every netconfig the code constructs (`from_interface`) satisfies the alignment hypothesis -/
theorem from_interface_aligned (f : Iface) :
    networkIp (fromInterface f).netIp (fromInterface f).bits = (fromInterface f).netIp := fromInterface_aligned f

-- 10.1.0.7 in 10.1.0.0/16 translated for 192.168.5.9 → 192.168.0.7
example : translate (fromInterface ⟨167837697, 4294901760, none, 100, 200, none⟩) 167837703 3232236809
    = .ok 3232235527 := by rfl

/-! ## The registry invariant -/

/-- netconfig object `n` lists interface `i` in its `interfaces` -/
def Listed (s : Net) (n i : Nat) : Prop := ∃ k, (k, i) ∈ (s.nc n).ifs

/-- The property text, spelled out: every interface is listed by exactly one registered netconfig, once, under
    its own address; that netconfig is the interface's `netconfig`, its subnet contains the address; no two
    interfaces share an address; the registry keys are the network addresses. -/
structure Consistent (s : Net) : Prop where
  exactlyOne : ∀ i, i < s.nIf → ∃ n, (Registered s n ∧ Listed s n i) ∧ ∀ m, Registered s m ∧ Listed s m i → m = n
  own : ∀ i n, i < s.nIf → Registered s n → Listed s n i →
    (s.iface i).nc = some n ∧ (∀ k, (k, i) ∈ (s.nc n).ifs → k = (s.iface i).ip) ∧
    ((s.nc n).ifs.map (·.1)).Nodup
  subnet : ∀ i n, i < s.nIf → Registered s n → Listed s n i → inNet (s.nc n) (s.iface i).ip = true
  noDuplicates : ∀ i j, i < s.nIf → j < s.nIf → (s.iface i).ip = (s.iface j).ip → i = j
  keys : ∀ k n, (k, n) ∈ s.reg → (s.nc n).netIp = k

/-- the inductive invariant `Inv` implies the property as spelled out -/
theorem inv_consistent (s : Net) (h : Inv s) : Consistent s := by
  obtain ⟨hp, hall⟩ := h
  have key : ∀ i n, i < s.nIf → Registered s n → Listed s n i → (s.iface i).nc = some n := by
    rintro i n _ hn ⟨k, hk⟩
    exact (hp.member n hn k i hk).2.2.1
  refine ⟨?_, ?_, ?_, hp.distinct, fun k n hm => (hp.regKey k n hm).2⟩
  · intro i hi
    have := hall i hi
    obtain ⟨n, hn⟩ := Option.isSome_iff_exists.1 this
    obtain ⟨h1, h2, _⟩ := hp.placed i n hi (by omega) hn
    refine ⟨n, ⟨h1, _, h2⟩, ?_⟩
    rintro m ⟨hm1, hm2⟩
    have := key i m hi hm1 hm2
    rw [hn] at this
    exact (Option.some.inj this).symm
  · intro i n hi hn hl
    refine ⟨key i n hi hn hl, ?_, hp.ifsNodup n⟩
    intro k hk
    exact (hp.member n hn k i hk).2.2.2.symm
  · intro i n hi hn hl
    exact (hp.placed i n hi (by omega) (key i n hi hn hl)).2.2

/-- `VMNetwork.__init__`: if the construction succeeds for interfaces with pairwise distinct addresses, the
    registries are consistent and every interface is attached.
    `_partial`: the hypothesis `NoShadow` (no two interfaces configure subnets with the same network address but
    different netmasks) is needed — see `witness_nested_subnet`. -/
theorem build_inv_partial (inp : List Iface) (s : Net) (hd : (inp.map (·.ip)).Nodup) (hsh : NoShadow inp)
    (h : build inp = .ok s) : Inv s ∧ Consistent s ∧ s.nIf = inp.length := by
  obtain ⟨h1, h2⟩ := build_inv inp s hd hsh h
  exact ⟨h1, inv_consistent s h1, h2⟩

/-- operations after the construction -/
inductive Op where
  | alloc (n : Nat)                         -- `netconfig.get_allocatable_address()` on netconfig object `n`
  | reattach (c r : Nat) (p : Option Nat)   -- `reattach_interface` (client, reference, proxy interface)

def step (s : Net) : Op → Except Err Net
  | .alloc n => match allocAt s n with
    | .ok (_, s') => .ok s'
    | .error e => .error e
  | .reattach c r p => reattach s c r p

def run (s : Net) : List Op → Except Err Net
  | [] => .ok s
  | op :: ops => match step s op with
    | .ok s' => run s' ops
    | .error e => .error e

/-- what the `_partial` theorems assume about an operation: no proxy nic, existing interfaces, and the address
    the allocator is about to hand out is not in use -/
def Admissible (s : Net) : Op → Prop
  | .alloc _ => True
  | .reattach c r p => p = none ∧ c < s.nIf ∧ r < s.nIf ∧ FreshAt s r

def AdmissibleRun : Net → List Op → Prop
  | _, [] => True
  | s, op :: ops => Admissible s op ∧ ∀ s', step s op = .ok s' → AdmissibleRun s' ops

/-- `reattach_interface` without proxy nic keeps the registries consistent.
    `_partial`: false with a proxy nic (`reattach_proxy_breaks`) and when the allocated address is in use
    (`witness_pool_collision`). -/
theorem reattach_inv_partial (s s' : Net) (c r : Nat) (hs : Inv s) (hc : c < s.nIf) (hr : r < s.nIf)
    (hfresh : FreshAt s r) (h : reattach s c r none = .ok s') : Inv s' ∧ s'.nIf = s.nIf := by
  obtain ⟨h1, h2, h3⟩ := reattach_none_pinv s s' c r hs.1 hc hr hfresh h
  refine ⟨⟨h1, ?_⟩, h2⟩
  intro i hi
  rw [h2] at hi
  exact h3 i (hs.2 i hi)

/-- a direct allocation keeps the registries consistent (no side condition) -/
theorem alloc_inv (s s' : Net) (n a : Nat) (hs : Inv s) (h : allocAt s n = .ok (a, s')) : Inv s' := by
  obtain ⟨h1, h2, h3⟩ := allocAt_pinv s s' n a hs.1 h
  refine ⟨h1, ?_⟩
  intro i hi
  rw [h2] at hi
  rw [h3]
  exact hs.2 i hi

theorem step_inv_partial (s s' : Net) (op : Op) (hs : Inv s) (ha : Admissible s op) (h : step s op = .ok s') :
    Inv s' := by
  cases op with
  | alloc n =>
    simp only [step] at h
    split at h
    · rename_i a s1 hal
      simp only [Except.ok.injEq] at h
      subst h
      exact alloc_inv s s1 n a hs hal
    · cases h
  | reattach c r p =>
    obtain ⟨rfl, hc, hr, hf⟩ := ha
    exact (reattach_inv_partial s s' c r hs hc hr hf h).1

/-- all sequences of allocate/reattach: the invariant holds after every admissible sequence -/
theorem run_inv_partial (ops : List Op) : ∀ (s s' : Net), Inv s → AdmissibleRun s ops → run s ops = .ok s' → Inv s' := by
  induction ops with
  | nil => intro s s' hs _ h; simp only [run, Except.ok.injEq] at h; subst h; exact hs
  | cons op ops ih =>
    intro s s' hs ha h
    simp only [run] at h
    split at h
    · rename_i s1 h1
      exact ih s1 s' (step_inv_partial s s1 op hs ha.1 h1) (ha.2 s1 h1) h
    · cases h

/-- F8 — `reattach_interface(…, proxy_nic=…)` with a proxy nic different from the server nic *always* leaves
    the registries inconsistent: the client interface refers to the proxy interface's netconfig, but no
    netconfig lists it (the code's own TODO).  Hence `reattach_inv_partial` cannot be extended to `p ≠ none`. -/
theorem reattach_proxy_breaks (s s' : Net) (c r pi : Nat) (hs : Inv s) (hc : c < s.nIf) (hpi : pi ≠ r)
    (h : reattach s c r (some pi) = .ok s') : ¬ Inv s' :=
  fun hs' => reattach_proxy_not_pinv s s' c r pi hs.1 hc hpi h hs'.1

/-! ## Non-vacuity and witnesses (concrete networks, evaluated by the kernel) -/

def holds (e : Except Err Net) (p : Net → Bool) : Bool :=
  match e with
  | .ok s => p s
  | .error _ => false

theorem holds_ok (e : Except Err Net) (p : Net → Bool) (h : holds e p = true) : ∃ s, e = .ok s ∧ p s = true := by
  cases e with
  | error x => simp [holds] at h
  | ok s => exact ⟨s, rfl, h⟩

def isOk (e : Except Err Net) : Bool := holds e (fun _ => true)

def failsWith (e : Except Err Net) (x : Err) : Bool :=
  match e with
  | .ok _ => false
  | .error y => decide (y = x)

/-- interface `i` is listed under its address by its own, registered netconfig -/
def listedB (s : Net) (i : Nat) : Bool :=
  match (s.iface i).nc with
  | some n => s.reg.any (fun p => p.2 == n) && (s.nc n).ifs.any (fun p => p.1 == (s.iface i).ip && p.2 == i)
  | none => false

theorem inv_listedB (s : Net) (i : Nat) (hs : Inv s) (hi : i < s.nIf) : listedB s i = true := by
  obtain ⟨n, hn⟩ := Option.isSome_iff_exists.1 (hs.2 i hi)
  obtain ⟨⟨k, hk⟩, h2, _⟩ := hs.1.placed i n hi (by omega) hn
  simp only [listedB, hn, Bool.and_eq_true, List.any_eq_true, beq_iff_eq]
  exact ⟨⟨(k, n), hk, rfl⟩, ⟨_, h2, rfl, rfl⟩⟩

/-- executable form of `FreshAt` -/
def freshB (s : Net) (r : Nat) : Bool :=
  match (s.iface r).nc with
  | none => true
  | some tn =>
    match freeOffsets (s.nc tn).range with
    | [] => true
    | o :: _ => (List.range s.nIf).all (fun j => (s.iface j).ip != (s.nc tn).netIp + o)

theorem freshB_sound (s : Net) (r : Nat) (h : freshB s r = true) : FreshAt s r := by
  intro tn o l htn hfree j hj
  simp only [freshB, htn, hfree, List.all_eq_true, List.mem_range, bne_iff_ne] at h
  exact h j hj

/-- the network of `selftests/isolation/test_vm_network.py`: vm1 = 10.1.0.1/16, 172.17.0.1/16;
    vm2 = 10.2.0.1/16, 172.18.0.1/16; default range 100-200 -/
def inpA : List Iface :=
  [⟨167837697, 4294901760, none, 100, 200, none⟩, ⟨2886795265, 4294901760, none, 100, 200, none⟩,
   ⟨167903233, 4294901760, none, 100, 200, none⟩, ⟨2886860801, 4294901760, none, 100, 200, none⟩]

theorem inpA_distinct : (inpA.map (·.ip)).Nodup := by decide
theorem inpA_noShadow : NoShadow inpA := by unfold NoShadow; decide

/-- `build_inv_partial`, `reattach_inv_partial`, `run_inv_partial` are not vacuous: the selftest network is built,
    an admissible allocate/reattach/reattach sequence runs through, and the invariant holds afterwards -/
theorem nonvacuous_registry : ∃ s s', build inpA = .ok s ∧ Inv s ∧
    AdmissibleRun s [.alloc 3, .reattach 0 3 none, .reattach 2 1 none] ∧
    run s [.alloc 3, .reattach 0 3 none, .reattach 2 1 none] = .ok s' ∧ Inv s' := by
  have hc : holds (build inpA) (fun s =>
      holds (step s (.alloc 3)) (fun s1 => freshB s1 3 && holds (step s1 (.reattach 0 3 none)) (fun s2 =>
        freshB s2 1 && isOk (step s2 (.reattach 2 1 none))))) = true := by decide +kernel
  obtain ⟨s, hb, h1⟩ := holds_ok _ _ hc
  obtain ⟨s1, hs1, h2⟩ := holds_ok _ _ h1
  simp only [Bool.and_eq_true] at h2
  obtain ⟨s2, hs2, h3⟩ := holds_ok _ _ h2.2
  simp only [Bool.and_eq_true] at h3
  obtain ⟨s3, hs3, _⟩ := holds_ok _ _ h3.2
  obtain ⟨hinv, _, hn⟩ := build_inv_partial inpA s inpA_distinct inpA_noShadow hb
  have hinv1 : Inv s1 := step_inv_partial s s1 (.alloc 3) hinv trivial hs1
  have hn1 : s1.nIf = 4 := by
    simp only [step] at hs1
    split at hs1
    · rename_i a t hal
      simp only [Except.ok.injEq] at hs1; subst hs1
      rw [(allocAt_pinv s _ 3 a hinv.1 hal).2.1, hn]; rfl
    · cases hs1
  have ha1 : Admissible s1 (.reattach 0 3 none) := ⟨rfl, by omega, by omega, freshB_sound _ _ h2.1⟩
  have hinv2 := reattach_inv_partial s1 s2 0 3 hinv1 (by omega) (by omega) (freshB_sound _ _ h2.1) hs2
  have ha2 : Admissible s2 (.reattach 2 1 none) :=
    ⟨rfl, by rw [hinv2.2]; omega, by rw [hinv2.2]; omega, freshB_sound _ _ h3.1⟩
  have hadm : AdmissibleRun s [.alloc 3, .reattach 0 3 none, .reattach 2 1 none] := by
    refine ⟨trivial, ?_⟩
    intro t ht; rw [hs1] at ht; cases ht
    refine ⟨ha1, ?_⟩
    intro t ht; rw [hs2] at ht; cases ht
    exact ⟨ha2, fun _ _ => trivial⟩
  have hrun : run s [.alloc 3, .reattach 0 3 none, .reattach 2 1 none] = .ok s3 := by
    simp only [run, hs1, hs2, hs3]
  exact ⟨s, s3, hb, hinv, hadm, hrun, run_inv_partial _ s s3 hinv hadm hrun⟩

/-- `reattach_proxy_breaks` is not vacuous: the call of `test_reattach_interface`
    (`reattach_interface(client, server, proxy_nic="b1")`) succeeds on the selftest network -/
theorem witness_proxy_nic : ∃ s s', build inpA = .ok s ∧ Inv s ∧ reattach s 0 3 (some 2) = .ok s' ∧ ¬ Inv s' := by
  have hc : holds (build inpA) (fun s => isOk (reattach s 0 3 (some 2))) = true := by decide +kernel
  obtain ⟨s, hb, h1⟩ := holds_ok _ _ hc
  obtain ⟨s', hs', _⟩ := holds_ok _ _ h1
  obtain ⟨hinv, _, hn⟩ := build_inv_partial inpA s inpA_distinct inpA_noShadow hb
  exact ⟨s, s', hb, hinv, hs', reattach_proxy_breaks s s' 0 3 2 hinv (by rw [hn]; decide) (by decide) hs'⟩

/-- 10.1.0.100/16 (inside the default range 100-200 of its own netconfig) and 10.2.0.1/16 -/
def inpP : List Iface :=
  [⟨167837796, 4294901760, none, 100, 200, none⟩, ⟨167903233, 4294901760, none, 100, 200, none⟩]

/-- `reattach_inv_partial` needs `FreshAt`: the allocator hands out 10.1.0.100 although the statically
    configured interface 0 has it; interface 0 is overwritten in the netconfig's `interfaces`. -/
theorem witness_pool_collision : ∃ s s', build inpP = .ok s ∧ Inv s ∧ reattach s 1 0 none = .ok s' ∧ ¬ Inv s' := by
  have hc : holds (build inpP) (fun s => holds (reattach s 1 0 none) (fun s' => !listedB s' 0 && s'.nIf == 2)) = true := by
    decide +kernel
  obtain ⟨s, hb, h1⟩ := holds_ok _ _ hc
  obtain ⟨s', hs', h2⟩ := holds_ok _ _ h1
  simp only [Bool.and_eq_true, Bool.not_eq_true', beq_iff_eq] at h2
  obtain ⟨hinv, _, _⟩ := build_inv_partial inpP s (by decide) (by unfold NoShadow; decide) hb
  refine ⟨s, s', hb, hinv, hs', ?_⟩
  intro hinv'
  have := inv_listedB s' 0 hinv' (by rw [h2.2]; decide)
  rw [h2.1] at this; cases this

/-- 10.0.0.5/16 first, then 10.1.0.1/8: both subnets have the network address 10.0.0.0 -/
def inpN : List Iface :=
  [⟨167772165, 4294901760, none, 100, 200, none⟩, ⟨167837697, 4278190080, none, 100, 200, none⟩]

/-- `build_inv_partial` needs `NoShadow`: the construction succeeds for distinct addresses, but the /8 netconfig
    replaces the /16 one under the key 10.0.0.0 and interface 0 is left in an unregistered netconfig.
    (In the opposite order `can_add_interface` raises `IndexError`.) -/
theorem witness_nested_subnet : (inpN.map (·.ip)).Nodup ∧ ¬ NoShadow inpN ∧
    (∃ s, build inpN = .ok s ∧ ¬ Inv s) ∧ failsWith (build inpN.reverse) .indexError = true := by
  refine ⟨by decide, ?_, ?_, by decide +kernel⟩
  · unfold NoShadow; decide
  · have hc : holds (build inpN) (fun s => !listedB s 0 && s.nIf == 2) = true := by decide +kernel
    obtain ⟨s, hb, h2⟩ := holds_ok _ _ hc
    simp only [Bool.and_eq_true, Bool.not_eq_true', beq_iff_eq] at h2
    refine ⟨s, hb, ?_⟩
    intro hinv
    have := inv_listedB s 0 hinv (by rw [h2.2]; decide)
    rw [h2.1] at this; cases this

/-! ## Translator tie: `I2N.Extracted.GenNet` (regenerated from `avocado_i2n/vmnet/netconfig.py` on every run by
`harness/pygen_pxnet.py`) equals the hand model, for ALL inputs

The generated definitions compute with Python's integers (`Int`); the hand model with `Nat`.  The adapter is always
`Int.ofNat` on the returned address, spelled out in each statement. -/
section TranslatorTie
open I2N.Extracted.GenNet

/-- the range map is a Python `dict`: no key twice (the model's association lists also contain non-dictionaries) -/
def RangeIsDict (c : Netconfig) : Prop := (c.range.map (·.1)).Nodup

/-- every netconfig the code constructs has a dictionary as range map … -/
theorem fromInterface_rangeIsDict (f : Iface) : RangeIsDict (fromInterface f) := by
  unfold RangeIsDict fromInterface mkRange
  simp only [List.map_map]
  have : ((fun p : Nat × Bool => p.1) ∘ fun o => (o, false)) = id := by funext o; rfl
  rw [this, List.map_id]
  exact List.nodup_range' (step := 1) (by omega)

/-- … and allocation keeps it one -/
theorem allocate_rangeIsDict (c c' : Netconfig) (a : Nat) (h : RangeIsDict c) (ha : allocate c = .ok (a, c')) :
    RangeIsDict c' := by
  unfold RangeIsDict at *
  unfold allocate at ha
  cases hr : allocRange c.range with
  | none => rw [hr] at ha; cases ha
  | some p =>
    obtain ⟨o, r'⟩ := p
    rw [hr] at ha
    simp only at ha
    split at ha
    · cases ha
    · simp only [Except.ok.injEq, Prod.mk.injEq] at ha
      obtain ⟨_, rfl⟩ := ha
      rw [(allocRange_some c.range o r' hr).2]; exact h

/-- `VMNetconfig.get_allocatable_address` (the loop over the range map, the first-free search, the `IndexError` when
    it is exhausted, the `AddressValueError` of the address arithmetic): the generated definition is the model's
    `allocate` — same address, same updated netconfig, same exception — for every netconfig whose range map is a
    dictionary. -/
theorem allocate_matches_source (c : Netconfig) (h : RangeIsDict c) :
    genAllocate c = (allocate c).map (fun p => (Int.ofNat p.1, p.2)) := by
  unfold genAllocate allocate
  rw [find_rangeKeys c h, allocRange_eq_find c.range h]
  cases c.range.find? (fun x => x.2 == false) with
  | none => rfl
  | some x =>
    simp only [Option.map_some]
    simp only [genAllocFound, markTaken, readNc, ipv4, bind, StateT.bind, pure, Except.bind,
      Except.pure, liftM, monadLift, MonadLift.monadLift, StateT.lift, Except.map]
    have ht : (Int.ofNat x.1).toNat = x.1 := by simp
    rw [ht]
    by_cases hge : c.netIp + x.1 ≥ ipSpace
    · have : Int.ofNat c.netIp + Int.ofNat x.1 < 0 ∨ Int.ofNat c.netIp + Int.ofNat x.1 ≥ (ipSpace : Int) := by
        right; simp only [Int.ofNat_eq_natCast]; omega
      rw [if_pos this, if_pos hge]
    · have : ¬ (Int.ofNat c.netIp + Int.ofNat x.1 < 0 ∨ Int.ofNat c.netIp + Int.ofNat x.1 ≥ (ipSpace : Int)) := by
        simp only [Int.ofNat_eq_natCast]; omega
      rw [if_neg this, if_neg hge]
      simp

/-- the hypothesis is needed: on an association list that is not a dictionary the model walks the entries, the code
    looks every key up again -/
example : let c : Netconfig := { netIp := 0, netmask := 0, host := none, range := [(1, true), (1, false)], ifs := [] }
    genAllocate c = .error .indexError ∧ (allocate c).map (fun p => (Int.ofNat p.1, p.2)) ≠ .error .indexError := by
  constructor
  · rfl
  · intro h; cases h

/-- `VMNetconfig.has_interface`: membership of the address AND identity of the object found (the dictionary read
    behind `and` is only made when the key is present, so no `KeyError`) -/
theorem hasInterface_matches_source (c : Netconfig) (i : Nat) (f : Iface) :
    genHasInterface c i f = .ok (hasInterface c i f) := by
  unfold genHasInterface hasInterface ifsGet
  have hk := alookup_isSome_iff_hasKey f.ip c.ifs
  cases hl : alookup f.ip c.ifs with
  | none =>
    rw [hl] at hk
    have : hasKey f.ip c.ifs = false := by simpa using hk.symm
    simp [this, pure, Except.pure]
  | some j =>
    rw [hl] at hk
    have : hasKey f.ip c.ifs = true := by simpa using hk.symm
    simp [this, pure, Except.pure, bind, Except.bind]

/-- `VMNetconfig.can_add_interface`: the order of the three tests, both `IndexError`s, the comparisons of network
    address and netmask, the returned Boolean -/
theorem canAdd_matches_source (c : Netconfig) (i : Nat) (f : Iface) : genCanAdd c i f = canAdd c i f := by
  unfold genCanAdd canAdd
  rw [hasInterface_matches_source]
  cases hasInterface c i f with
  | true => rfl
  | false =>
    by_cases h1 : networkIp f.ip c.bits = c.netIp <;> by_cases h2 : f.netmask = c.netmask <;>
      simp [h1, h2, bind, Except.bind, pure, Except.pure, throw, throwThe, MonadExceptOf.throw]

/-- `VMNetconfig.add_interface`: store under the address, set the back reference of the object stored there, validate
    (in this order; the state is dropped when `validate` raises, as in the model) -/
theorem addInterface_matches_source (s : Net) (n i : Nat) :
    genAddInterface n i s = (addInterface s n i).map (fun s' => ((), s')) := by
  unfold genAddInterface addInterface
  simp only [storeIface, setStoredNetconfig, validate_, bind, StateT.bind, pure, StateT.pure, Except.bind, Except.pure,
    Except.map]
  have : alookup (s.iface i).ip ((s.setNc n fun c => { c with ifs := aset (s.iface i).ip i c.ifs }).nc n).ifs = some i := by
    simp only [Net.setNc, if_true]
    exact alookup_aset_self _ _ _
  have hi : (s.setNc n fun c => { c with ifs := aset (s.iface i).ip i c.ifs }).iface i = s.iface i := rfl
  rw [hi, this]
  simp only
  cases validate _ n <;> rfl

/-- `VMNetconfig.translate_address`: Python's integer arithmetic `int(ip) - int(net_ip) + int(network(nat_ip))` with
    the range check of `ipaddress.IPv4Address(<integer>)` is the model's guarded natural number arithmetic; the
    network address of `nat_ip` is the atom `networkIp` on both sides -/
theorem translate_matches_source (c : Netconfig) (ip nat : Nat) :
    genTranslate c ip nat = (translate c ip nat).map Int.ofNat := by
  unfold genTranslate translate ipv4
  simp only [bind, Except.bind, pure, Except.pure, Except.map, Int.ofNat_eq_natCast]
  by_cases h : ip + networkIp nat c.bits < c.netIp ∨ ip + networkIp nat c.bits - c.netIp ≥ ipSpace
  · have : ((ip : Int) - (c.netIp : Int) + (networkIp nat c.bits : Int) < 0
        ∨ (ip : Int) - (c.netIp : Int) + (networkIp nat c.bits : Int) ≥ (ipSpace : Int)) := by omega
    rw [if_pos this, if_pos h]
  · have : ¬ ((ip : Int) - (c.netIp : Int) + (networkIp nat c.bits : Int) < 0
        ∨ (ip : Int) - (c.netIp : Int) + (networkIp nat c.bits : Int) ≥ (ipSpace : Int)) := by omega
    rw [if_neg this, if_neg h]
    simp only [Except.ok.injEq]
    omega

/-- the getter of `VMNetconfig.mask_bit` — the four octets of the dotted netmask expanded by
    `bin(int(octet))[2:].zfill(8)`, concatenated, `rstrip("0")`, `len` — is the model's `maskBit` (`32 -` the number of
    trailing zero bits), for EVERY netmask (also non-contiguous ones); `m` is the netmask as a number and `octets m`
    its dotted form -/
theorem maskBit_matches_source (m : Nat) : genMaskBit m = Int.ofNat (maskBit m) := genMaskBit_eq m

example : genMaskBit 4294967040 = 24 ∧ genMaskBit 4278255360 = 24 ∧ genMaskBit 0 = 0 := by
  simp only [maskBit_matches_source]; decide

example : RangeIsDict (fromInterface { ip := 167837954, netmask := 4294967040, host := none, lo := 100, hi := 102, nc := none }) :=
  fromInterface_rangeIsDict _

end TranslatorTie

section TranslatorTieNetwork
open I2N.Extracted.GenNet I2N.Extracted.GenNetwork

/-- the key just stored is present -/
theorem hasKey_aset_self {α : Type} (k : Nat) (v : α) (l : List (Nat × α)) : hasKey k (aset k v l) = true := by
  rw [← alookup_isSome_iff_hasKey, alookup_aset_self]; rfl

/-- two stores into the same interface object are one store -/
theorem setIface_setIface (s : Net) (i : Nat) (f g : Iface → Iface) :
    (s.setIface i f).setIface i g = s.setIface i (fun x => g (f x)) := by
  unfold Net.setIface
  congr 1
  funext j
  by_cases h : j = i <;> simp [h]

/-- the proxy selection of `reattach_interface` (`proxy_nic != "" and proxy_nic != server_nic`, then the lookup of the
    proxy interface, which would be a `KeyError` for the empty name) is the model's `if p = some r then none else p`;
    it never raises and leaves the state alone -/
theorem reattachProxy_matches_source (r : Nat) (p : Option Nat) (s : Net) :
    genReattachProxy r p s = .ok ((if p = some r then none else p), s) := by
  unfold genReattachProxy genReattachProxySelected lookupNic
  cases p with
  | none => rfl
  | some q =>
    by_cases h : q = r
    · subst h
      simp [Id.run, pure, StateT.pure, Except.pure]
    · have h1 : ((some q : Option Nat) == some r) = false := by simp [h]
      have h0 : ((some q : Option Nat) == none) = false := by simp
      simp [Id.run, pure, StateT.pure, Except.pure, bind, StateT.bind, Except.bind, h, h0, h1]

/-- the attach part of `reattach_interface` — detach from the OLD netconfig (`KeyError` when the address is not
    registered there), allocate in the new one, store the address, `add_interface` — is the first half of the model's
    `reattach`, given the two netconfig references -/
theorem reattachAttach_eq (s : Net) (c tn on : Nat) (hc : (s.iface c).nc = some on) :
    genReattachAttach c tn s =
      (if !hasKey (s.iface c).ip (s.nc on).ifs then .error .keyError else
        let s1 := s.setNc on (fun k => { k with ifs := adel (s.iface c).ip k.ifs })
        match allocate (s1.nc tn) with
        | .error e => .error e
        | .ok (a, k') =>
          (addInterface ((s1.setNc tn (fun _ => k')).setIface c (fun f => { f with ip := a })) tn c).map
            (fun s' => ((), s'))) := by
  unfold genReattachAttach
  simp only [ncOf, ipOf, delIfs, allocM, setIp, bind, StateT.bind, pure, StateT.pure, Except.bind, Except.pure, hc]
  by_cases hk : hasKey (s.iface c).ip (s.nc on).ifs = true
  · simp only [hk, Bool.not_true, Bool.false_eq_true, if_false]
    cases allocate ((s.setNc on fun k => { k with ifs := adel (s.iface c).ip k.ifs }).nc tn) with
    | error e => rfl
    | ok q =>
      obtain ⟨a, k'⟩ := q
      simp only [addInterface_matches_source]
      cases addInterface _ tn c <;> rfl
  · have hk' : hasKey (s.iface c).ip (s.nc on).ifs = false := by simpa using hk
    simp only [hk', Bool.not_false, if_true]

/-- `VMNetwork.reattach_interface` (avocado_i2n/vmnet/network.py): the generated definition — pinned head (the nic
    roles resolved to the interface objects `c`, `r`), translated proxy selection, translated attach part (detach from
    the old netconfig, allocate in the new one, `add_interface`), translated proxy part, pinned tail — is the model's
    `reattach`, for every network state, every pair of interfaces and every proxy nic (without and with proxy): same
    final registry, same exception. -/
theorem reattach_matches_source (s : Net) (c r : Nat) (p : Option Nat) :
    genReattach c r p s = (reattach s c r p).map (fun s' => ((), s')) := by
  unfold genReattach reattach
  simp only [bind, StateT.bind, Except.bind, reattachProxy_matches_source]
  generalize (if p = some r then none else p) = p'
  cases hr : (s.iface r).nc with
  | none => simp only [ncOf, hr]; rfl
  | some tn =>
    simp only [ncOf, hr]
    cases hc : (s.iface c).nc with
    | none =>
      simp only [genReattachAttach, ncOf, hc, bind, StateT.bind, Except.bind]; rfl
    | some on =>
      rw [reattachAttach_eq s c tn on hc]
      by_cases hk : hasKey (s.iface c).ip (s.nc on).ifs = true
      · simp only [hk, Bool.not_true, Bool.false_eq_true, if_false]
        cases allocate ((s.setNc on fun k => { k with ifs := adel (s.iface c).ip k.ifs }).nc tn) with
        | error e => rfl
        | ok q =>
          obtain ⟨a, k'⟩ := q
          simp only
          cases hadd : addInterface (((s.setNc on fun k => { k with ifs := adel (s.iface c).ip k.ifs }).setNc tn
              fun _ => k').setIface c fun f => { f with ip := a }) tn c with
          | error e => rfl
          | ok s3 =>
            simp only [Except.map]
            cases p' with
            | none => rfl
            | some pi =>
              -- what `add_interface` left behind: the address of `c` is `a` and it is registered in `tn`
              have h3 : (s3.iface c).ip = a ∧ hasKey a (s3.nc tn).ifs = true := by
                unfold addInterface at hadd
                simp only at hadd
                split at hadd
                · cases hadd
                · cases hadd
                  constructor
                  · simp [Net.setIface, Net.setNc]
                  · simp only [Net.setIface, Net.setNc, if_true]
                    exact hasKey_aset_self _ _ _
              simp only [genReattachProxyPart, ipOf, delIfs, setIp, setNcRef, ncOf, allocM, bind, StateT.bind, pure,
                StateT.pure, Except.bind, Except.pure, h3.1, h3.2, Bool.not_true, Bool.false_eq_true, if_false]
              generalize hs5 : ((s3.setNc tn fun k => { k with ifs := adel a k.ifs }).setIface r fun f =>
                { f with ip := ((s3.setNc tn fun k => { k with ifs := adel a k.ifs }).iface pi).ip }) = s5
              cases hp : (s5.iface pi).nc with
              | none => rfl
              | some pn =>
                simp only
                cases allocate (s5.nc pn) with
                | error e => rfl
                | ok q2 =>
                  obtain ⟨a2, k2⟩ := q2
                  have hpi : (((s5.setNc pn fun _ => k2).setIface c fun f => { f with ip := a2 }).iface pi).nc = some pn := by
                    simp only [Net.setIface, Net.setNc]
                    by_cases h : pi = c
                    · simp only [h, if_true]; rw [← h]; exact hp
                    · simp only [h, if_false]; exact hp
                  simp only [hpi, setIface_setIface]
      · have hk' : hasKey (s.iface c).ip (s.nc on).ifs = false := by simpa using hk
        simp only [hk', Bool.not_false, if_true]
        rfl

/-- a concrete run through both translated parts: the selftest call with `proxy_nic="b1"` -/
example : ∃ s s', reattach s 0 3 (some 2) = .ok s' ∧ genReattach 0 3 (some 2) s = .ok ((), s') := by
  obtain ⟨s, s', _, _, h, _⟩ := witness_proxy_nic
  exact ⟨s, s', h, by rw [reattach_matches_source, h]; rfl⟩

/-! ### `VMNetconfig.validate` -/

/-- the range check of `IPv4Address(net_ip) + offset` in natural numbers -/
theorem ipv4_add (a b : Nat) :
    ipv4 (Int.ofNat a + Int.ofNat b) = if a + b ≥ ipSpace then .error .valueError else .ok (Int.ofNat (a + b)) := by
  unfold ipv4
  simp only [Int.ofNat_eq_natCast]
  by_cases h : a + b ≥ ipSpace
  · have : ((a : Int) + (b : Int) < 0 ∨ (a : Int) + (b : Int) ≥ (ipSpace : Int)) := by omega
    rw [if_pos this, if_pos h]
  · have : ¬ ((a : Int) + (b : Int) < 0 ∨ (a : Int) + (b : Int) ≥ (ipSpace : Int)) := by omega
    rw [if_neg this, if_neg h]
    simp

theorem ipStartIface_eq (c : Netconfig) :
    ipStartIface c = if c.netIp + minOff c.range ≥ ipSpace then .error .valueError
      else .ok (c.netIp + minOff c.range, c.bits) := by
  unfold ipStartIface
  rw [ipv4_add]
  by_cases h : c.netIp + minOff c.range ≥ ipSpace
  · simp only [h, if_true]; rfl
  · simp only [h, if_false]; simp [bind, Except.bind, pure, Except.pure]; omega

theorem ipEndIface_eq (c : Netconfig) :
    ipEndIface c = if c.netIp + maxOff c.range ≥ ipSpace then .error .valueError
      else .ok (c.netIp + maxOff c.range, c.bits) := by
  unfold ipEndIface
  rw [ipv4_add]
  by_cases h : c.netIp + maxOff c.range ≥ ipSpace
  · simp only [h, if_true]; rfl
  · simp only [h, if_false]; simp [bind, Except.bind, pure, Except.pure]; omega

/-- the body of the interface loop of `validate`: the two asserts (in this order, the `KeyError` of the dictionary
    read between them) and the `TestError` -/
theorem validateIfaces_matches_source (s : Net) (n : Nat) (c : Netconfig) (l : List (Nat × Nat)) :
    genValidateIfaces s n c l = validateIfs s n c l := by
  induction l with
  | nil => rfl
  | cons x rest ih =>
    obtain ⟨k, i⟩ := x
    simp only [genValidateIfaces, validateIfs, genValidateIface, ifsGet, bind, Except.bind, pure,
      Except.pure, throw, throwThe, MonadExceptOf.throw]
    by_cases h1 : (s.iface i).nc = some n
    · cases hl : alookup (s.iface i).ip c.ifs with
      | none => simp [h1]
      | some j =>
        by_cases h2 : j = i
        · by_cases h3 : inNet c (s.iface i).ip = true
          · simp [h1, h2, h3, ih, inNetwork]
          · have h3' : inNet c (s.iface i).ip = false := by simpa using h3
            simp [h1, h2, h3', inNetwork]
        · simp [h1, h2]
    · simp [h1]

/-- the loop over the address dictionary: `TestError` for the first address outside the own network -/
theorem validateAddrs_eq (c : Netconfig) (l : List IpIface) :
    genValidateAddrs c l = (match l.all (fun a => inNetwork c a) with | true => .ok () | false => .error .testError) := by
  induction l with
  | nil => rfl
  | cons a rest ih =>
    rw [List.all_cons]
    cases hx : inNetwork c a with
    | false =>
      simp only [genValidateAddrs, genValidateAddress, hx, bind, Except.bind, throw, throwThe, MonadExceptOf.throw,
        Bool.false_and]
      rfl
    | true =>
      simp only [genValidateAddrs, genValidateAddress, hx, bind, Except.bind, pure, Except.pure, ih, Bool.true_and]
      rfl

/-- `VMNetconfig.validate`: the generated definition — the address dictionary (host only when defined and non-empty,
    `ip_start`, `ip_end` with their `AddressValueError`), the `TestError` loop over it, the loop over the interfaces
    with its two asserts, the `KeyError` and the `TestError` — is the model's `validate`, for every network state and
    every netconfig: same exception or none. -/
theorem validate_matches_source (s : Net) (n : Nat) : genValidate s n = validate s n := by
  unfold genValidate validate
  simp only [genValidateAddresses, ipStartIface_eq, ipEndIface_eq, validateIfaces_matches_source, validateAddrs_eq,
    bind, Except.bind, pure, Except.pure]
  by_cases hs : (s.nc n).netIp + minOff (s.nc n).range ≥ ipSpace
  · simp [hs]
  · by_cases he : (s.nc n).netIp + maxOff (s.nc n).range ≥ ipSpace
    · simp [hs, he]
    · cases hh : (s.nc n).host with
      | none =>
        cases h1 : inNet (s.nc n) ((s.nc n).netIp + minOff (s.nc n).range) <;>
          cases h2 : inNet (s.nc n) ((s.nc n).netIp + maxOff (s.nc n).range) <;>
          simp [hs, he, hh, h1, h2, hostOutside, inNetwork]
      | some h =>
        cases h0 : inNet (s.nc n) h <;>
          cases h1 : inNet (s.nc n) ((s.nc n).netIp + minOff (s.nc n).range) <;>
          cases h2 : inNet (s.nc n) ((s.nc n).netIp + maxOff (s.nc n).range) <;>
          simp [hs, he, hh, h0, h1, h2, hostOutside, inNetwork]

/-- `add_interface` with the generated `validate` inside (the atom `validate_` of `genAddInterface` is the hand
    model's `validate`, which is the generated one) -/
theorem validate__eq_genValidate (n : Nat) (s : Net) :
    validate_ n s = match genValidate s n with | .error e => .error e | .ok () => .ok ((), s) := by
  rw [validate_matches_source]; rfl

/-- a run of the generated `validate` that passes every check, on the selftest network -/
example : ∃ s, build inpA = .ok s ∧ genValidate s 0 = .ok () := by
  have hc : holds (build inpA) (fun s => match validate s 0 with | .ok () => true | .error _ => false) = true := by
    decide +kernel
  obtain ⟨s, hb, h1⟩ := holds_ok _ _ hc
  refine ⟨s, hb, ?_⟩
  rw [validate_matches_source]
  cases hv : validate s 0 with
  | error e => rw [hv] at h1; cases h1
  | ok u => rfl

/-! ### `VMNetwork.integrate_node` -/

/-- the inner `for netconfig in self.netconfigs.values(): if netconfig.can_add_interface(interface): …; break` is the
    model's `findNc`: the first registered netconfig that accepts the interface, the exception of the first
    `can_add_interface` that raises, the state untouched -/
theorem findNc_matches_source (s : Net) (i : Nat) (l : List (Nat × Nat)) :
    genFindNc i l s = (findNc s i l).map (fun o => (o, s)) := by
  induction l with
  | nil => rfl
  | cons x rest ih =>
    obtain ⟨k, n⟩ := x
    simp only [genFindNc, findNc, genIntegrateTest, canAddM, canAdd_matches_source, bind, StateT.bind, Except.bind,
      pure]
    cases canAdd (s.nc n) i (s.iface i) with
    | error e => rfl
    | ok b => cases b <;> simp [ih, Except.map, pure, StateT.pure, Except.pure]

/-- `new_netconfig()` followed by `from_interface(interface)` is the model's one step creation -/
theorem newNetconfig_state (s : Net) (i : Nat) :
    ({ s with nNc := s.nNc + 1, nc := fun m => if m = s.nNc then default else s.nc m } : Net).setNc s.nNc
        (fun _ => fromInterface (s.iface i)) =
      { s with nNc := s.nNc + 1, nc := fun m => if m = s.nNc then fromInterface (s.iface i) else s.nc m } := by
  unfold Net.setNc
  congr 1
  funext m
  by_cases h : m = s.nNc <;> simp [h]

/-- `add_interface` does not change the network address of the netconfig -/
theorem addInterface_netIp (s s2 : Net) (n i : Nat) (h : addInterface s n i = .ok s2) :
    (s2.nc n).netIp = (s.nc n).netIp := by
  unfold addInterface at h
  simp only at h
  split at h
  · cases h
  · cases h; simp [Net.setIface, Net.setNc]

/-- the body of the second loop of `integrate_node` for one interface — the for/else over the registered netconfigs,
    `add_interface` to the first that accepts it, otherwise a NEW netconfig made from the interface, `add_interface`,
    and only then the registration under its network address — is the model's `place` -/
theorem place_matches_source (s : Net) (i : Nat) : genPlace i s = (place s i).map (fun s' => ((), s')) := by
  unfold genPlace place
  simp only [registered, bind, StateT.bind, Except.bind, findNc_matches_source]
  cases findNc s i s.reg with
  | error e => rfl
  | ok o =>
    cases o with
    | some n =>
      simp only [Except.map, genIntegrateFound, addInterface_matches_source, bind, StateT.bind, Except.bind]
      cases addInterface s n i <;> rfl
    | none =>
      simp only [Except.map, genIntegrateNew, newNetconfig, fromInterfaceM, registerNc, addInterface_matches_source,
        bind, StateT.bind, Except.bind, newNetconfig_state]
      cases hadd : addInterface ({ s with nNc := s.nNc + 1, nc := fun m => if m = s.nNc then fromInterface (s.iface i) else s.nc m } : Net) s.nNc i with
      | error e => rfl
      | ok s2 =>
        have := addInterface_netIp _ s2 s.nNc i hadd
        simp only [if_true] at this
        simp only [this]
        rfl

theorem placeAll_matches_source (l : List Nat) : ∀ s : Net,
    genPlaceAll l s = (placeAll s l).map (fun s' => ((), s')) := by
  induction l with
  | nil => intro s; rfl
  | cons i rest ih =>
    intro s
    simp only [genPlaceAll, placeAll, bind, StateT.bind, Except.bind, place_matches_source]
    cases place s i with
    | error e => rfl
    | ok s' => simp only [Except.map, ih]

/-- `VMNetwork.integrate_node` (avocado_i2n/vmnet/network.py): the generated definition — pinned guards and first loop
    (the new interface objects `first … first+count-1`), then for every interface the translated for/else over the
    registered netconfigs — is the model's `integrateNode`, for every network state and every number of nics: same
    final registry, same exception. -/
theorem integrateNode_matches_source (s : Net) (first count : Nat) :
    genIntegrateNode first count s = (integrateNode s first count).map (fun s' => ((), s')) :=
  placeAll_matches_source _ s

/-- a concrete run through both parts (a new netconfig, then a second interface added to it) -/
example : ∃ s', integrateNode (init inpA) 0 2 = .ok s' ∧ genIntegrateNode 0 2 (init inpA) = .ok ((), s') := by
  have h : isOk (integrateNode (init inpA) 0 2) = true := by decide +kernel
  cases hi : integrateNode (init inpA) 0 2 with
  | error e => rw [hi] at h; cases h
  | ok s' => exact ⟨s', rfl, by rw [integrateNode_matches_source, hi]; rfl⟩

/-! ### `VMNetwork.__init__` -/

theorem placeAll_append (l1 l2 : List Nat) : ∀ s : Net,
    placeAll s (l1 ++ l2) = (match placeAll s l1 with | .error e => .error e | .ok s' => placeAll s' l2) := by
  induction l1 with
  | nil => intro s; rfl
  | cons i rest ih =>
    intro s
    simp only [List.cons_append, placeAll]
    cases place s i with
    | error e => rfl
    | ok s' => exact ih s'

/-- the loop of the constructor over the vms, each with its own `integrate_node`, is one `placeAll` over all interface
    objects in creation order -/
theorem genInit_eq (counts : List Nat) : ∀ (first : Nat) (s : Net),
    genInit first counts s = (placeAll s (List.range' first counts.sum)).map (fun s' => ((), s')) := by
  induction counts with
  | nil => intro first s; rfl
  | cons k rest ih =>
    intro first s
    have hr : List.range' first (k :: rest).sum = List.range' first k ++ List.range' (first + k) rest.sum := by
      rw [List.sum_cons, List.range'_append_1]
    rw [hr, placeAll_append]
    simp only [genInit, genInitNode, newNode, bind, StateT.bind, Except.bind, pure, StateT.pure, Except.pure]
    have := integrateNode_matches_source s first k
    unfold integrateNode at this
    rw [this]
    cases placeAll s (List.range' first k) with
    | error e => rfl
    | ok s' => simp only [Except.map]; exact ih (first + k) s'

/-- `VMNetwork.__init__` (avocado_i2n/vmnet/network.py): the generated loop over the vms — for every vm a node object
    and `integrate_node` (translated), the vm lookup pinned, the registry empty in front of the loop (checked) — run on
    the model's initial state is the model's `build`, for every list of interfaces and every split of them into vms
    (`counts` = the number of nics of every vm, in order). -/
theorem init_matches_source (inp : List Iface) (counts : List Nat) (h : counts.sum = inp.length) :
    genInit 0 counts (init inp) = (build inp).map (fun s' => ((), s')) := by
  rw [genInit_eq, h]
  unfold build
  rw [List.range_eq_range']

/-- non-vacuity: the selftest network, two vms with two nics each -/
example : ([2, 2] : List Nat).sum = inpA.length := by decide

example : ∃ s', build inpA = .ok s' ∧ genInit 0 [2, 2] (init inpA) = .ok ((), s') := by
  have h : isOk (build inpA) = true := by decide +kernel
  cases hi : build inpA with
  | error e => rw [hi] at h; cases h
  | ok s' => exact ⟨s', rfl, by rw [init_matches_source inpA [2, 2] (by decide), hi]; rfl⟩

end TranslatorTieNetwork

end I2N.Props.C18
