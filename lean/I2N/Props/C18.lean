import I2N.Model.Net
namespace I2N.Props.C18
theorem placeholder : True := trivial
end I2N.Props.C18
