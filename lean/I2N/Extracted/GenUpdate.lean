/- GENERATED on every run by harness/pygen_pxupdate.py:extract_update (called by harness/props/c15.py:extract) from avocado_i2n/intertest_setup.py and avocado_i2n/cartgraph/graph.py — do not edit.
   Translator: harness/pygen.py (Python AST -> Lean `do` block, fails closed).  The equality with the hand
   written model is proved in the Props file that imports this module. -/
import I2N.Lemmas.ToolsUpdate
namespace I2N.Extracted.GenUpdate
open I2N.Tools

/-- the front part of the worker loop body of `intertest_setup.update` (up to the `try` that parses the remove-set graph): the restriction `setup_str` handed to the parser — `remove_set` of THE VM (`vm_params = config["vms_params"].object_params(vm_name)`, pinned), default `leaves`, prefixed with `all..` unless it mentions an available restriction (`param.re_str` wraps it into `only …`: the parser oracle `env.parseClean` is keyed by the restriction itself); the statements that build `setup_dict` are pinned -/
def genRemoveSet (env : UEnv) (vm_name : String) : Id (String) := do
  pure ()
  pure ()
  pure ()
  pure ()
  pure ()
  pure ()
  let mut setup_str : String := ((env.vmParam vm_name "remove_set").getD "leaves")
  match (env.restrictions.find? (fun restriction => (I2N.Trav.strIn restriction setup_str))) with
  | some restriction =>
    pure ()
  | none =>
    setup_str := ("all.." ++ setup_str)
  setup_str := setup_str
  return setup_str

/- the Python it was generated from (comments and docstring dropped):
   def update_remove_set(i, vm_name, worker, vm_params, to_state):
       setup_dict = config['param_dict'].copy()
       setup_dict['create_permanent_vm'] = 'yes'
       setup_dict['main_vm'] = vm_name
       setup_dict['vms'] = vm_name
       setup_dict['nets'] = worker.id
       setup_dict.update({'get_mode': 'ra', 'set_mode': 'ff', 'unset_mode': 'fi'})
       setup_str = vm_params.get('remove_set', 'leaves')
       for restriction in config['available_restrictions']:
           if restriction in setup_str:
               break
       else:
           setup_str = 'all..' + setup_str
       logging.info(f"Flagging for removing by {worker.id} all old {vm_name} states depending on the updated '{to_state}'")
       setup_str = param.re_str(setup_str)
       return setup_str
-/

/-- the policy table of the (vm, worker) graph being flagged is the state; an exception ends `update` -/
abbrev FM := StateT Flags (Except Err)
/-- `clean_graph.flag_intersection(<graph with these node names>, flag_type=…, flag=…, skip_…)` -/
def fiM (g : UGraph) (names : List String) (ty : FlagType) (p : Pol) (skipObjectRoots skipSharedRoot : Bool) : FM Unit :=
  stepM (fun f => flagIntersection g f names ty p skipObjectRoots skipSharedRoot)
/-- `for vm_object in vm_objects: try: clean_graph.flag_children(state, vm, vm_object.component_form + ".*" + worker.id,
flag_type=…, flag=…, skip_…) except AssertionError: raise ValueError(…)` (pinned whole, both occurrences) -/
def fcAllM (g : UGraph) (state vm worker : String) (compForms : List String) (ty : FlagType) (p : Pol)
    (skipParents skipChildren : Bool) : FM Unit :=
  stepM (fun f => compForms.foldlM (fun f cf =>
    mapAssertion (flagChildren g f (dotSplit state) vm (some (cf, worker)) ty p skipParents skipChildren)) f)

/-- the flagging passes of ONE (vm, worker) iteration of `intertest_setup.update` (the worker loop body behind the `try` that parses the remove-set graph `g`), statement by statement: which run / clean policy goes where, in program order.  `vm_objects` = the component forms of the vm's objects; the graphs parsed for `all..<to_state>` / `all..<from_state>` / the install nodes are the oracle's name lists; the two `flag_children` loops (with their `except AssertionError: raise ValueError`) are pinned whole; `graph.new_nodes(clean_graph.nodes)` is what the skeleton `genWorkerBody` records -/
def genFlagPasses (env : UEnv) (g : UGraph) (vm_name : String) (worker : String) (from_state : String) (to_state : String) (vm_objects : List String) : FM (Unit) := do
  fiM g (g.nodes.map (·.name)) .run .never false false
  fiM g (g.nodes.map (·.name)) .clean .never false false
  let mut flag_state : String := (if (to_state == "install") then "" else to_state)
  fcAllM g flag_state vm_name worker vm_objects .clean .cloneFree true false
  let mut run_graph : List String := []
  if (to_state == "install") then
    run_graph := (env.installNames vm_name worker)
  else
    run_graph := (env.parseNames ("all.." ++ to_state) vm_name worker)
  fiM g run_graph .run .notFinishedOrRerun false true
  if (!(from_state == "install")) then
    let mut skip_graph : List String := (env.parseNames ("all.." ++ from_state) vm_name worker)
    fiM g skip_graph .run .never false false
    fcAllM g from_state vm_name worker vm_objects .run .notFinishedOrRerun false true
  pure ()
  pure ()
  return ()

/- the Python it was generated from (comments and docstring dropped):
   def update_flag_passes(i, vm_name, worker, from_state, to_state, vm_objects, setup_dict, clean_graph):
       clean_graph.flag_intersection(clean_graph, flag_type='run', flag=lambda self, slot: False)
       clean_graph.flag_intersection(clean_graph, flag_type='clean', flag=lambda self, slot: False)
       flag_state = '' if to_state == 'install' else to_state
       for vm_object in vm_objects:
           try:
               clean_graph.flag_children(flag_state, vm_name, vm_object.component_form + '.*' + worker.id, flag_type='clean', flag=lambda self, slot: len(self.cloned_nodes) == 0, skip_parents=True)
           except AssertionError as error:
               logging.error(error)
               raise ValueError(f"Could not identify a test node from {vm_name}'s to_state='{flag_state}', is it compatible with the default or specified remove_set?")
       logging.info(f"Flagging for updating by {worker.id} all {vm_name} states between and including '{from_state}' and '{to_state}'")
       if to_state == 'install':
           run_graph = l.parse_object_trees(worker=worker, restriction=param.re_str('all..customize'), prefix=tag, object_restrs={vm_name: config['vm_strs'][vm_name]}, params=setup_dict, verbose=False)
           install_nodes = run_graph.get_nodes_by_name('all.original')
           run_graph = TestGraph()
           run_graph.new_objects(clean_graph.objects)
           run_graph.new_nodes(install_nodes)
       else:
           run_graph = l.parse_object_trees(worker=worker, restriction=param.re_str('all..' + to_state), prefix=tag, object_restrs={vm_name: config['vm_strs'][vm_name]}, params=setup_dict, verbose=False)
       clean_graph.flag_intersection(run_graph, flag_type='run', flag=lambda self, slot: not self.is_finished(slot) or self.should_rerun(slot), skip_shared_root=True)
       if from_state != 'install':
           logging.info(f"Flagging for preserving by {worker.id} all {vm_name} states before the updated '{from_state}'")
           skip_graph = l.parse_object_trees(worker=worker, restriction=param.re_str('all..' + from_state), prefix=tag, object_restrs={vm_name: config['vm_strs'][vm_name]}, params=setup_dict, verbose=False)
           clean_graph.flag_intersection(skip_graph, flag_type='run', flag=lambda self, slot: False)
           for vm_object in vm_objects:
               try:
                   clean_graph.flag_children(from_state, vm_name, vm_object.component_form + '.*' + worker.id, flag_type='run', flag=lambda self, slot: not self.is_finished(slot) or self.should_rerun(slot), skip_children=True)
               except AssertionError as error:
                   logging.error(error)
                   raise ValueError(f"Could not identify a test node from {vm_name}'s from_state='{from_state}', is it compatible with the default or specified remove_set?")
       graph.new_objects([o for o in clean_graph.objects if o.key == 'nets'])
       graph.new_nodes(clean_graph.nodes)
-/

/-- the body of the all-pairs bridging loop of `intertest_setup.update` for the pair (`node1`, `node2`) of node indices (`continue` of the inner loop = leaving the body); `bridge_with_node` is `Bridging.bridge` of I2N/Model/Index.lean (C16) -/
def genBridgePair (ns : List BNode) (node1 : Nat) (node2 : Nat) : StateT I2N.Index.Bridging (Except Err) (Unit) := do
  if (node1 == node2) then
    return ()
  if ((BNode.formOf ns node1) == (BNode.formOf ns node2)) then
    if ((BNode.idOf ns node1) == (BNode.idOf ns node2)) then
      throw Err.valueError
    modify (fun b => b.bridge node1 node2)
  return ()

/- the Python it was generated from (comments and docstring dropped):
   def update_bridge_pair(node1, node2):
       if node1 == node2:
           continue
       if node1.bridged_form == node2.bridged_form:
           if node1.id == node2.id:
               raise ValueError
           node1.bridge_with_node(node2)
-/

/-- the worker loop body of `update`.  NOT translated but matched structurally by harness/pygen_pxupdate.py: the body
must be `<front statements = genRemoveSet>; try: clean_graph = l.parse_object_trees(…, restriction=setup_str,
prefix=f"{tag}m{i + 1}", …) except param.EmptyCartesianProduct as error: <log>; continue; <rest = genFlagPasses>`:
an empty Cartesian product skips THIS worker only (`continue`), otherwise the passes run on a fresh policy table and
the flagged graph is recorded (`graph.new_nodes(clean_graph.nodes)`) -/
def genWorkerBody (env : UEnv) (i : Nat) (vm_name : String) (worker : String) : StateT Flagged (Except Err) Unit :=
  fun acc =>
    match env.parseClean (genRemoveSet env vm_name) i vm_name worker with
    | none => .ok ((), acc)
    | some g =>
      match (genFlagPasses env g vm_name worker ((env.vmParam vm_name "from_state").getD "install")
              ((env.vmParam vm_name "to_state").getD "customize") (env.compForms vm_name)).run {} with
      | .error e => .error e
      | .ok (_, f) => .ok ((), acc ++ [(vm_name, worker, f)])

/-- `for i, vm_name in enumerate(selected_vms): <pinned: from_state, to_state, vm_objects of the vm>;
for worker in graph.workers.values(): <genWorkerBody>` (both loops without `else` / `break`) -/
def genUpdate (env : UEnv) (vms workers : List String) : StateT Flagged (Except Err) Unit :=
  (enumFrom 0 vms).forM fun iv => workers.forM fun worker => genWorkerBody env iv.1 iv.2 worker

/-- `for node1 in graph.nodes: for node2 in graph.nodes: <genBridgePair>`: ALL ordered pairs of nodes -/
def genBridgeAll (ns : List BNode) : StateT I2N.Index.Bridging (Except Err) Unit :=
  (List.range ns.length).forM fun node1 => (List.range ns.length).forM fun node2 => genBridgePair ns node1 node2

/-- `flag_type` as the callers pass it (`update` passes the literals "run" / "clean"; anything but "run" sets the
clean policy) -/
def flagTypeStr : FlagType → String | .run => "run" | .clean => "clean"

/-- ONE iteration of the loop of `TestGraph.flag_intersection` (avocado_i2n/cartgraph/graph.py) for the node with index `test_node`: `otherNames` = the names of the other graph's nodes, the regular expression `<setless form>$` is the hand recogniser `endsWithStr` (validated per run by the C15 correspondence), `p` = the policy `flag` installs; `continue` = leaving the body -/
def genFlagIntersectionStep (g : UGraph) (otherNames : List String) (ty : FlagType) (p : Pol) (skip_object_roots : Bool) (skip_shared_root : Bool) (test_node : Nat) : StateT Flags (Except Err) (Unit) := do
  let mut matching_nodes : List String := (otherNames.filter (fun nm => endsWithStr nm (g.node test_node).setless))
  if ((Int.ofNat matching_nodes.length) == (0 : Int)) then
    return ()
  else if (decide ((Int.ofNat matching_nodes.length) > (1 : Int))) then
    throw Err.valueError
  if ((g.node test_node).sharedRoot && skip_shared_root) then
    return ()
  if ((!(g.node test_node).objectRoot.isEmpty) && skip_object_roots) then
    return ()
  if ((flagTypeStr ty) == "run") then
    modify (fun f => f.set .run p test_node)
  else
    modify (fun f => f.set .clean p test_node)
  return ()

/- the Python it was generated from (comments and docstring dropped):
   def flag_intersection_step(test_node):
       matching_nodes = graph.get_nodes(param_key='name', param_val=test_node.setless_form + '$')
       if len(matching_nodes) == 0:
           logging.debug(f'Skip flag for non-overlapping {test_node}')
           continue
       elif len(matching_nodes) > 1:
           raise ValueError(f'Cannot map {test_node} into a unique test node from {graph}')
       if test_node.is_shared_root() and skip_shared_root:
           logging.info('Skip flag for shared root')
           continue
       if test_node.is_object_root() and skip_object_roots:
           logging.info('Skip flag for object root')
           continue
       logging.debug(f'The test {test_node} is assigned custom {activity} policy')
       if flag_type == 'run':
           test_node.should_run = flag.__get__(test_node)
       else:
           test_node.should_clean = flag.__get__(test_node)
-/

/-- `for test_node in self.nodes: <genFlagIntersectionStep>` (matched structurally: exactly this loop, no `else`, no
`break` / `return`; the two statements in front of it only feed log lines and are pinned) -/
def genFlagIntersection (g : UGraph) (otherNames : List String) (ty : FlagType) (p : Pol)
    (skip_object_roots skip_shared_root : Bool) : StateT Flags (Except Err) Unit :=
  (List.range g.nodes.length).forM fun test_node =>
    genFlagIntersectionStep g otherNames ty p skip_object_roots skip_shared_root test_node

end I2N.Extracted.GenUpdate
