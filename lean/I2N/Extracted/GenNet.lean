/- GENERATED on every run by harness/pygen_pxnet.py:extract_net (called by harness/props/c18.py:extract) from avocado_i2n/vmnet/netconfig.py — do not edit.
   Translator: harness/pygen.py (Python AST -> Lean `do` block, fails closed).  The equality with the hand
   written model is proved in the Props file that imports this module. -/
import I2N.Model.Net
namespace I2N.Extracted.GenNet
open I2N.Net

/-- `ipaddress.IPv4Address(n)` for an integer `n` (also the check of `address + n`): AddressValueError, a
ValueError, unless `0 ≤ n < 2^32` -/
def ipv4 (n : Int) : Except Err Int := if n < 0 ∨ n ≥ (ipSpace : Int) then .error .valueError else .ok n

/-- `for val in self.range`: the keys of the dictionary in insertion order -/
def rangeKeys (c : Netconfig) : List Int := c.range.map (fun p => Int.ofNat p.1)
/-- `self.range[val] is False` -/
def rangeFree (c : Netconfig) (val : Int) : Bool := alookup val.toNat c.range == some false
/-- the state of a method of `VMNetconfig` that updates `self` is the netconfig; an exception ends the call -/
abbrev NcM := StateT Netconfig (Except Err)
def readNc {α : Type} (f : Netconfig → α) : NcM α := fun c => .ok (f c, c)
/-- `self.range[val] = True` -/
def markTaken (val : Int) : NcM Unit := fun c => .ok ((), { c with range := aset val.toNat true c.range })

/-- `self.interfaces[ip]` (KeyError when missing) -/
def ifsGet (c : Netconfig) (ip : Nat) : Except Err Nat :=
  match alookup ip c.ifs with | some i => .ok i | none => .error .keyError

/-- the state of `add_interface` / `validate` is the whole network (the interface objects are shared) -/
abbrev NetM := StateT Net (Except Err)
/-- `self.interfaces[interface.ip] = interface` in netconfig `n` -/
def storeIface (n i : Nat) : NetM Unit := fun s =>
  .ok ((), s.setNc n (fun c => { c with ifs := aset (s.iface i).ip i c.ifs }))
/-- `self.interfaces[interface.ip].netconfig = self`: the netconfig reference of the object FOUND under the
address of `interface` (KeyError when there is none) -/
def setStoredNetconfig (n i : Nat) : NetM Unit := fun s =>
  match alookup (s.iface i).ip (s.nc n).ifs with
  | some j => .ok ((), s.setIface j (fun f => { f with nc := some n }))
  | none => .error .keyError

/-- `ipaddress.ip_interface("%s/%s" % (x, self.mask_bit))` is the pair (x, prefix length); `.network` the same pair -/
abbrev IpIface := Nat × Nat
abbrev IpNetwork := Nat × Nat

/-- `self.netmask.split(".")`: the four octets of the dotted string, most significant first -/
def octets (m : Nat) : List Nat := [m / 2 ^ 24 % 256, m / 2 ^ 16 % 256, m / 2 ^ 8 % 256, m % 256]
/-- the binary digits of `n`, least significant first, at most `fuel` of them (`[false]` for 0) -/
def binDigitsLE : Nat → Nat → List Bool
  | 0, _ => []
  | fuel + 1, n => if n < 2 then [n == 1] else (n % 2 == 1) :: binDigitsLE fuel (n / 2)
/-- `bin(n)[2:].zfill(w)` as a list of bits (`true` = "1"), most significant first -/
def binZfill (w : Int) (n : Nat) : List Bool :=
  let d := (binDigitsLE (n + 1) n).reverse
  List.replicate (w.toNat - d.length) false ++ d
/-- `s.rstrip("0")` -/
def rstripZeros (s : List Bool) : List Bool := (s.reverse.dropWhile (fun b => !b)).reverse

/-- `VMNetconfig.get_allocatable_address` of avocado_i2n/vmnet/netconfig.py, cut at its for/else by harness/pygen_pxnet.py: the test of `for val in self.range: if <test>:` -/
def genAllocTest (c : Netconfig) (val : Int) : Bool := Id.run do
  return (rangeFree c val)

/- the Python it was generated from (comments and docstring dropped):
   def get_allocatable_address_test(val):
       return self.range[val] is False
-/

/-- `VMNetconfig.get_allocatable_address` of avocado_i2n/vmnet/netconfig.py, cut at its for/else by harness/pygen_pxnet.py: the statements of the `if` in front of its `break`, followed by the statements behind the loop (what Python executes for the first `val` that passes the test) -/
def genAllocFound (val : Int) : NcM (Int) := do
  markTaken val
  let mut new_address : Int := val
  let mut net_ip : Int := (← readNc (fun c => Int.ofNat c.netIp))
  return (← ipv4 (net_ip + new_address))

/- the Python it was generated from (comments and docstring dropped):
   def get_allocatable_address_found(val):
       self.range[val] = True
       new_address = val
       net_ip = ipaddress.IPv4Address(str(self.net_ip))
       return str(ipaddress.IPv4Address(str(net_ip + new_address)))
-/

/-- the for/else of `get_allocatable_address` (matched structurally: `for val in self.range: if <genAllocTest>:
<…>; break` `else: raise IndexError(…)`, then the rest of the function): the first key that passes the
test runs `genAllocFound`; when none does, the `else` of the loop raises -/
def genAllocate : NcM Int := fun c =>
  match (rangeKeys c).find? (fun val => genAllocTest c val) with
  | some val => genAllocFound val c
  | none => .error Err.indexError

/-- `VMNetconfig.has_interface` of avocado_i2n/vmnet/netconfig.py; `i` = the interface object (its id), `f` = its attributes; `==` on interface objects is identity -/
def genHasInterface (c : Netconfig) (i : Nat) (f : Iface) : Except Err (Bool) := do
  let mut pyTmp1 : Bool := (hasKey f.ip c.ifs)
  if pyTmp1 then
    pyTmp1 := ((← ifsGet c f.ip) == i)
  return pyTmp1

/- the Python it was generated from (comments and docstring dropped):
   def has_interface(self, interface: VMInterface) -> bool:
       return interface.ip in self.interfaces.keys() and self.interfaces[interface.ip] == interface
-/

/-- `VMNetconfig.can_add_interface` of avocado_i2n/vmnet/netconfig.py (the two `raise IndexError(…)` statements are pinned verbatim) -/
def genCanAdd (c : Netconfig) (i : Nat) (f : Iface) : Except Err (Bool) := do
  if (← genHasInterface c i f) then
    throw Err.indexError
  let mut interface_net_ip : Nat := (networkIp f.ip c.bits)
  if ((interface_net_ip == c.netIp) && (!(f.netmask == c.netmask))) then
    throw Err.indexError
  return (interface_net_ip == c.netIp)

/- the Python it was generated from (comments and docstring dropped):
   def can_add_interface(self, interface: VMInterface) -> bool:
       if self.has_interface(interface):
           raise IndexError('Interface %s already present in the network %s' % (interface.ip, self.net_ip))
       interface_net_ip = self._get_network_ip(interface.ip, self.mask_bit)
       if interface_net_ip == self.net_ip and interface.params['netmask'] != self.netmask:
           raise IndexError('Interface %s has different netmask %s from the network %s (%s)' % (interface.ip, interface.params['netmask'], self.net_ip, self.netmask))
       return interface_net_ip == self.net_ip
-/

/-- `self.validate()` on netconfig `n` (the hand model's `validate`; its own tie: genValidate) -/
def validate_ (n : Nat) : NetM Unit := fun s => match validate s n with | .error e => .error e | .ok () => .ok ((), s)

/-- `VMNetconfig.add_interface` of avocado_i2n/vmnet/netconfig.py on netconfig object `n` for interface object `i`: three statements, each an action on the network state -/
def genAddInterface (n : Nat) (i : Nat) : NetM (Unit) := do
  storeIface n i
  setStoredNetconfig n i
  validate_ n
  return ()

/- the Python it was generated from (comments and docstring dropped):
   def add_interface(self, interface: VMInterface) -> None:
       self.interfaces[interface.ip] = interface
       self.interfaces[interface.ip].netconfig = self
       self.validate()
-/

/-- `VMNetconfig.translate_address` of avocado_i2n/vmnet/netconfig.py; the subtraction and the addition are Python's integer arithmetic, `ipv4` is the range check of `ipaddress.IPv4Address(<integer>)` -/
def genTranslate (c : Netconfig) (ip : Nat) (nat_ip : Nat) : Except Err (Int) := do
  let mut source_ip : Int := (Int.ofNat ip)
  let mut source_part : Int := (source_ip - (Int.ofNat c.netIp))
  let mut target_iface : IpIface := (nat_ip, c.bits)
  let mut target_part : Int := (Int.ofNat (networkIp target_iface.1 target_iface.2))
  let mut translated_ip : Int := (← ipv4 (source_part + target_part))
  return translated_ip

/- the Python it was generated from (comments and docstring dropped):
   def translate_address(self, ip: str, nat_ip: str) -> str:
       source_ip = ipaddress.IPv4Address(ip)
       source_part = int(source_ip) - int(ipaddress.IPv4Address(str(self.net_ip)))
       target_iface = ipaddress.ip_interface('%s/%s' % (nat_ip, self.mask_bit))
       target_part = int(target_iface.network.network_address)
       translated_ip = ipaddress.IPv4Address(source_part + target_part)
       return str(translated_ip)
-/

/-- the getter half of `VMNetconfig.mask_bit` of avocado_i2n/vmnet/netconfig.py (the `else` of `if value is not None`, behind the pinned `if self.netmask is None: return None`); `m` = the netmask `self.netmask`, a string of "0"/"1" is a list of bits -/
def genMaskBit (m : Nat) : Int := Id.run do
  let mut netmask : List Nat := (octets m)
  let mut binary_str : List Bool := ([] : List Bool)
  binary_str := netmask.foldl (fun binary_str octet => (binary_str ++ (binZfill (8 : Int) octet))) binary_str
  return (Int.ofNat (rstripZeros binary_str).length)

/- the Python it was generated from (comments and docstring dropped):
   def mask_bit_getter():
       netmask = self.netmask.split('.')
       binary_str = ''
       for octet in netmask:
           binary_str += bin(int(octet))[2:].zfill(8)
       return str(len(binary_str.rstrip('0')))
-/

/-- `<iface> in own.network` (`IPv4Network.__contains__` of an address object: `ip & netmask == network_address`;
the hand model's `inNet`) -/
def inNetwork (c : Netconfig) (a : IpIface) : Bool := inNet c a.1
/-- `ipaddress.ip_interface("%s/%s" % (self.ip_start, self.mask_bit))`: the property `ip_start` is
`str(IPv4Address(self.net_ip) + minint)` (AddressValueError when it leaves the address space); `minint` is the hand
model's `minOff` (NOT tied here) -/
def ipStartIface (c : Netconfig) : Except Err IpIface := do
  let a ← ipv4 (Int.ofNat c.netIp + Int.ofNat (minOff c.range)); pure (a.toNat, c.bits)
def ipEndIface (c : Netconfig) : Except Err IpIface := do
  let a ← ipv4 (Int.ofNat c.netIp + Int.ofNat (maxOff c.range)); pure (a.toNat, c.bits)
/-- `interface.netconfig` / `self` as object references -/
abbrev NcRef := Option Nat

/-- `VMNetconfig.validate` of avocado_i2n/vmnet/netconfig.py, cut and rewritten by harness/pygen_pxnet.py: the statements in front of the loops; the dictionary `addresses` (distinct constant keys host, ip_start, ip_end; only iterated) is the list of its values in insertion order; `c.host` is `none` for None and for the empty string -/
def genValidateAddresses (c : Netconfig) : Except Err (List IpIface) := do
  let mut addresses : List IpIface := []
  if c.host.isSome then
    addresses := (addresses ++ [(c.host.getD 0, c.bits)])
  let _ ← ipStartIface c
  let _ ← ipEndIface c
  addresses := (addresses ++ [(← ipStartIface c)])
  addresses := (addresses ++ [(← ipEndIface c)])
  return addresses

/- the Python it was generated from (comments and docstring dropped):
   def validate_addresses():
       addresses = []
       if self.host_ip is not None and self.host_ip != '':
           addresses += [ipaddress.ip_interface('%s/%s' % (self.host_ip, self.mask_bit))]
       assert self.ip_start is not None
       assert self.ip_end is not None
       addresses += [ipaddress.ip_interface('%s/%s' % (self.ip_start, self.mask_bit))]
       addresses += [ipaddress.ip_interface('%s/%s' % (self.ip_end, self.mask_bit))]
       return addresses
-/

/-- `VMNetconfig.validate` of avocado_i2n/vmnet/netconfig.py, cut and rewritten by harness/pygen_pxnet.py: the body of `for key in addresses.keys():`; `a` = `addresses[key]` -/
def genValidateAddress (c : Netconfig) (a : IpIface) : Except Err (Unit) := do
  if (!(inNetwork c a)) then
    throw Err.testError
  return ()

/- the Python it was generated from (comments and docstring dropped):
   def validate_address():
       if not own.network.__contains__(addresses[key]):
           raise exceptions.TestError('The predefined %s %s is not in the netconfig %s' % (key, addresses[key], self.net_ip))
-/

/-- `VMNetconfig.validate` of avocado_i2n/vmnet/netconfig.py, cut and rewritten by harness/pygen_pxnet.py: the body of `for interface in self.interfaces.values():`; `n` = self (the netconfig object), `i` = the interface object, `f` = its attributes; `==` on objects is identity -/
def genValidateIface (n : Nat) (c : Netconfig) (i : Nat) (f : Iface) : Except Err (Unit) := do
  if (!(f.nc == (some n : NcRef))) then
    throw Err.assertion
  if (!((← ifsGet c f.ip) == i)) then
    throw Err.assertion
  let mut ip : IpIface := (f.ip, c.bits)
  if (!(inNetwork c ip)) then
    throw Err.testError
  return ()

/- the Python it was generated from (comments and docstring dropped):
   def validate_interface():
       if not interface.netconfig == self:
           raise AssertionError('assert')
       if not self.interfaces[interface.ip] == interface:
           raise AssertionError('assert')
       ip = ipaddress.ip_interface('%s/%s' % (interface.ip, self.mask_bit))
       if not own.network.__contains__(ip):
           raise exceptions.TestError('The interface with ip %s is not in the netconfig %s' % (ip, self.net_ip))
-/

/-- `for key in addresses.keys(): <genValidateAddress>` -/
def genValidateAddrs (c : Netconfig) : List IpIface → Except Err Unit
  | [] => pure ()
  | a :: rest => do
    genValidateAddress c a
    genValidateAddrs c rest
/-- `for interface in self.interfaces.values(): <genValidateIface>` -/
def genValidateIfaces (s : Net) (n : Nat) (c : Netconfig) : List (Nat × Nat) → Except Err Unit
  | [] => pure ()
  | (_, i) :: rest => do
    genValidateIface n c i (s.iface i)
    genValidateIfaces s n c rest
/-- `validate` of netconfig object `n` (skeleton matched structurally): the statements in front of the loops,
the loop over the addresses, the loop over the interfaces -/
def genValidate (s : Net) (n : Nat) : Except Err Unit := do
  let c := s.nc n
  genValidateAddrs c (← genValidateAddresses c)
  genValidateIfaces s n c c.ifs

end I2N.Extracted.GenNet
