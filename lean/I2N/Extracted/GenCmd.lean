/- GENERATED on every run by harness/pygen_pxcmd.py:extract_cmd (called by harness/props/c11.py:extract) from avocado_i2n/cmd_parser.py — do not edit.
   Translator: harness/pygen.py (Python AST -> Lean `do` block, fails closed).  The equality with the hand
   written model is proved in the Props file that imports this module. -/
import I2N.Model.Cmd
namespace I2N.Extracted.GenCmd
open I2N.Cmd

/-- the loop state of `params_from_cmd` (`St`, initially `St.init av`: the statements in front of the loop are
pinned) is the state of the monad; an exception ends the function -/
abbrev M := StateT St (Except Err)
def readSt {α : Type} (f : St → α) : M α := fun st => .ok (f st, st)
def modSt (f : St → St) : M Unit := fun st => .ok ((), f st)
/-- `s.startswith(p)` -/
def pyStartsWith (s p : Str) : Bool := p.isPrefixOf s

/-- `use_tests_default = False` (inside the primary-restriction scan; its `else: with_nontrivial_restrictions = True`
only feeds a log line) -/
def dropTestsDefault : M Unit := modSt (fun st => { st with useDef := false })
/-- `tests_str += "%s %s\n" % (key, value)` -/
def addTestsLine (key value : Str) : M Unit := modSt (fun st => { st with tests := st.tests ++ [(key, value)] })
/-- `nets_str = "%s %s\n" % (key.replace("_nets", ""), value) if value else ""` -/
def setNetsStr (key value : Str) : M Unit :=
  modSt (fun st => { st with netsStr := if value.isEmpty then none else some (removeAll kUNets key, value) })
/-- `param_dict["nets"] = " ".join(param.all_suffixes_by_restriction(nets_str))` (the Cartesian parser may raise) -/
def setNetsByRestr (av : Avail) : M Unit := fun st =>
  match netsBy av st.netsStr with
  | .error e => .error e
  | .ok names => .ok ((), { st with pd := dictSet st.pd kNets (joinSp names) })
/-- `use_vms_default[vm_name] = False` -/
def dropVmDefault (vm : Str) : M Unit := modSt (fun st => { st with vmNoDef := vm :: st.vmNoDef })
/-- `"%s %s\n" % (key.replace(f"_{vm_name}", ""), value) if value else ""` (none = the empty string) -/
def vmStrOf (vm key value : Str) : Option (Str × Str) :=
  if value.isEmpty then none else some (removeAll ('_' :: vm) key, value)
/-- `vm_strs[vm_name] += vm_str` -/
def addVmStr (vm : Str) (line : Option (Str × Str)) : M Unit :=
  modSt (fun st => { st with vmLines := match line with | none => st.vmLines | some l => st.vmLines ++ [(vm, l)] })
/-- `with_selected_vms[:] = value.split(",")` -/
def setSelVms (value : Str) : M Unit := modSt (fun st => { st with selVms := splitComma value })
/-- `param_dict[key] = value` -/
def setParam (key value : Str) : M Unit := modSt (fun st => { st with pd := dictSet st.pd key value })
/-- `explicit_nets = value` (only `explicit_nets is not None` is ever observed) -/
def setExplicitNets : M Unit := modSt (fun st => { st with explicitNets := true })

/-- ONE iteration of the main tokenizing loop of `params_from_cmd` (avocado_i2n/cmd_parser.py), translated branch by branch; `av.vms` = `available_vms`, `av.restrictions` = `available_restrictions`; the regular expressions are the hand recognisers `splitArg` / `netsKey` / `vmKey` of I2N/Model/Cmd.lean -/
def genStep (av : Avail) (cmd_param : Str) : M (Unit) := do
  if (splitArg cmd_param).isNone then
    throw Err.valueError
  let mut (key, value) := (splitArg cmd_param).getD ([], [])
  if ((key == kOnly) || (key == kNo)) then
    (splitVariants value).forM fun variant => do
      if (av.restrictions.contains variant) then
        dropTestsDefault
      else
        pure ()
    addTestsLine key value
  else if ((pyStartsWith key kOnlyU) || (pyStartsWith key kNoU)) then
    if (netsKey key) then
      setNetsStr key value
      if ((← readSt (fun st => st.netsStr.isSome)) && (← readSt (fun st => st.explicitNets))) then
        throw Err.valueError
      setNetsByRestr av
    else
      match (av.vms.find? (fun vm_name => (vmKey key vm_name))) with
      | some vm_name =>
        dropVmDefault vm_name
        let vm_str := vmStrOf vm_name key value
        addVmStr vm_name vm_str
      | none =>
        throw Err.valueError
  else if (key == kVms) then
    setSelVms value
    (← readSt (fun st => st.selVms)).forM fun vm_name => do
      if (!(av.vms.contains vm_name)) then
        throw Err.valueError
  else if (key == kNets) then
    if (← readSt (fun st => st.netsStr.isSome)) then
      throw Err.valueError
    value := commaToSpace value
    setParam key value
    setExplicitNets
  else
    value := commaToSpace value
    setParam key value
  return ()

/- the Python it was generated from (comments and docstring dropped):
   def params_from_cmd_loop_body(cmd_param):
       re_param = re.match('(\\w+)=(.*)', cmd_param)
       if re_param is None:
           raise ValueError(f"Found malformed parameter on the command line '{cmd_param}' - must be of the form <key>=<val>")
       key, value = re_param.group(1, 2)
       if key == 'only' or key == 'no':
           for variant in re.split(',|\\.|\\.\\.', value):
               if variant in available_restrictions:
                   use_tests_default = False
               else:
                   with_nontrivial_restrictions = True
           tests_str += '%s %s\n' % (key, value)
       elif key.startswith('only_') or key.startswith('no_'):
           if re.fullmatch('(only|no)_nets', key):
               nets_str = '%s %s\n' % (key.replace('_nets', ''), value) if value else ''
               if nets_str != '' and explicit_nets is not None:
                   raise ValueError(f"Cannot specify a nets restriction '{nets_str.rstrip()}' together with explicit net suffixes {explicit_nets}")
               param_dict['nets'] = ' '.join(param.all_suffixes_by_restriction(nets_str))
           else:
               for vm_name in available_vms:
                   if re.fullmatch(f'(only|no)_{vm_name}', key):
                       use_vms_default[vm_name] = False
                       vm_str = '%s %s\n' % (key.replace(f'_{vm_name}', ''), value) if value else ''
                       vm_strs[vm_name] += vm_str
                       break
               else:
                   raise ValueError(f'Invalid object restriction {key} (no such object)')
       elif key == 'vms':
           with_selected_vms[:] = value.split(',')
           for vm_name in with_selected_vms:
               if vm_name not in available_vms:
                   raise ValueError("The vm '%s' is not among the supported vms: %s" % (vm_name, ', '.join(available_vms)))
       elif key == 'nets':
           if nets_str != '':
               raise ValueError(f"Cannot specify explicit net suffixes {value} together with a nets restriction, currently also specified '{nets_str.rstrip()}'")
           value = value.replace(',', ' ')
           param_dict[key] = value
           explicit_nets = value
       else:
           value = value.replace(',', ' ')
           param_dict[key] = value
-/

end I2N.Extracted.GenCmd
