/- GENERATED on every run by harness/pygen.py:extract_clean (called by harness/props/c05.py:extract) from avocado_i2n/cartgraph/node.py — do not edit.
   Translator: harness/pygen.py (Python AST -> Lean `do` block, fails closed).  The equality with the hand
   written model is proved in the Props file that imports this module. -/
namespace I2N.Extracted.GenClean

/-- `TestNode.default_clean_decision` of avocado_i2n/cartgraph/node.py: the tests in front of the loop over the involved workers.  `objs` = the node's objects, `imagesMode o` / `vmsMode o` = the first character of `unset_mode_images` / `unset_mode_vms` (default `unset_mode`) of object `o`, `door` = the pinned loop (what it returns or raises) -/
def genCleanDecision (dryRun : Bool) (flat : Bool) (cloneSource : Bool) (idIn : Bool) (objs : List String) (imagesMode : String → String) (vmsMode : String → String) (door : Except String Bool) : Except String (Bool) := do
  if dryRun then
    return false
  else if flat then
    return false
  else if cloneSource then
    return false
  else if (!idIn) then
    throw "RuntimeError"
  let mut is_reversible : Bool := (objs.any (fun test_object => (((imagesMode test_object) == "f") || ((vmsMode test_object) == "f"))))
  if (!is_reversible) then
    return true
  else
    return (← door)

/- the Python it was generated from (comments and docstring dropped):
   def default_clean_decision(self, worker: TestWorker) -> bool:
       if self.params.get('dry_run', 'no') == 'yes':
           logging.info(f'Should not clean via dry test run {self}')
           return False
       elif self.is_flat():
           logging.debug(f'Should not clean a flat node {self}')
           return False
       elif len(self.cloned_nodes) > 0:
           logging.debug(f'Should not clean a cloned node {self}')
           return False
       elif worker.id not in self.params['name']:
           raise RuntimeError(f'Worker {worker.id} should not try to clean {self}')
       for test_object in self.objects:
           object_params = test_object.object_typed_params(self.params)
           is_reversible = object_params.get('unset_mode_images', object_params['unset_mode'])[0] == 'f'
           is_reversible |= object_params.get('unset_mode_vms', object_params['unset_mode'])[0] == 'f'
           if is_reversible:
               break
       else:
           is_reversible = False
       if not is_reversible:
           return True
       else:
           for picked_worker in self.shared_involved_workers:
               if worker.swarm_id != 'localhost' and worker.swarm_id not in picked_worker.id:
                   continue
               if self.is_flat() or picked_worker.id in self.params['name']:
                   picked_node = self
               else:
                   for node in self.bridged_nodes:
                       if picked_worker.id in node.params['name']:
                           picked_node = node
                           break
                   else:
                       raise ValueError(f'Cannot identify picked node for involved worker {picked_worker} instead of the composite {self} to consider for cleanup')
               if not picked_node.is_cleanup_ready(picked_worker):
                   logging.debug(f'Node is not cleanup ready for {picked_worker.id}')
                   return False
               test_statuses = [r['status'].lower() for r in picked_node.results]
               if 'unknown' in test_statuses:
                   logging.debug(f'A worker {picked_worker.id} is still running node which cannot yet be reversed')
                   return False
           return self.is_finished(worker, -1)
-/

end I2N.Extracted.GenClean
