/- GENERATED on every run by harness/pygen.py:extract_rules (called by harness/props/c10.py:extract) from avocado_i2n/cartgraph/node.py — do not edit.
   Translator: harness/pygen.py (Python AST -> Lean `do` block, fails closed).  The equality with the hand
   written model is proved in the Props file that imports this module. -/
import I2N.Model.Rules
namespace I2N.Extracted.GenRules
open I2N.Rules

/-- `params.get_numeric(key, default)` = `int(params.get(key, default))` for an integer default; a value that `int()`
rejects is Python's ValueError -/
def getNumeric (o : Option String) (dflt : Int) : Except Err Int :=
  match o with
  | none => pure dflt
  | some s => match parseInt s with
    | some m => pure m
    | none => throw Err.badTries

/-- `worker.id` / `self.started_worker.swarm_id` … where Python evaluates them (behind `worker and …`) -/
def idOf (w : Option Worker) : String := (w.map (·.id)).getD ""
def swarmOf (w : Option Worker) : String := (w.map (·.swarmId)).getD ""

/-- `TestNode.shared_filtered_results` of avocado_i2n/cartgraph/node.py (`started` = `self.started_worker`) -/
def genFilteredResults (c : Cfg) (started : Option Worker) (shared : List Result) : List Result := Id.run do
  let mut all_results : List Result := shared
  let mut scope_filter : String := ""
  if (started.isSome && (!(isSubstr "swarm" c.poolScope)) && (c.netsSpawner == some "lxc")) then
    scope_filter := (((swarmOf started) ++ ".") ++ (idOf started))
  else if (started.isSome && (!(isSubstr "cluster" c.poolScope)) && (c.netsSpawner == some "remote")) then
    scope_filter := (swarmOf started)
  else
    scope_filter := ""
  let mut results : List Result := []
  results := all_results.foldl (fun results result => (if (isSubstr scope_filter result.name) then (results ++ [result]) else results)) results
  return results

/- the Python it was generated from (comments and docstring dropped):
   @property
   def shared_filtered_results(self) -> list[dict[str, str]]:
       all_results = self.shared_results
       if self.started_worker and 'swarm' not in self.params['pool_scope'] and (self.params.get('nets_spawner') == 'lxc'):
           scope_filter = self.started_worker.swarm_id + '.' + self.started_worker.id
       elif self.started_worker and 'cluster' not in self.params['pool_scope'] and (self.params.get('nets_spawner') == 'remote'):
           scope_filter = self.started_worker.swarm_id
       else:
           scope_filter = ''
       results = []
       for result in all_results:
           if scope_filter in result['name']:
               results += [result]
       return results
-/

/-- `TestNode.should_rerun` of avocado_i2n/cartgraph/node.py, translated statement by statement (`w.isSome` = a worker was given; the body of the stateful branch is pinned verbatim and stands for the filtered statuses) -/
def genShouldRerun (c : Cfg) (w : Option Worker) (shared : List Result) : Except Err (Bool) := do
  if ((c.dryRun.getD "no") == "yes") then
    return false
  else if c.flat then
    return false
  else if c.cloneSource then
    return false
  else if (w.isSome && (!(isSubstr (idOf w) c.name))) then
    throw Err.runtimeError
  let mut all_statuses : List String := ["fail", "error", "pass", "warn", "skip", "cancel", "interrupted", "unknown"]
  let mut rerun_status : List String := []
  if (truthy c.replay) then
    rerun_status := (getListChar ',' "fail,error,warn" c.rerunStatus)
  else
    rerun_status := (let pyOrLeft : List String := (getListWs c.rerunStatus); if pyOrLeft.isEmpty then all_statuses else pyOrLeft)
  let mut stop_status : List String := (getListWs c.stopStatus)
  let mut disallowed_status : List String := (rerun_status.filter (fun pyElem => !(all_statuses.contains pyElem)))
  if (!disallowed_status.isEmpty) then
    throw Err.badRerunStatus
  disallowed_status := (stop_status.filter (fun pyElem => !(all_statuses.contains pyElem)))
  if (!disallowed_status.isEmpty) then
    throw Err.badStopStatus
  let mut max_tries : Int := (← getNumeric c.maxTries (if (truthy c.replay) then (2 : Int) else (1 : Int)))
  if (decide (max_tries > (1 : Int))) then
    pure ()
  if (decide (max_tries < (0 : Int))) then
    throw Err.negativeTries
  let mut test_statuses : List String := []
  if (!c.stateful) then
    test_statuses := (shared.map (fun r => (lower r.status)))
  else
    test_statuses := ((genFilteredResults c (c.startedWorker <|> w) shared).map (fun r => lower r.status))
  let mut rerun_statuses_violated : List String := (test_statuses.filter (fun pyElem => !(rerun_status.contains pyElem)))
  if (!rerun_statuses_violated.isEmpty) then
    return false
  let mut stop_statuses_found : List String := (stop_status.filter (fun pyElem => test_statuses.contains pyElem))
  if (!stop_statuses_found.isEmpty) then
    return false
  let mut total_runs : Int := (Int.ofNat test_statuses.length)
  let mut reruns_left : Int := (if (max_tries == (1 : Int)) then (0 : Int) else (max_tries - total_runs))
  if (decide (reruns_left > (0 : Int))) then
    return true
  return false

/- the Python it was generated from (comments and docstring dropped):
   def should_rerun(self, worker: TestWorker=None) -> bool:
       if self.params.get('dry_run', 'no') == 'yes':
           logging.info(f'Should not rerun via dry test run {self}')
           return False
       elif self.is_flat():
           logging.debug(f'Should not rerun a flat node {self}')
           return False
       elif len(self.cloned_nodes) > 0:
           logging.debug(f'Should not rerun a cloned node {self}')
           return False
       elif worker and worker.id not in self.params['name']:
           raise RuntimeError(f'Worker {worker.id} should not consider rerunning {self}')
       all_statuses = ['fail', 'error', 'pass', 'warn', 'skip', 'cancel', 'interrupted', 'unknown']
       if self.params.get('replay'):
           rerun_status = self.params.get_list('rerun_status', 'fail,error,warn', delimiter=',')
       else:
           rerun_status = self.params.get_list('rerun_status', []) or all_statuses
       stop_status = self.params.get_list('stop_status', [])
       for status, status_type in [(rerun_status, 'rerun'), (stop_status, 'stop')]:
           disallowed_status = {*status} - {*all_statuses}
           if len(disallowed_status) > 0:
               raise ValueError(f'Value of {status_type} status must be a valid test status, found {', '.join(disallowed_status)}')
       max_tries = self.params.get_numeric('max_tries', 2 if self.params.get('replay') else 1)
       if max_tries > 1:
           stop_condition = ', '.join(stop_status) if stop_status else 'NONE'
           rerun_condition = ', '.join(rerun_status) if rerun_status else 'NONE'
           logging.debug(f'Could rerun {self} with stop condition {stop_condition}, a rerun condition {rerun_condition}, and a maximum of {max_tries} tries')
       if max_tries < 0:
           raise ValueError('Number of max_tries cannot be less than zero')
       if len(self.get_stateful_objects()) == 0:
           test_statuses = [r['status'].lower() for r in self.shared_results]
       else:
           old_started_worker = self.started_worker
           self.started_worker = old_started_worker or worker
           test_statuses = [r['status'].lower() for r in self.shared_filtered_results]
           self.started_worker = old_started_worker
       rerun_statuses_violated = {*test_statuses} - {*rerun_status}
       if len(rerun_statuses_violated) > 0:
           logging.debug(f'Stopping test tries due to violated rerun test statuses: {rerun_status}')
           return False
       stop_statuses_found = {*stop_status} & {*test_statuses}
       if len(stop_statuses_found) > 0:
           logging.info(f'Stopping test tries due to obtained stop test statuses: {', '.join(stop_statuses_found)}')
           return False
       total_runs = len(test_statuses)
       reruns_left = 0 if max_tries == 1 else max_tries - total_runs
       if reruns_left > 0:
           logging.debug(f'Still have {reruns_left} allowed reruns left and should rerun {self}')
           return True
       logging.debug(f'Should not rerun {self}')
       return False
-/

/-- `self.should_rerun(worker)` inside `default_run_decision`: the state is whether the instance attribute
`should_rerun` has been replaced by `lambda _: False` -/
def rerunM (c : Cfg) (w : Worker) (shared : List Result) : StateT Bool (Except Err) Bool :=
  fun disabled => if disabled then .ok (false, disabled) else (genShouldRerun c (some w) shared).map (fun b => (b, disabled))

/-- `TestNode.default_run_decision` of avocado_i2n/cartgraph/node.py.  `finished` = `self.is_finished(worker, 1)`, `scanRun` = the outcome of `self.scan_states()`; the state of the monad is whether `self.should_rerun` has been replaced by `lambda _: False` -/
def genDefaultRunDecision (c : Cfg) (w : Worker) (shared : List Result) (finished : Bool) (scanRun : Bool) : StateT Bool (Except Err) (Bool) := do
  if ((c.dryRun.getD "no") == "yes") then
    return false
  else if c.flat then
    return false
  else if c.cloneSource then
    return false
  else if (!(isSubstr w.id c.name)) then
    throw Err.runtimeError
  let mut should_run : Bool := false
  if (!c.stateful) then
    let mut pyTmp1 : Bool := shared.isEmpty
    if (!pyTmp1) then
      pyTmp1 := (← rerunM c w shared)
    should_run := pyTmp1
  else
    let mut should_scan : Bool := (!finished)
    let mut should_run_from_scan : Bool := (if should_scan then scanRun else false)
    if ((genFilteredResults c c.startedWorker shared).isEmpty && (!should_run_from_scan)) then
      set true
    should_run := (if should_scan then should_run_from_scan else false)
    let mut pyTmp2 : Bool := should_run
    if (!pyTmp2) then
      pyTmp2 := (← rerunM c w shared)
    should_run := pyTmp2
  return should_run

/- the Python it was generated from (comments and docstring dropped):
   def default_run_decision(self, worker: TestWorker) -> bool:
       if self.params.get('dry_run', 'no') == 'yes':
           logging.info(f'Should not run via dry test run {self}')
           return False
       elif self.is_flat():
           logging.debug(f'Should not run a flat node {self}')
           return False
       elif len(self.cloned_nodes) > 0:
           logging.debug(f'Should not run a cloned node {self}')
           return False
       elif worker.id not in self.params['name']:
           raise RuntimeError(f'Worker {worker.id} should not try to run {self}')
       if len(self.get_stateful_objects()) == 0:
           should_run = len(self.shared_results) == 0 or self.should_rerun(worker)
       else:
           should_scan = not self.is_finished(worker, 1)
           should_run_from_scan = self.scan_states() if should_scan else False
           if len(self.shared_filtered_results) == 0 and (not should_run_from_scan):
               self.should_rerun = lambda _: False
           should_run = should_run_from_scan if should_scan else False
           should_run = should_run or self.should_rerun(worker)
       return should_run
-/

end I2N.Extracted.GenRules
