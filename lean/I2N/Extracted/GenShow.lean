/- GENERATED on every run by harness/pygen_pxindex.py:extract_show (called by harness/props/c17.py:extract) from avocado_i2n/states/qcow2.py and avocado_i2n/states/ramfile.py — do not edit.
   Translator: harness/pygen.py (Python AST -> Lean `do` block, fails closed).  The equality with the hand
   written model is proved in the Props file that imports this module. -/
import I2N.Model.Show
namespace I2N.Extracted.GenShow
open I2N.Show

/-- `QCOW2VTBackend.show` of avocado_i2n/states/qcow2.py from `states = None` to its return, translated statement by statement (`images` = `params.objects('images')`, `imageStates i` = what `super().show` lists for image `i`) -/
def genVtShow (images : List Name) (imageStates : Name → List Name) : List Name := Id.run do
  let mut states : Option (List Name) := none
  states := images.foldl (fun states image_name => let image_states : List Name := (imageStates image_name); (match states with | none => (some image_states) | some pyVal_states => (some ((pyVal_states.filter (fun state => (image_states.contains state))).map (fun state => state))))) states
  return (match states with | some pyVal_states => pyVal_states | none => [])

/- the Python it was generated from (comments and docstring dropped):
   def show(cls, params: Params, object: Any=None) -> set[str]:
       states = None
       for image_name in params.objects('images'):
           image_params = params.object_params(image_name)
           image_params['images'] = image_name
           image_states = super().show(image_params, object=object)
           if states is None:
               states = list(image_states)
           else:
               states = [state for state in states if state in image_states]
       return states if states is not None else []
-/

/-- the combination part of `RamfileBackend._show` of avocado_i2n/states/ramfile.py (from `images_states = None` to the `None -> set()` fallback; the value of `images_states` behind it), translated statement by statement; a Python set is a list of which only membership is observed -/
def genRamImagesStates (images : List Name) (imageStates : Name → List Name) : Option (List Name) := Id.run do
  let mut images_states : Option (List Name) := none
  images_states := images.foldl (fun images_states image_name => let image_snapshots : List Name := (imageStates image_name); (match images_states with | none => (some image_snapshots) | some pyVal_images_states => (some (pyVal_images_states.filter (fun pyElem => image_snapshots.contains pyElem))))) images_states
  if images_states.isNone then
    images_states := some []
  return images_states

/- the Python it was generated from (comments and docstring dropped):
   def _show(cls, params: Params, object: Any=None) -> list[str]:
       images_states = None
       for image_name in params.objects('images'):
           image_params = params.object_params(image_name)
           image_params['images'] = image_name
           image_snapshots = cls.image_state_backend.show(image_params, object=object)
           if images_states is None:
               images_states = set(image_snapshots)
           else:
               images_states = images_states.intersection(image_snapshots)
       if images_states is None:
           images_states = set()
       return images_states
-/

end I2N.Extracted.GenShow
