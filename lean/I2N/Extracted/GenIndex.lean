/- GENERATED on every run by harness/pygen_pxindex.py:extract_index (called by harness/props/c16.py:extract) from avocado_i2n/cartgraph/node.py — do not edit.
   Translator: harness/pygen.py (Python AST -> Lean `do` block, fails closed).  The equality with the hand
   written model is proved in the Props file that imports this module. -/
import I2N.Lemmas.PyDict
namespace I2N.Extracted.GenIndex
open I2N.PyDict

/-- `EdgeRegister.get_workers` of avocado_i2n/cartgraph/node.py, translated statement by statement (a Python set is a list of which only membership is observed; `reg` = `self._registry`, `node` = the key of the optional argument) -/
def genGetWorkers (reg : PyReg) (node : Option String) : List String := Id.run do
  let mut worker_keys : List String := []
  let mut node_keys : List String := (if node.isSome then [(node.getD "")] else (keys reg))
  worker_keys := node_keys.foldl (fun worker_keys node_key => (worker_keys ++ (keys (getD reg node_key [])))) worker_keys
  return worker_keys

/- the Python it was generated from (comments and docstring dropped):
   def get_workers(self, node: 'TestNode'=None) -> set[str]:
       worker_keys = set()
       node_keys = [node.bridged_form] if node else self._registry.keys()
       for node_key in node_keys:
           worker_keys |= {*self._registry.get(node_key, {}).keys()}
       return worker_keys
-/

/-- `EdgeRegister.get_counters` of avocado_i2n/cartgraph/node.py, translated statement by statement -/
def genGetCounters (reg : PyReg) (node : Option String) (worker : Option String) : Int := Id.run do
  let mut counter : Int := (0 : Int)
  let mut node_keys : List String := (if node.isSome then [(node.getD "")] else (keys reg))
  counter := node_keys.foldl (fun counter node_key => let worker_keys : List String := (if worker.isSome then [(worker.getD "")] else (keys (getD reg node_key []))); (worker_keys.foldl (fun counter worker_key => (counter + (getD (getD reg node_key []) worker_key (0 : Int)))) counter)) counter
  return counter

/- the Python it was generated from (comments and docstring dropped):
   def get_counters(self, node: 'TestNode'=None, worker: TestWorker=None) -> int:
       counter = 0
       node_keys = [node.bridged_form] if node else self._registry.keys()
       for node_key in node_keys:
           worker_keys = [worker.id] if worker else self._registry.get(node_key, {}).keys()
           for worker_key in worker_keys:
               counter += self._registry.get(node_key, {}).get(worker_key, 0)
       return counter
-/

/-- `EdgeRegister.register` of avocado_i2n/cartgraph/node.py: the two membership tests are translated, the three subscript stores are pinned to the actions of I2N/Lemmas/PyDict.lean -/
def genRegister (node : String) (worker : String) : RegM (Unit) := do
  if (!((← regKeys).contains node)) then
    setInnerEmpty node
  if (!((← innerKeys node).contains worker)) then
    setCount node worker 0
  addCount node worker 1
  return ()

/- the Python it was generated from (comments and docstring dropped):
   def register(self, node: 'TestNode', worker: TestWorker) -> None:
       if node.bridged_form not in self._registry:
           self._registry[node.bridged_form] = {}
       if worker.id not in self._registry[node.bridged_form]:
           self._registry[node.bridged_form][worker.id] = 0
       self._registry[node.bridged_form][worker.id] += 1
-/

end I2N.Extracted.GenIndex
