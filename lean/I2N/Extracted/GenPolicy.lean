/- GENERATED on every run by harness/pygen_pxpolicy.py:extract_policy (called by harness/props/c12.py:extract) from avocado_i2n/states/setup.py — do not edit.
   Translator: harness/pygen.py (Python AST -> Lean `do` block, fails closed).  The equality with the hand
   written model is proved in the Props file that imports this module. -/
import I2N.Lemmas.PolicyM
namespace I2N.Extracted.GenPolicy
open I2N.Policy
open I2N.PolicyM

/-- one iteration of the loop of `get_states` of avocado_i2n/states/setup.py (`continue` = `return`) -/
def genGetOne (B : Backends) : M (Unit) := do
  let mut params_obj_name : String := (← rd (fun sp => sp.getD "object_name" ""))
  let mut params_obj_type : String := (← rd (fun sp => sp.getD "object_type" ""))
  if ((← rd (fun sp => sp.objects "skip_types")).contains params_obj_type) then
    return ()
  let mut pyTmp1 : Bool := (params_obj_type == "nets/vms/images")
  if pyTmp1 then
    pyTmp1 := (← getBoolM "image_readonly")
  if pyTmp1 then
    return ()
  if (!(← rd (truthyP "get_state"))) then
    return ()
  else
    pure ()
  setP "get_mode" (← rd (fun sp => sp.getD "get_mode" "ra"))
  let mut state_exists : Bool := (← chainM B Do.get params_obj_type params_obj_name)
  let state_backend ← backendM B
  vmM
  pure ()
  let mut action_if_exists : String := (← letterM "get_mode" 0)
  let mut action_if_doesnt_exist : String := (← letterM "get_mode" 1)
  if ((!state_exists) && ("a" == action_if_doesnt_exist)) then
    throw Err.abort
  else if ((!state_exists) && ("i" == action_if_doesnt_exist)) then
    return ()
  else if (!state_exists) then
    throw Err.invalidPolicy
  else if (state_exists && ("a" == action_if_exists)) then
    throw Err.abort
  else if (state_exists && ("r" == action_if_exists)) then
    pure ()
  else if (state_exists && ("i" == action_if_exists)) then
    return ()
  else if state_exists then
    throw Err.invalidPolicy
  if (["root", "0root", "boot", "0boot"].contains (← rd (fun sp => sp.getD "get_state" ""))) then
    bGetRootM state_backend
  else
    bGetM state_backend
  return ()

/- the Python it was generated from (comments and docstring dropped):
   def get_states(state_params, env):
       params_obj_name = state_params['object_name']
       params_obj_type = state_params['object_type']
       if params_obj_type in state_params.objects('skip_types'):
           logging.debug()
           return
       if params_obj_type == 'nets/vms/images' and state_params.get_boolean('image_readonly', False):
           logging.warning()
           return
       if not state_params.get('get_state'):
           logging.debug()
           return
       else:
           state = state_params['get_state']
       state_params.__setitem__('get_mode', state_params.get('get_mode', 'ra'))
       logging.info()
       state_exists = _state_check_chain('get', env, params_obj_type, params_obj_name, state_params)
       state_backend = BACKENDS[state_params['states']]
       vm = env.get_vm(state_params['vms']) if env is not None else None
       state_object = env if params_obj_type == 'nets' else vm
       action_if_exists = state_params['get_mode'][0]
       action_if_doesnt_exist = state_params['get_mode'][1]
       if not state_exists and 'a' == action_if_doesnt_exist:
           logging.info()
           raise TestAbortError("Snapshot '%s' of %s doesn't exist. Aborting due to passive mode.")
       elif not state_exists and 'i' == action_if_doesnt_exist:
           logging.warning()
           return
       elif not state_exists:
           raise TestError("Invalid policy %s: The start action on missing state can be either of 'abort', 'ignore'.")
       elif state_exists and 'a' == action_if_exists:
           logging.info()
           raise TestAbortError("Snapshot '%s' of %s already exists. Aborting due to passive mode.")
       elif state_exists and 'r' == action_if_exists:
           pass
       elif state_exists and 'i' == action_if_exists:
           logging.warning()
           return
       elif state_exists:
           raise TestError("Invalid policy %s: The start action on present state can be either of 'abort', 'reuse', 'ignore'.")
       if state_params['get_state'] in ROOTS:
           state_backend.get_root(state_params, state_object)
       else:
           state_backend.get(state_params, state_object)
-/

/-- one iteration of the loop of `set_states` of avocado_i2n/states/setup.py (`continue` = `return`) -/
def genSetOne (B : Backends) : M (Unit) := do
  let mut params_obj_name : String := (← rd (fun sp => sp.getD "object_name" ""))
  let mut params_obj_type : String := (← rd (fun sp => sp.getD "object_type" ""))
  if ((← rd (fun sp => sp.objects "skip_types")).contains params_obj_type) then
    return ()
  let mut pyTmp1 : Bool := (params_obj_type == "nets/vms/images")
  if pyTmp1 then
    pyTmp1 := (← getBoolM "image_readonly")
  if pyTmp1 then
    return ()
  if (!(← rd (truthyP "set_state"))) then
    return ()
  else
    pure ()
  setP "set_mode" (← rd (fun sp => sp.getD "set_mode" "ff"))
  let mut state_exists : Bool := (← chainM B Do.set params_obj_type params_obj_name)
  let state_backend ← backendM B
  vmM
  pure ()
  let mut action_if_exists : String := (← letterM "set_mode" 0)
  let mut action_if_doesnt_exist : String := (← letterM "set_mode" 1)
  if (state_exists && ("a" == action_if_exists)) then
    throw Err.abort
  else if (state_exists && ("r" == action_if_exists)) then
    return ()
  else if (state_exists && ("f" == action_if_exists)) then
    setP "unset_state" (← rd (fun sp => sp.getD "set_state" ""))
    if (["root", "0root", "boot", "0boot"].contains (← rd (fun sp => sp.getD "set_state" ""))) then
      bUnsetRootM state_backend
    else
      pure ()
      if state_backend.2 then
        pure ()
      else
        bUnsetM state_backend
  else if state_exists then
    throw Err.invalidPolicy
  else if ((!state_exists) && ("a" == action_if_doesnt_exist)) then
    throw Err.abort
  else if ((!state_exists) && ("f" == action_if_doesnt_exist)) then
    let mut pyTmp2 : Bool := (!(["root", "0root", "boot", "0boot"].contains (← rd (fun sp => sp.getD "set_state" ""))))
    if pyTmp2 then
      pyTmp2 := (!(← bCheckRootM state_backend))
    if pyTmp2 then
      throw Err.invalidPolicy
  else if (!state_exists) then
    throw Err.invalidPolicy
  if (["root", "0root", "boot", "0boot"].contains (← rd (fun sp => sp.getD "set_state" ""))) then
    bSetRootM state_backend
  else
    bSetM state_backend
  return ()

/- the Python it was generated from (comments and docstring dropped):
   def set_states(state_params, env):
       params_obj_name = state_params['object_name']
       params_obj_type = state_params['object_type']
       if params_obj_type in state_params.objects('skip_types'):
           logging.debug()
           return
       if params_obj_type == 'nets/vms/images' and state_params.get_boolean('image_readonly', False):
           logging.warning()
           return
       if not state_params.get('set_state'):
           logging.debug()
           return
       else:
           state = state_params['set_state']
       state_params.__setitem__('set_mode', state_params.get('set_mode', 'ff'))
       logging.info()
       state_exists = _state_check_chain('set', env, params_obj_type, params_obj_name, state_params)
       state_backend = BACKENDS[state_params['states']]
       vm = env.get_vm(state_params['vms']) if env is not None else None
       state_object = env if params_obj_type == 'nets' else vm
       action_if_exists = state_params['set_mode'][0]
       action_if_doesnt_exist = state_params['set_mode'][1]
       if state_exists and 'a' == action_if_exists:
           logging.info()
           raise TestAbortError("Snapshot '%s' of %s already exists. Aborting due to passive mode.")
       elif state_exists and 'r' == action_if_exists:
           logging.info()
           return
       elif state_exists and 'f' == action_if_exists:
           logging.info()
           state_params.__setitem__('unset_state', state_params['set_state'])
           if state_params['set_state'] in ROOTS:
               state_backend.unset_root(state_params, state_object)
           else:
               from .pool import SourcedStateBackend
               if issubclass(state_backend, SourcedStateBackend):
                   logging.warning()
               else:
                   logging.info()
                   state_backend.unset(state_params, state_object)
       elif state_exists:
           raise TestError("Invalid policy %s: The end action on present state can be either of 'abort', 'reuse', 'force'.")
       elif not state_exists and 'a' == action_if_doesnt_exist:
           logging.info()
           raise TestAbortError("Snapshot '%s' of %s doesn't exist. Aborting due to passive mode.")
       elif not state_exists and 'f' == action_if_doesnt_exist:
           if not state_params['set_state'] in ROOTS and (not state_backend.check_root(state_params, state_object)):
               raise TestError('Cannot force set state without a root state, use enforcing check policy to also force root (existing stateful object) creation.')
       elif not state_exists:
           raise TestError("Invalid policy %s: The end action on missing state can be either of 'abort', 'force'.")
       if state_params['set_state'] in ROOTS:
           state_backend.set_root(state_params, state_object)
       else:
           state_backend.set(state_params, state_object)
-/

/-- one iteration of the loop of `unset_states` of avocado_i2n/states/setup.py (`continue` = `return`) -/
def genUnsetOne (B : Backends) : M (Unit) := do
  let mut params_obj_name : String := (← rd (fun sp => sp.getD "object_name" ""))
  let mut params_obj_type : String := (← rd (fun sp => sp.getD "object_type" ""))
  if ((← rd (fun sp => sp.objects "skip_types")).contains params_obj_type) then
    return ()
  let mut pyTmp1 : Bool := (params_obj_type == "nets/vms/images")
  if pyTmp1 then
    pyTmp1 := (← getBoolM "image_readonly")
  if pyTmp1 then
    return ()
  if (!(← rd (truthyP "unset_state"))) then
    return ()
  else
    pure ()
  setP "unset_mode" (← rd (fun sp => sp.getD "unset_mode" "fi"))
  let mut state_exists : Bool := (← chainM B Do.unset params_obj_type params_obj_name)
  let state_backend ← backendM B
  vmM
  pure ()
  let mut action_if_exists : String := (← letterM "unset_mode" 0)
  let mut action_if_doesnt_exist : String := (← letterM "unset_mode" 1)
  if ((!state_exists) && ("a" == action_if_doesnt_exist)) then
    throw Err.abort
  else if ((!state_exists) && ("i" == action_if_doesnt_exist)) then
    return ()
  else if (!state_exists) then
    throw Err.invalidPolicy
  else if (state_exists && ("r" == action_if_exists)) then
    return ()
  else if (state_exists && ("f" == action_if_exists)) then
    pure ()
  else if state_exists then
    throw Err.invalidPolicy
  if (["root", "0root", "boot", "0boot"].contains (← rd (fun sp => sp.getD "unset_state" ""))) then
    bUnsetRootM state_backend
  else
    bUnsetM state_backend
  return ()

/- the Python it was generated from (comments and docstring dropped):
   def unset_states(state_params, env):
       params_obj_name = state_params['object_name']
       params_obj_type = state_params['object_type']
       if params_obj_type in state_params.objects('skip_types'):
           logging.debug()
           return
       if params_obj_type == 'nets/vms/images' and state_params.get_boolean('image_readonly', False):
           logging.warning()
           return
       if not state_params.get('unset_state'):
           logging.debug()
           return
       else:
           state = state_params['unset_state']
       state_params.__setitem__('unset_mode', state_params.get('unset_mode', 'fi'))
       logging.info()
       state_exists = _state_check_chain('unset', env, params_obj_type, params_obj_name, state_params)
       state_backend = BACKENDS[state_params['states']]
       vm = env.get_vm(state_params['vms']) if env is not None else None
       state_object = env if params_obj_type == 'nets' else vm
       action_if_exists = state_params['unset_mode'][0]
       action_if_doesnt_exist = state_params['unset_mode'][1]
       if not state_exists and 'a' == action_if_doesnt_exist:
           logging.info()
           raise TestAbortError("Snapshot '%s' of %s doesn't exist. Aborting due to passive mode.")
       elif not state_exists and 'i' == action_if_doesnt_exist:
           logging.warning()
           return
       elif not state_exists:
           raise TestError("Invalid policy %s: The unset action on missing state can be either of 'abort', 'ignore'.")
       elif state_exists and 'r' == action_if_exists:
           logging.info()
           return
       elif state_exists and 'f' == action_if_exists:
           pass
       elif state_exists:
           raise TestError("Invalid policy %s: The unset action on present state can be either of 'reuse', 'force'.")
       if state_params['unset_state'] in ROOTS:
           state_backend.unset_root(state_params, state_object)
       else:
           state_backend.unset(state_params, state_object)
-/

/-- one iteration of the loop of `check_states` (`true` = go on with the next object: `continue` or the end of the body; `false` = `return False`) -/
def genCheckOne (B : Backends) : M (Bool) := do
  let mut params_obj_name : String := (← rd (fun sp => sp.getD "object_name" ""))
  let mut params_obj_type : String := (← rd (fun sp => sp.getD "object_type" ""))
  if ((← rd (fun sp => sp.objects "skip_types")).contains params_obj_type) then
    return true
  let mut pyTmp1 : Bool := (params_obj_type == "nets/vms/images")
  if pyTmp1 then
    pyTmp1 := (← getBoolM "image_readonly")
  if pyTmp1 then
    return true
  let mut state : String := ""
  if (!(← rd (truthyP "check_state"))) then
    return true
  else
    state := (← rd (fun sp => sp.getD "check_state" ""))
  setP "check_opts" (← rd (fun sp => sp.getD "check_opts" "soft_boot=yes"))
  setP "check_mode" (← rd (fun sp => sp.getD "check_mode" "rf"))
  let state_backend ← backendM B
  vmM
  pure ()
  let mut action_if_root_exists : String := (← letterM "check_mode" 0)
  let mut action_if_root_doesnt_exist : String := (← letterM "check_mode" 1)
  let mut root_exists : Bool := (← bCheckRootM state_backend)
  copyRootM
  if (!root_exists) then
    if (action_if_root_doesnt_exist == "f") then
      setRP "pool_scope" "own"
      bSetRootRM state_backend
      root_exists := true
    else if (action_if_root_doesnt_exist == "r") then
      return false
    else
      throw Err.invalidPolicy
  else if (action_if_root_exists == "f") then
    setRP "pool_scope" "own"
    if (params_obj_type == "nets/vms") then
      destroyRM
    else
      bUnsetRootRM state_backend
    bSetRootRM state_backend
    root_exists := true
  else
    bGetRootRM state_backend
  let mut state_exists : Bool := false
  if (["root", "0root", "boot", "0boot"].contains state) then
    state_exists := root_exists
  else
    state_exists := ((← bShowM state_backend).contains state)
  if (!state_exists) then
    return false
  return true

/- the Python it was generated from (comments and docstring dropped):
   def check_states(state_params, env):
       params_obj_name = state_params['object_name']
       params_obj_type = state_params['object_type']
       if params_obj_type in state_params.objects('skip_types'):
           return True
       if params_obj_type == 'nets/vms/images' and state_params.get_boolean('image_readonly', False):
           logging.warning()
           return True
       if not state_params.get('check_state'):
           logging.debug()
           return True
       else:
           state = state_params['check_state']
       state_params.__setitem__('check_opts', state_params.get('check_opts', 'soft_boot=yes'))
       state_params.__setitem__('check_mode', state_params.get('check_mode', 'rf'))
       state_backend = BACKENDS[state_params['states']]
       vm = env.get_vm(state_params['vms']) if env is not None else None
       state_object = env if params_obj_type == 'nets' else vm
       action_if_root_exists = state_params['check_mode'][0]
       action_if_root_doesnt_exist = state_params['check_mode'][1]
       root_exists = state_backend.check_root(state_params, state_object)
       root_params = state_params.copy()
       if not root_exists:
           if action_if_root_doesnt_exist == 'f':
               root_params.__setitem__('pool_scope', 'own')
               state_backend.set_root(root_params, state_object)
               root_exists = True
           elif action_if_root_doesnt_exist == 'r':
               return False
           else:
               raise TestError("Invalid policy {}: The root nonexistence action can be either of 'reuse' or 'force'.")
       elif action_if_root_exists == 'f':
           root_params.__setitem__('pool_scope', 'own')
           if params_obj_type == 'nets/vms':
               vm.destroy(gracefully=root_params.get_dict('check_opts').get('soft_boot', 'yes') == 'yes')
           else:
               state_backend.unset_root(root_params, state_object)
           state_backend.set_root(root_params, state_object)
           root_exists = True
       else:
           state_backend.get_root(root_params, state_object)
       if state in ROOTS:
           state_exists = root_exists
       else:
           state_exists = state in state_backend.show(state_params, state_object)
       if not state_exists:
           return False
       return True
-/

/-- one iteration of the loop of `push_states` (`continue` = `return`) -/
def genPushOne (B : Backends) : M (Unit) := do
  let mut params_obj_name : String := (← rd (fun sp => sp.getD "object_name" ""))
  let mut params_obj_type : String := (← rd (fun sp => sp.getD "object_type" ""))
  let mut state : String := ""
  if (!(← rd (truthyP "push_state"))) then
    return ()
  else
    state := (← rd (fun sp => sp.getD "push_state" ""))
  if (["root", "0root", "boot", "0boot"].contains state) then
    return ()
  let mut composite_types : List String := (pySplitChar '/' params_obj_type)
  let mut composite_names : List String := (pySplitChar '/' params_obj_name)
  zipSetM composite_types composite_names
  setP "states_chain" (composite_types.getLast?.getD "")
  setP "set_state" (← rd (fun sp => sp.getD "push_state" ""))
  setP "set_mode" (← rd (fun sp => sp.getD "push_mode" "af"))
  doStatesM B Do.set
  return ()

/- the Python it was generated from (comments and docstring dropped):
   def push_states(state_params, env):
       params_obj_name = state_params['object_name']
       params_obj_type = state_params['object_type']
       if not state_params.get('push_state'):
           return
       else:
           state = state_params['push_state']
       if state in ROOTS:
           return
       composite_types = params_obj_type.split('/')
       composite_names = params_obj_name.split('/')
       for composite_type, composite_name in zip(composite_types, composite_names):
           state_params[composite_type] = composite_name
       state_params.__setitem__('states_chain', composite_types[-1])
       state_params.__setitem__('set_state', state_params['push_state'])
       state_params.__setitem__('set_mode', state_params.get('push_mode', 'af'))
       set_states(state_params, env)
-/

/-- one iteration of the loop of `pop_states` (`continue` = `return`) -/
def genPopOne (B : Backends) : M (Unit) := do
  let mut params_obj_name : String := (← rd (fun sp => sp.getD "object_name" ""))
  let mut params_obj_type : String := (← rd (fun sp => sp.getD "object_type" ""))
  let mut state : String := ""
  if (!(← rd (truthyP "pop_state"))) then
    return ()
  else
    state := (← rd (fun sp => sp.getD "pop_state" ""))
  if (["root", "0root", "boot", "0boot"].contains state) then
    return ()
  let mut composite_types : List String := (pySplitChar '/' params_obj_type)
  let mut composite_names : List String := (pySplitChar '/' params_obj_name)
  zipSetM composite_types composite_names
  setP "states_chain" (composite_types.getLast?.getD "")
  setP "get_state" (← rd (fun sp => sp.getD "pop_state" ""))
  setP "get_mode" (← rd (fun sp => sp.getD "pop_mode" "ra"))
  doStatesM B Do.get
  setP "unset_state" (← rd (fun sp => sp.getD "pop_state" ""))
  setP "unset_mode" (← rd (fun sp => sp.getD "pop_mode" "fa"))
  doStatesM B Do.unset
  return ()

/- the Python it was generated from (comments and docstring dropped):
   def pop_states(state_params, env):
       params_obj_name = state_params['object_name']
       params_obj_type = state_params['object_type']
       if not state_params.get('pop_state'):
           return
       else:
           state = state_params['pop_state']
       if state in ROOTS:
           return
       composite_types = params_obj_type.split('/')
       composite_names = params_obj_name.split('/')
       for composite_type, composite_name in zip(composite_types, composite_names):
           state_params[composite_type] = composite_name
       state_params.__setitem__('states_chain', composite_types[-1])
       state_params.__setitem__('get_state', state_params['pop_state'])
       state_params.__setitem__('get_mode', state_params.get('pop_mode', 'ra'))
       get_states(state_params, env)
       state_params.__setitem__('unset_state', state_params['pop_state'])
       state_params.__setitem__('unset_mode', state_params.get('pop_mode', 'fa'))
       unset_states(state_params, env)
-/

/-- `_state_check_chain("get", env, params_obj_type, params_obj_name, state_params)` of avocado_i2n/states/setup.py (the parameter `do` specialised by the front end) -/
def genChainGet (B : Backends) (params_obj_type : String) (params_obj_name : String) : M (Bool) := do
  setP "check_state" (← rd (fun sp => sp.getD "get_state" ""))
  if (← rd (truthyP "get_location")) then
    setP "show_location" (← rd (fun sp => sp.getD "get_location" ""))
  if ("get" == "set") then
    setP "check_opts" "soft_boot=yes"
    setP "soft_boot" "yes"
  else
    setP "check_opts" "soft_boot=no"
    setP "soft_boot" "no"
  let mut composite_types : List String := (pySplitChar '/' params_obj_type)
  let mut composite_names : List String := (pySplitChar '/' params_obj_name)
  zipSetM composite_types composite_names
  setP "states_chain" (composite_types.getLast?.getD "")
  let mut state_exists : Bool := (← checkStatesM B)
  return state_exists

/- the Python it was generated from (comments and docstring dropped):
   def _state_check_chain(env, params_obj_type, params_obj_name, state_params):
       state_params.__setitem__('check_state', state_params['get_state'])
       if state_params.get('get_location'):
           state_params.__setitem__('show_location', state_params['get_location'])
       if 'get' == 'set':
           state_params.__setitem__('check_opts', 'soft_boot=yes')
           state_params.__setitem__('soft_boot', 'yes')
       else:
           state_params.__setitem__('check_opts', 'soft_boot=no')
           state_params.__setitem__('soft_boot', 'no')
       composite_types = params_obj_type.split('/')
       composite_names = params_obj_name.split('/')
       for composite_type, composite_name in zip(composite_types, composite_names):
           state_params[composite_type] = composite_name
       state_params.__setitem__('states_chain', composite_types[-1])
       state_exists = check_states(state_params, env)
       return state_exists
-/

/-- `_state_check_chain("set", env, params_obj_type, params_obj_name, state_params)` of avocado_i2n/states/setup.py (the parameter `do` specialised by the front end) -/
def genChainSet (B : Backends) (params_obj_type : String) (params_obj_name : String) : M (Bool) := do
  setP "check_state" (← rd (fun sp => sp.getD "set_state" ""))
  if (← rd (truthyP "set_location")) then
    setP "show_location" (← rd (fun sp => sp.getD "set_location" ""))
  if ("set" == "set") then
    setP "check_opts" "soft_boot=yes"
    setP "soft_boot" "yes"
  else
    setP "check_opts" "soft_boot=no"
    setP "soft_boot" "no"
  let mut composite_types : List String := (pySplitChar '/' params_obj_type)
  let mut composite_names : List String := (pySplitChar '/' params_obj_name)
  zipSetM composite_types composite_names
  setP "states_chain" (composite_types.getLast?.getD "")
  let mut state_exists : Bool := (← checkStatesM B)
  return state_exists

/- the Python it was generated from (comments and docstring dropped):
   def _state_check_chain(env, params_obj_type, params_obj_name, state_params):
       state_params.__setitem__('check_state', state_params['set_state'])
       if state_params.get('set_location'):
           state_params.__setitem__('show_location', state_params['set_location'])
       if 'set' == 'set':
           state_params.__setitem__('check_opts', 'soft_boot=yes')
           state_params.__setitem__('soft_boot', 'yes')
       else:
           state_params.__setitem__('check_opts', 'soft_boot=no')
           state_params.__setitem__('soft_boot', 'no')
       composite_types = params_obj_type.split('/')
       composite_names = params_obj_name.split('/')
       for composite_type, composite_name in zip(composite_types, composite_names):
           state_params[composite_type] = composite_name
       state_params.__setitem__('states_chain', composite_types[-1])
       state_exists = check_states(state_params, env)
       return state_exists
-/

/-- `_state_check_chain("unset", env, params_obj_type, params_obj_name, state_params)` of avocado_i2n/states/setup.py (the parameter `do` specialised by the front end) -/
def genChainUnset (B : Backends) (params_obj_type : String) (params_obj_name : String) : M (Bool) := do
  setP "check_state" (← rd (fun sp => sp.getD "unset_state" ""))
  if (← rd (truthyP "unset_location")) then
    setP "show_location" (← rd (fun sp => sp.getD "unset_location" ""))
  if ("unset" == "set") then
    setP "check_opts" "soft_boot=yes"
    setP "soft_boot" "yes"
  else
    setP "check_opts" "soft_boot=no"
    setP "soft_boot" "no"
  let mut composite_types : List String := (pySplitChar '/' params_obj_type)
  let mut composite_names : List String := (pySplitChar '/' params_obj_name)
  zipSetM composite_types composite_names
  setP "states_chain" (composite_types.getLast?.getD "")
  let mut state_exists : Bool := (← checkStatesM B)
  return state_exists

/- the Python it was generated from (comments and docstring dropped):
   def _state_check_chain(env, params_obj_type, params_obj_name, state_params):
       state_params.__setitem__('check_state', state_params['unset_state'])
       if state_params.get('unset_location'):
           state_params.__setitem__('show_location', state_params['unset_location'])
       if 'unset' == 'set':
           state_params.__setitem__('check_opts', 'soft_boot=yes')
           state_params.__setitem__('soft_boot', 'yes')
       else:
           state_params.__setitem__('check_opts', 'soft_boot=no')
           state_params.__setitem__('soft_boot', 'no')
       composite_types = params_obj_type.split('/')
       composite_names = params_obj_name.split('/')
       for composite_type, composite_name in zip(composite_types, composite_names):
           state_params[composite_type] = composite_name
       state_params.__setitem__('states_chain', composite_types[-1])
       state_exists = check_states(state_params, env)
       return state_exists
-/

end I2N.Extracted.GenPolicy
