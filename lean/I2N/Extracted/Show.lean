/- GENERATED on every run by harness/props/c17.py:extract from /repo's AST (avocado_i2n/states/qcow2.py, ramfile.py) -- do not edit -/
namespace I2N.Extracted.Show
def offRegexSrc : String := "^\\d+\\s+([\\w\\.-]+)\\s*(0 B)\\s+\\d{4}-\\d\\d-\\d\\d"
def offRegexFlags : String := "re.MULTILINE"
def onRegexSrc : String := "^\\d+\\s+([\\w\\.-]+)\\s*(?!0 B)(\\d+e?[\\-\\+]?[\\.\\d]* \\w+)\\s+\\d{4}-\\d\\d-\\d\\d"
def onRegexFlags : String := "re.MULTILINE"
def ramSuffix : String := ".state"
def ramCut : Nat := 6
def extSuffix : String := ".qcow2"
def extCut : Nat := 6
end I2N.Extracted.Show
