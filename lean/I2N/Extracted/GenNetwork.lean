/- GENERATED on every run by harness/pygen_pxnet.py:extract_net (called by harness/props/c18.py:extract) from avocado_i2n/vmnet/network.py — do not edit.
   Translator: harness/pygen.py (Python AST -> Lean `do` block, fails closed).  The equality with the hand
   written model is proved in the Props file that imports this module. -/
import I2N.Extracted.GenNet
namespace I2N.Extracted.GenNetwork
open I2N.Net
open I2N.Extracted.GenNet

/-- `<interface>.netconfig` used as an object (the model's `assertion` when it is None; Python: AttributeError) -/
def ncOf (i : Nat) : NetM Nat := fun s => match (s.iface i).nc with | some n => .ok (n, s) | none => .error .assertion
/-- `<interface>.ip` -/
def ipOf (i : Nat) : NetM Nat := fun s => .ok ((s.iface i).ip, s)
/-- `del <netconfig n>.interfaces[ip]` (KeyError when missing) -/
def delIfs (n ip : Nat) : NetM Unit := fun s =>
  if !hasKey ip (s.nc n).ifs then .error .keyError else .ok ((), s.setNc n (fun k => { k with ifs := adel ip k.ifs }))
/-- `<netconfig n>.get_allocatable_address()` (the hand model's `allocate`; its own tie: genAllocate) -/
def allocM (n : Nat) : NetM Nat := fun s =>
  match allocate (s.nc n) with | .error e => .error e | .ok (a, k) => .ok (a, s.setNc n (fun _ => k))
/-- `<interface i>.ip = a` -/
def setIp (i a : Nat) : NetM Unit := fun s => .ok ((), s.setIface i (fun f => { f with ip := a }))
/-- `<interface i>.netconfig = <netconfig n>` -/
def setNcRef (i n : Nat) : NetM Unit := fun s => .ok ((), s.setIface i (fun f => { f with nc := some n }))
/-- a nic name of the server: the id of the interface object registered under it, `none` = the empty name -/
abbrev NicName := Option Nat

/-- `VMNetwork.reattach_interface` of avocado_i2n/vmnet/network.py, cut by harness/pygen_pxnet.py: the test of the proxy selection (`server_nic` is the resolved name of the pinned head); a nic name is the id of the interface registered under it, the empty name is `none` -/
def genReattachProxySelected (r : Nat) (p : NicName) : Bool := Id.run do
  return ((!(p == (none : NicName))) && (!(p == (some r : NicName))))

/- the Python it was generated from (comments and docstring dropped):
   def reattach_proxy_selected(proxy_nic, server_nic):
       return proxy_nic != '' and proxy_nic != server_nic
-/

/-- `VMNetwork.reattach_interface` of avocado_i2n/vmnet/network.py, cut by harness/pygen_pxnet.py: the statements between `netconfig = ref_interface.netconfig` and `if proxy_interface is not None:`; `c` = interface, `tn` = netconfig -/
def genReattachAttach (c : Nat) (tn : Nat) : NetM (Unit) := do
  delIfs (← ncOf c) (← ipOf c)
  setIp c (← allocM tn)
  genAddInterface tn c
  return ()

/- the Python it was generated from (comments and docstring dropped):
   def reattach_attach():
       del interface.netconfig.interfaces[interface.ip]
       interface.ip = netconfig.get_allocatable_address()
       netconfig.add_interface(interface)
-/

/-- `VMNetwork.reattach_interface` of avocado_i2n/vmnet/network.py, cut by harness/pygen_pxnet.py: the body of `if proxy_interface is not None:`; `r` = ref_interface, `pi` = proxy_interface -/
def genReattachProxyPart (c : Nat) (r : Nat) (tn : Nat) (pi : Nat) : NetM (Unit) := do
  delIfs tn (← ipOf c)
  setIp r (← ipOf pi)
  setIp c (← allocM (← ncOf pi))
  setNcRef c (← ncOf pi)
  return ()

/- the Python it was generated from (comments and docstring dropped):
   def reattach_proxy_part():
       del netconfig.interfaces[interface.ip]
       ref_interface.ip = proxy_interface.ip
       interface.ip = proxy_interface.netconfig.get_allocatable_address()
       interface.netconfig = proxy_interface.netconfig
-/

/-- the skeleton of `reattach_interface` (matched structurally): the pinned head gives the interface objects `c`,
`r`; `proxy_interface` is None unless the selection test holds; `netconfig = ref_interface.netconfig`; the attach
part; `if proxy_interface is not None:` the proxy part; the pinned tail does not touch the registry -/
def genReattach (c r : Nat) (p : NicName) : NetM Unit := do
  let proxy_interface : Option Nat := if genReattachProxySelected r p then p else none
  let tn ← ncOf r
  genReattachAttach c tn
  match proxy_interface with
  | some pi => genReattachProxyPart c r tn pi
  | none => pure ()

end I2N.Extracted.GenNetwork
