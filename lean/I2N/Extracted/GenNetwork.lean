/- GENERATED on every run by harness/pygen_pxnet.py:extract_net (called by harness/props/c18.py:extract) from avocado_i2n/vmnet/network.py — do not edit.
   Translator: harness/pygen.py (Python AST -> Lean `do` block, fails closed).  The equality with the hand
   written model is proved in the Props file that imports this module. -/
import I2N.Extracted.GenNet
namespace I2N.Extracted.GenNetwork
open I2N.Net
open I2N.Extracted.GenNet

/-- `<interface>.netconfig` used as an object (the model's `assertion` when it is None; Python: AttributeError) -/
def ncOf (i : Nat) : NetM Nat := fun s => match (s.iface i).nc with | some n => .ok (n, s) | none => .error .assertion
/-- `<interface>.ip` -/
def ipOf (i : Nat) : NetM Nat := fun s => .ok ((s.iface i).ip, s)
/-- `del <netconfig n>.interfaces[ip]` (KeyError when missing) -/
def delIfs (n ip : Nat) : NetM Unit := fun s =>
  if !hasKey ip (s.nc n).ifs then .error .keyError else .ok ((), s.setNc n (fun k => { k with ifs := adel ip k.ifs }))
/-- `<netconfig n>.get_allocatable_address()` (the hand model's `allocate`; its own tie: genAllocate) -/
def allocM (n : Nat) : NetM Nat := fun s =>
  match allocate (s.nc n) with | .error e => .error e | .ok (a, k) => .ok (a, s.setNc n (fun _ => k))
/-- `<interface i>.ip = a` -/
def setIp (i a : Nat) : NetM Unit := fun s => .ok ((), s.setIface i (fun f => { f with ip := a }))
/-- `<interface i>.netconfig = <netconfig n>` -/
def setNcRef (i n : Nat) : NetM Unit := fun s => .ok ((), s.setIface i (fun f => { f with nc := some n }))
/-- a nic name of the server: the id of the interface object registered under it, `none` = the empty name -/
abbrev NicName := Option Nat
/-- `self.interfaces["%s.%s" % (server.name, proxy_nic)]`: the object registered under the name; nothing is
registered under the empty nic name (KeyError) -/
def lookupNic (p : NicName) : NetM Nat := fun s => match p with | some pi => .ok (pi, s) | none => .error .keyError

/-- `VMNetwork.reattach_interface` of avocado_i2n/vmnet/network.py, cut by harness/pygen_pxnet.py: the test of the proxy selection (`server_nic` is the resolved name of the pinned head); a nic name is the id of the interface registered under it, the empty name is `none` -/
def genReattachProxySelected (r : Nat) (p : NicName) : Bool := Id.run do
  return ((!(p == (none : NicName))) && (!(p == (some r : NicName))))

/- the Python it was generated from (comments and docstring dropped):
   def reattach_proxy_selected(proxy_nic, server_nic):
       return proxy_nic != '' and proxy_nic != server_nic
-/

/-- `VMNetwork.reattach_interface` of avocado_i2n/vmnet/network.py, cut by harness/pygen_pxnet.py: the statements between `netconfig = ref_interface.netconfig` and `if proxy_interface is not None:`; `c` = interface, `tn` = netconfig -/
def genReattachAttach (c : Nat) (tn : Nat) : NetM (Unit) := do
  delIfs (← ncOf c) (← ipOf c)
  setIp c (← allocM tn)
  genAddInterface tn c
  return ()

/- the Python it was generated from (comments and docstring dropped):
   def reattach_attach():
       del interface.netconfig.interfaces[interface.ip]
       interface.ip = netconfig.get_allocatable_address()
       netconfig.add_interface(interface)
-/

/-- `VMNetwork.reattach_interface` of avocado_i2n/vmnet/network.py, cut by harness/pygen_pxnet.py: the body of `if proxy_interface is not None:`; `r` = ref_interface, `pi` = proxy_interface -/
def genReattachProxyPart (c : Nat) (r : Nat) (tn : Nat) (pi : Nat) : NetM (Unit) := do
  delIfs tn (← ipOf c)
  setIp r (← ipOf pi)
  setIp c (← allocM (← ncOf pi))
  setNcRef c (← ncOf pi)
  return ()

/- the Python it was generated from (comments and docstring dropped):
   def reattach_proxy_part():
       del netconfig.interfaces[interface.ip]
       ref_interface.ip = proxy_interface.ip
       interface.ip = proxy_interface.netconfig.get_allocatable_address()
       interface.netconfig = proxy_interface.netconfig
-/

/-- the skeleton of `reattach_interface` (matched structurally): the pinned head gives the interface objects `c`,
`r`; `proxy_interface` is None unless the selection test holds, then it is looked up (genReattachProxy);
`netconfig = ref_interface.netconfig`; the attach
part; `if proxy_interface is not None:` the proxy part; the pinned tail does not touch the registry -/
def genReattachProxy (r : Nat) (p : NicName) : NetM (Option Nat) :=
  if genReattachProxySelected r p then (do let pi ← lookupNic p; pure (some pi)) else pure none
def genReattach (c r : Nat) (p : NicName) : NetM Unit := do
  let proxy_interface ← genReattachProxy r p
  let tn ← ncOf r
  genReattachAttach c tn
  match proxy_interface with
  | some pi => genReattachProxyPart c r tn pi
  | none => pure ()

/-- `<netconfig n>.can_add_interface(<interface i>)` (genCanAdd on the current objects) -/
def canAddM (n i : Nat) : NetM Bool := fun s =>
  match genCanAdd (s.nc n) i (s.iface i) with | .error e => .error e | .ok b => .ok (b, s)
/-- `self.new_netconfig()`: a new netconfig object (the next id), nothing set yet -/
def newNetconfig : NetM Nat := fun s =>
  .ok (s.nNc, { s with nNc := s.nNc + 1, nc := fun m => if m = s.nNc then default else s.nc m })
/-- `<netconfig n>.from_interface(<interface i>)` (the hand model's `fromInterface`: every attribute is set) -/
def fromInterfaceM (n i : Nat) : NetM Unit := fun s => .ok ((), s.setNc n (fun _ => fromInterface (s.iface i)))
/-- `self.netconfigs[<netconfig n>.net_ip] = <netconfig n>` -/
def registerNc (n : Nat) : NetM Unit := fun s => .ok ((), { s with reg := aset (s.nc n).netIp n s.reg })
/-- `self.netconfigs.values()` when the loop starts -/
def registered : NetM (List (Nat × Nat)) := fun s => .ok (s.reg, s)

/-- `VMNetwork.integrate_node` of avocado_i2n/vmnet/network.py, cut by harness/pygen_pxnet.py: the test of `for netconfig in self.netconfigs.values(): if <test>:`; `n` = netconfig, `i` = interface -/
def genIntegrateTest (n : Nat) (i : Nat) : NetM (Bool) := do
  return (← canAddM n i)

/- the Python it was generated from (comments and docstring dropped):
   def integrate_node_test():
       return netconfig.can_add_interface(interface)
-/

/-- `VMNetwork.integrate_node` of avocado_i2n/vmnet/network.py, cut by harness/pygen_pxnet.py: the statements of the `if` in front of its `break` -/
def genIntegrateFound (n : Nat) (i : Nat) : NetM (Unit) := do
  genAddInterface n i
  return ()

/- the Python it was generated from (comments and docstring dropped):
   def integrate_node_found():
       netconfig.add_interface(interface)
-/

/-- `VMNetwork.integrate_node` of avocado_i2n/vmnet/network.py, cut by harness/pygen_pxnet.py: the `else` of the inner loop (no registered netconfig takes the interface) -/
def genIntegrateNew (i : Nat) : NetM (Unit) := do
  let n ← newNetconfig
  fromInterfaceM n i
  genAddInterface n i
  registerNc n
  return ()

/- the Python it was generated from (comments and docstring dropped):
   def integrate_node_new():
       netconfig = self.new_netconfig()
       netconfig.from_interface(interface)
       netconfig.add_interface(interface)
       self.netconfigs[netconfig.net_ip] = netconfig
-/

/-- the inner for/break of `integrate_node` (matched structurally): the first registered netconfig, in the order
of the dictionary, that passes `genIntegrateTest` (the test may raise, which ends the call) -/
def genFindNc (i : Nat) : List (Nat × Nat) → NetM (Option Nat)
  | [] => pure none
  | (_, n) :: rest => do
    if (← genIntegrateTest n i) then return some n
    genFindNc i rest
/-- the body of `for interface in node.interfaces.values():` — the for/else: the found part for the first netconfig
that passes the test (then `break`), the `else` part when none does -/
def genPlace (i : Nat) : NetM Unit := do
  match (← genFindNc i (← registered)) with
  | some n => genIntegrateFound n i
  | none => genIntegrateNew i
def genPlaceAll : List Nat → NetM Unit
  | [] => pure ()
  | i :: rest => do
    genPlace i
    genPlaceAll rest
/-- `integrate_node` for a node whose (new, pinned first loop) interface objects are `first … first+count-1`, in
the order of `node.interfaces.values()` -/
def genIntegrateNode (first count : Nat) : NetM Unit := genPlaceAll (List.range' first count)

/-- `self.nodes[vm_name] = self.new_node(vm)`: a node object without interfaces; not part of the registry state -/
def newNode : NetM Unit := pure ()

/-- `VMNetwork.__init__` of avocado_i2n/vmnet/network.py, cut by harness/pygen_pxnet.py: the last two statements of the loop over the vms; the interface objects of this vm are `first … first+count-1` -/
def genInitNode (first : Nat) (count : Nat) : NetM (Unit) := do
  newNode
  genIntegrateNode first count
  return ()

/- the Python it was generated from (comments and docstring dropped):
   def init_node():
       self.nodes[vm_name] = self.new_node(vm)
       self.integrate_node(self.nodes[vm_name])
-/

/-- `for vm_name in params.objects("vms"):` (matched structurally): `counts` = the number of nics of every vm, in
order; the interface objects are numbered in creation order -/
def genInit : Nat → List Nat → NetM Unit
  | _, [] => pure ()
  | first, count :: rest => do
    genInitNode first count
    genInit (first + count) rest

end I2N.Extracted.GenNetwork
