/- GENERATED on every run by harness/props/c13.py:extract from /repo/avocado_i2n/states/pool.py and
   /repo/tp_folder/configs/groups-base.cfg — do not edit.  Literals only; the control flow is mirrored by
   hand in I2N/Model/Pool.lean and tied to the code by the correspondence run. -/
namespace I2N.Extracted.Pool

/-- `get_source_scope`: the returned literals in source order (other gateway, other host, the shared pool's
path, the swarm pool's path, anything else) -/
abbrev scopeOtherGateway : String := "cluster"
abbrev scopeOtherHost : String := "swarm"
abbrev scopeSharedPath : String := "shared"
abbrev scopeSwarmPath : String := "own"
abbrev scopeElse : String := "shared"

/-- `get_sources.proximity`: the four `score +=` literals in source order -/
abbrev proxGateway : Nat := 1000
abbrev proxHost : Nat := 100
abbrev proxSwarmPath : Nat := 10
abbrev proxOtherPath : Nat := 1

/-- `SourcedStateBackend.<op>`: the literal in `source_scope == <lit>` and in `<lit> in scopes` -/
abbrev showSkip : String := "own"
abbrev showLocal : String := "own"
abbrev getSkip : String := "own"
abbrev getLocal : String := "own"
abbrev setSkip : String := "own"
abbrev setLocal : String := "own"
abbrev unsetSkip : String := "own"
abbrev unsetLocal : String := "own"

/-- `RootSourcedStateBackend.<op>`: literals compared with `params["pool_scope"]`, in source order -/
abbrev checkRootLocal : String := "own"
abbrev getRootNotIn : String := "own"
abbrev getRootLocal : String := "own"
abbrev setRootLocal : String := "own"
abbrev setRootPool : String := "shared"
abbrev unsetRootLocal : String := "own"
abbrev unsetRootPool : String := "shared"
abbrev rootVmTypes : List String := ["vms", "nets/vms"]

/-- `QCOW2ImageTransfer.compare_chain`: object types that carry a vm state file, and the file suffixes -/
abbrev chainVmTypes : List String := ["vms", "nets/vms"]
abbrev chainImageSuffix : String := ".qcow2"
abbrev chainStateSuffix : String := ".state"

/-- the documented scope names (default of `pool_scope` in tp_folder/configs/groups-base.cfg) -/
abbrev allScopes : List String := ["own", "swarm", "cluster", "shared"]

end I2N.Extracted.Pool
