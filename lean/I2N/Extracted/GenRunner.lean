/- GENERATED on every run by harness/pygen_pxrunner.py:extract_runner (called by harness/props/c10.py:extract) from avocado_i2n/plugins/runner.py — do not edit.
   Translator: harness/pygen.py (Python AST -> Lean `do` block, fails closed).  The equality with the hand
   written model is proved in the Props file that imports this module. -/
import I2N.Model.Rules
namespace I2N.Extracted.GenRunner
open I2N.Rules

/-- what the segments of `run_test_node` read and write: `node.results`, `self.job.result.tests`, `node.prefix` -/
structure RSt where
  results : List Result
  job : List JobRes
  pfx : String
deriving Repr, DecidableEq

abbrev M := StateT RSt (Except Err)
def readSt {α : Type} (f : RSt → α) : M α := fun st => .ok (f st, st)
def modSt (f : RSt → RSt) : M Unit := fun st => .ok ((), f st)
/-- `node.results.remove(r)`: the first equal entry is removed, ValueError when there is none -/
def removeM (r : Result) : M Unit := fun st =>
  if st.results.contains r then .ok ((), { st with results := st.results.erase r }) else .error Err.removeMissing
/-- `max(l, default=d)` -/
def pyMaxDefault (l : List Nat) (d : Nat) : Nat :=
  match l with
  | [] => d
  | t :: ts => ts.foldl max t
/-- `test_result["status"] = "WARN"` on the record the lookup returned (the first one with that name and uid): the
dictionary is the element of `job.result.tests` itself -/
def warnInPlace (name uid : String) : M Unit := modSt (fun st => { st with job := warnFirst name uid st.job })

/-- `run_test_node` from behind the flat-node guard up to `await self.run_test_task(node)`: `nm` = `node.params["name"]`, `k` = `len(node.shared_results)` (only the length of that list is read); the value is the frame (original_prefix, run_times, uid, name, node_result) the later segments read -/
def genRunBefore (nm : String) (k : Nat) : M (String × Int × String × String × Result) := do
  let mut original_prefix : String := (← readSt (·.pfx))
  let mut run_times : Int := (Int.ofNat (List.replicate k ()).length)
  if (decide (run_times > (0 : Int))) then
    modSt (fun st => { st with pfx := original_prefix ++ "r" ++ toString run_times.toNat })
  let mut uid : String := (← readSt (·.pfx))
  let mut name : String := nm
  let node_result : Result := { name := name, status := "UNKNOWN", time := none }
  modSt (fun st => { st with results := st.results ++ [node_result] })
  return (original_prefix, run_times, uid, name, node_result)

/- the Python it was generated from (comments and docstring dropped):
   def run_test_node_before(node):
       original_prefix = node.prefix
       run_times = len(node.shared_results)
       if run_times > 0:
           node.prefix = original_prefix + f'r{run_times}'
       uid = node.id_test.uid
       name = node.params['name']
       node_result = {'name': name, 'status': 'UNKNOWN'}
       node.results += [node_result]
       return (original_prefix, run_times, uid, name, node_result)
-/

/-- the generator inside `next(...)` of one poll as a list: the records of `job.result.tests` with that name and uid, in order (`next` takes the first; StopIteration when there is none) -/
def genLookup (tests : List JobRes) (name : String) (uid : String) : List JobRes := Id.run do
  return ((tests.filter (fun x => ((x.name == name) && (x.uid == uid)))).map (fun x => x))

/- the Python it was generated from (comments and docstring dropped):
   def run_test_node_lookup(name, uid):
       return [x for x in self.job.result.tests if x['name'].name == name and x['name'].uid == uid]
-/

/-- one poll of the lookup loop when `next(...)` returned the record `x` (the `try` body up to its `break`): duration rule, the result appended to `node.results`, the placeholder removed; the value is `test_status` -/
def genPollFound (name : String) (uid : String) (node_result : Result) (x : JobRes) : M (String) := do
  let mut test_result : JobRes := x
  if (decide ((Int.ofNat (← readSt (·.results)).length) > (0 : Int))) then
    let mut duration : Nat := test_result.time
    let max_allowed : Nat := pyMaxDefault (((← readSt (·.results)).filter (fun r => r.status == "PASS")).map (fun r => r.time.getD 0)) duration
    if test_result.status == "PASS" && decide (4 * duration > 5 * max_allowed) then test_result := { test_result with status := "WARN" }; warnInPlace name uid
  let mut job_result : Result := { name := "", status := test_result.status, time := some test_result.time }
  job_result := { job_result with name := test_result.name }
  modSt (fun st => { st with results := st.results ++ [job_result] })
  removeM node_result
  let mut test_status : String := (lower test_result.status)
  return test_status

/- the Python it was generated from (comments and docstring dropped):
   def run_test_node_found(name, uid, node_result):
       test_result = next((x for x in self.job.result.tests if x['name'].name == name and x['name'].uid == uid))
       if len(node.results) > 0:
           duration = float(test_result['time_elapsed'])
           max_allowed = max([float(r['time_elapsed']) for r in node.results if r['status'] == 'PASS'], default=duration)
           logging.info(f'Validating test duration {duration} is within usual bounds ({max_allowed})')
           if test_result['status'] == 'PASS' and float(duration) > 1.25 * max_allowed:
               logging.warning(f'Test result {uid} was obtained but test took much longer ({duration}) than usual')
               test_result['status'] = 'WARN'
       job_result = {key: value for key, value in test_result.items()}
       job_result['name'] = test_result['name'].name
       node.results += [job_result]
       node.results.remove(node_result)
       test_status = test_result['status'].lower()
       return test_status
-/

/-- one poll of the lookup loop when `next(...)` raised StopIteration, behind `await asyncio.sleep(30)`: the value is `test_status` -/
def genPollMiss  : String := Id.run do
  let mut test_status : String := "error"
  return test_status

/- the Python it was generated from (comments and docstring dropped):
   def run_test_node_miss():
       logging.warning(f"Test result {uid} wasn't yet found and could not be extracted ({i}/{status_timeout})")
       test_status = 'error'
       return test_status
-/

/-- `run_test_node` behind the lookup loop: the prefix is restored, the value is the returned Boolean -/
def genRunAfter (original_prefix : String) (test_status : String) : M (Bool) := do
  modSt (fun st => { st with pfx := original_prefix })
  pure ()
  pure ()
  if (["error", "fail"].contains test_status) then
    return false
  else
    return true

/- the Python it was generated from (comments and docstring dropped):
   def run_test_node_after(original_prefix, run_times, test_status):
       node.prefix = original_prefix
       logging.info(f'Finished running test with status {test_status.upper()}')
       if run_times > 0:
           logging.info(f'Finished running test {run_times + 1} times')
       if test_status in ['error', 'fail']:
           return False
       else:
           return True
-/

/-- `for i in range(status_timeout)`: the default of the parameter -/
def genStatusTimeout : Nat := 10

/-- ONE iteration of the lookup loop up to its next suspension or `break`.  NOT translated but matched structurally by
harness/pygen_pxrunner.py (`try: test_result = next(<genLookup>); <genPollFound>; break` / `except StopIteration: await
asyncio.sleep(30); <genPollMiss>`): `some st` = the loop was left by `break` with `test_status = st`, `none` = the
coroutine is suspended in the sleep -/
def genPoll (name uid : String) (node_result : Result) : M (Option String) := do
  match genLookup (← readSt (·.job)) name uid with
  | x :: _ => return some (← genPollFound name uid node_result x)
  | [] => return none

/-- the lookup loop from its `i`-th iteration on; `env j` = the records other coroutines append to `job.result.tests`
while this one sleeps for the `j`-th time (j = 1 …).  After `status_timeout` misses the loop ends through its `else`
(a log line) with the `test_status` of the last handler -/
def genPolls (env : Nat → List JobRes) (name uid : String) (node_result : Result) : Nat → Nat → M String
  | _, 0 => pure genPollMiss
  | i, n + 1 => do
    match (← genPoll name uid node_result) with
    | some st => pure st
    | none =>
      modSt (fun st => { st with job := st.job ++ env (i + 1) })
      genPolls env name uid node_result (i + 1) n

/-- the part of `run_test_node` behind `await self.run_test_task(node)`, given the frame of the first segment -/
def genRunResume (env : Nat → List JobRes) (fr : String × Int × String × String × Result) : M Bool := do
  let st ← genPolls env fr.2.2.2.1 fr.2.2.1 fr.2.2.2.2 0 genStatusTimeout
  genRunAfter fr.1 st

/-- `run_test_node` of a node that is not flat: `env 0` = what is appended to `job.result.tests` while the task runs -/
def genRunTestNode (env : Nat → List JobRes) (nm : String) (k : Nat) : M Bool := do
  let fr ← genRunBefore nm k
  modSt (fun st => { st with job := st.job ++ env 0 })
  genRunResume env fr

/-- `STATUSES_MAPPING[status]` (avocado.core.teststatus; the mapping itself is `Extracted.Rules.statusesMapping`) -/
def statusOkM (s : String) : Except Err Bool :=
  match statusOk s with
  | some b => pure b
  | none => throw Err.keyError

/-- the right side of `shared_status &= any(…)` in the loop of `TestRunner.all_results_ok`: some record with the name of `test` has an acceptable status (`any` stops at the first one; an unmapped status met before is Python's KeyError) -/
def genAnyOk (tests : List JobRes) (test : JobRes) : Except Err (Bool) := do
  return (← ((tests.filter (fun t => (t.name == test.name))).anyM (fun t => statusOkM t.status)))

/- the Python it was generated from (comments and docstring dropped):
   def all_results_ok_any(test):
       return any((STATUSES_MAPPING[t['status']] for t in self.job.result.tests if t['name'].name == test['name'].name))
-/

/-- the loop of `all_results_ok` from the test `test` on.  NOT translated but matched structurally by
harness/pygen_pxrunner.py: `shared_status = True` / `for test in self.job.result.tests:` `shared_status &= <genAnyOk>`;
`if not shared_status: return False` / `return True` (`&=` evaluates its right side whatever the flag is) -/
def genAllOkLoop (tests : List JobRes) : Bool → List JobRes → Except Err Bool
  | _, [] => pure true
  | shared, test :: rest => do
    let shared' := shared && (← genAnyOk tests test)
    if !shared' then return false
    genAllOkLoop tests shared' rest

def genAllResultsOk (tests : List JobRes) : Except Err Bool := genAllOkLoop tests true tests

end I2N.Extracted.GenRunner
