/- GENERATED on every run by harness/pygen_pxready.py:extract_loc (called by harness/props/c08.py:extract) from avocado_i2n/cartgraph/node.py — do not edit.
   Translator: harness/pygen.py (Python AST -> Lean `do` block, fails closed).  The equality with the hand
   written model is proved in the Props file that imports this module. -/
import I2N.Model.Trav
namespace I2N.Extracted.GenLoc
open I2N.Trav

/-- `TestNode.shared_result_worker_ids` of avocado_i2n/cartgraph/node.py.  `shared` = `self.shared_results`, `workerIds` = the ids of all workers of `TestSwarm.run_swarms` in swarm / worker order; the result is a SET: the list stands for its elements (order and repetitions mean nothing) -/
def genSharedResultWorkerIds (shared : List Result) (workerIds : List String) : List String := Id.run do
  let mut workers : List String := []
  workers := (shared.filter (fun result => (!(!(result.status == "PASS"))))).foldl (fun workers result => let worker_ids : List String := workerIds; (match (worker_ids.find? (fun worker_id => (strIn worker_id result.name))) with | some worker_id => (workers ++ [worker_id]) | none => workers)) workers
  return workers

/- the Python it was generated from (comments and docstring dropped):
   @property
   def shared_result_worker_ids(self) -> set[str]:
       workers = set()
       for result in self.shared_results:
           if result['status'] != 'PASS':
               continue
           worker_ids = [w.id for s in TestSwarm.run_swarms.values() for w in s.workers]
           for worker_id in worker_ids:
               if worker_id in result['name']:
                   workers.add(worker_id)
                   break
       return workers
-/

end I2N.Extracted.GenLoc
