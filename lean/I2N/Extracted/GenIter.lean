/- GENERATED on every run by harness/pygen_pxiter.py:extract_iter (called by harness/props/c12.py:extract) from avocado_i2n/states/setup.py — do not edit.
   Translator: harness/pygen.py (Python AST -> Lean `do` block, fails closed).  The equality with the hand
   written model is proved in the Props file that imports this module. -/
import I2N.Lemmas.PolicyIterM
namespace I2N.Extracted.GenIter
open I2N.Policy
open I2N.PolicyIterM

/-- ONE level of the recursive generator `_parametric_object_iteration(params, composites=None)` of avocado_i2n/states/setup.py:
`self` = the recursive call (on the SAME list `composites`, the state of `G`), `yield` = `yieldG` -/
def genIterLevel (self : Params → G Unit) (params : Params) (composites_is_none : Bool) : G Unit := do
  let object_composition := (params.objects "states_chain")
  if (object_composition.length == 0) then
    throwG IterErr.valueError
  if composites_is_none then
    resetC
  let params_obj_type := (← indexG object_composition (← lenC))
  appendC none
  gFor (params.objects params_obj_type) fun params_obj_name => do
    setLastC (some (params_obj_name, params_obj_type))
    let obj_params := (params.objectParams params_obj_name)
    let obj_params := obj_params.set params_obj_type params_obj_name
    let obj_params := obj_params.set "object_name" (joinSlash (← projC (·.1)))
    let obj_params := obj_params.set "object_type" (joinSlash (← projC (·.2)))
    if (params_obj_type != (← lastG object_composition)) then
      self obj_params
    let obj_type_params := (obj_params.objectParams params_obj_type)
    yieldG obj_type_params
  popC

/- the Python it was generated from (comments and docstring dropped):
   def _parametric_object_iteration(params: dict[str, str], composites: list[tuple[str, str]]=None) -> Generator[Params, None, None]:
       object_composition = params.objects('states_chain')
       if len(object_composition) == 0:
           raise ValueError('Have to specify at least one parametric object type or an overall composition through `states_chain`')
       if composites is None:
           composites = []
       params_obj_type = object_composition[len(composites)]
       composites.append(None)
       for params_obj_name in params.objects(params_obj_type):
           composites[-1] = (params_obj_name, params_obj_type)
           obj_params = params.object_params(params_obj_name)
           obj_params[params_obj_type] = params_obj_name
           obj_params['object_name'] = '/'.join([c[0] for c in composites])
           obj_params['object_type'] = '/'.join([c[1] for c in composites])
           if params_obj_type != object_composition[-1]:
               yield from _parametric_object_iteration(obj_params, composites)
           obj_type_params = obj_params.object_params(params_obj_type)
           yield obj_type_params
       composites.pop()
-/

end I2N.Extracted.GenIter
