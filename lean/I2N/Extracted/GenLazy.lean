/- GENERATED on every run by harness/pygen_pxloc.py:extract_lazy (called by harness/props/c02.py:extract) from avocado_i2n/cartgraph/node.py — do not edit.
   Translator: harness/pygen.py (Python AST -> Lean `do` block, fails closed).  The equality with the hand
   written model is proved in the Props file that imports this module. -/
import I2N.Model.Trav
namespace I2N.Extracted.GenLazy
open I2N.Trav

/-- `TestNode.is_flat` of avocado_i2n/cartgraph/node.py.  `objects` = `self.objects` (any representation of the test objects; only their number is read) -/
def genIsFlat (objects : List String) : Bool := Id.run do
  return ((Int.ofNat objects.length) == (0 : Int))

/- the Python it was generated from (comments and docstring dropped):
   def is_flat(self) -> bool:
       return len(self.objects) == 0
-/

/-- `TestNode.is_shared_root` of avocado_i2n/cartgraph/node.py.  `getBoolean k d` = `self.params.get_boolean(k, d)` -/
def genIsSharedRoot (getBoolean : String → Bool → Bool) : Bool := Id.run do
  return (getBoolean "shared_root" false)

/- the Python it was generated from (comments and docstring dropped):
   def is_shared_root(self) -> bool:
       return self.params.get_boolean('shared_root', False)
-/

/-- `TestNode.is_object_root` of avocado_i2n/cartgraph/node.py.  `paramKeys` = the keys of `self.params` (membership in a dictionary is membership among its keys) -/
def genIsObjectRoot (paramKeys : List String) : Bool := Id.run do
  return (paramKeys.contains "object_root")

/- the Python it was generated from (comments and docstring dropped):
   def is_object_root(self) -> bool:
       return 'object_root' in self.params
-/

/-- `TestNode.get_stateful_objects` of avocado_i2n/cartgraph/node.py.  `objects` = `self.objects` (a test object is its position), `hasState do o` = the truthiness of `o.object_typed_params(self.params).get(f"{do}_state")` -/
def genGetStatefulObjects («do» : String) (objects : List Nat) (hasState : String → Nat → Bool) : List Nat := Id.run do
  let mut setup_objects : List Nat := []
  setup_objects := objects.foldl (fun setup_objects test_object => let object_state : Bool := (hasState «do» test_object); (if object_state then (setup_objects ++ [test_object]) else setup_objects)) setup_objects
  return setup_objects

/- the Python it was generated from (comments and docstring dropped):
   def get_stateful_objects(self, do: str='set') -> list[TestObject]:
       setup_objects = []
       for test_object in self.objects:
           object_params = test_object.object_typed_params(self.params)
           object_state = object_params.get(f'{do}_state')
           if object_state:
               setup_objects += [test_object]
       return setup_objects
-/

/-- `TestNode.is_unrolled` of avocado_i2n/cartgraph/node.py.  `sharedRoot` = `self.is_shared_root()`, `flat` = `self.is_flat()`, `worker` = the worker (none: for any worker), `incompat` = `self.incompatible_workers` (the workers whose net is recorded), `cleanup` = `self.cleanup_nodes` (dictionary order), `setless` = `self.setless_form`, `nodeId c` = `c.id`, `workerId w` = `w.id` -/
def genIsUnrolled (sharedRoot : Bool) (flat : Bool) (worker : Option Nat) (incompat : List Nat) (cleanup : List Nat) (setless : String) (nodeId : Nat → String) (workerId : Nat → String) : Except String (Bool) := do
  if sharedRoot then
    return true
  else if (!flat) then
    throw "RuntimeError"
  else if (worker.isSome && (incompat.contains (worker.getD 0))) then
    return true
  else if (worker.isNone && (!incompat.isEmpty)) then
    return true
  match (cleanup.findSome? (fun node => (if (strIn setless (nodeId node)) then (if (worker.isSome && (strIn (workerId (worker.getD 0)) (nodeId node))) then (some true) else (if worker.isNone then (some true) else none)) else none))) with
  | some pyRet => return pyRet
  | none => pure ()
  return false

/- the Python it was generated from (comments and docstring dropped):
   def is_unrolled(self, worker: TestWorker=None) -> bool:
       if self.is_shared_root():
           return True
       elif not self.is_flat():
           raise RuntimeError(f'Only flat nodes can be unrolled, {self} is not flat')
       elif worker and worker.net.long_suffix in self.incompatible_workers:
           return True
       elif worker is None and len(self.incompatible_workers) > 0:
           return True
       for node in self.cleanup_nodes:
           if self.setless_form in node.id:
               if worker and worker.id in node.id:
                   return True
               elif worker is None:
                   return True
       return False
-/

/-- `TestNode.should_parse` of avocado_i2n/cartgraph/node.py.  `involved` = `self.shared_involved_workers` (a set; the loop is an existence test), `unrolled v` = `self.is_unrolled(v)`, `cleanupReady v` = `self.is_cleanup_ready(v)`, `restrs v` = `v.restrs` -/
def genShouldParse (involved : List Nat) (unrolled : Nat → Bool) (cleanupReady : Nat → Bool) (restrs : Nat → List String) : Bool := Id.run do
  match (involved.findSome? (fun picked_worker => (if ((unrolled picked_worker) && (cleanupReady picked_worker) && ((Int.ofNat (restrs picked_worker).length) == (0 : Int))) then (some false) else none))) with
  | some pyRet => return pyRet
  | none => pure ()
  return true

/- the Python it was generated from (comments and docstring dropped):
   def should_parse(self, worker: TestWorker=None) -> bool:
       parse_by = f' by {worker}' if worker else ''
       for picked_worker in self.shared_involved_workers:
           if self.is_unrolled(picked_worker) and self.is_cleanup_ready(picked_worker) and (len(picked_worker.restrs) == 0):
               logging.debug(f'Should not parse {self}{parse_by} which is cleanup ready from worker {picked_worker}')
               return False
       logging.debug(f'Should parse {self}{parse_by} which is not cleanup ready from any worker')
       return True
-/

end I2N.Extracted.GenLazy
