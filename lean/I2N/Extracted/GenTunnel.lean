/- GENERATED on every run by harness/pygen.py:extract_tunnel (called by harness/props/c19.py:extract) from avocado_i2n/vmnet/tunnel.py — do not edit.
   Translator: harness/pygen.py (Python AST -> Lean `do` block, fails closed).  The equality with the hand
   written model is proved in the Props file that imports this module. -/
import I2N.Model.Tunnel
namespace I2N.Extracted.GenTunnel
open I2N.Tunnel

/-- `VMTunnel._get_peer_variant` of avocado_i2n/vmnet/tunnel.py, translated statement by statement -/
def genPeerVariant (left_local : SDict) (left_remote : SDict) (left_peer : SDict) : Except Err (SDict × SDict × SDict) := do
  let mut right_local : SDict := ([("type", "nic")] : SDict)
  let mut right_remote : SDict := ([("type", "custom")] : SDict)
  let mut right_peer : SDict := ([("type", "ip")] : SDict)
  if ((← SDict.getItem left_local "type") == "nic") then
    right_remote := SDict.set right_remote "type" "custom"
    right_remote := SDict.set right_remote "nic" (← SDict.getItem left_local "nic")
  else if ((← SDict.getItem left_local "type") == "internetip") then
    right_remote := SDict.set right_remote "type" "externalip"
  if ((← SDict.getItem left_remote "type") == "custom") then
    if ((← SDict.getItem left_local "type") == "custom") then
      right_local := SDict.set right_local "type" "custom"
    else
      right_local := SDict.set right_local "type" "nic"
      right_local := SDict.set right_local "nic" (← SDict.getItem left_remote "nic")
  else if ((← SDict.getItem left_remote "type") == "externalip") then
    right_local := SDict.set right_local "type" "internetip"
  if ((← SDict.getItem left_peer "type") == "dynip") then
    right_peer := SDict.set right_peer "type" "ip"
    right_peer := SDict.set right_peer "nic" (← SDict.getItem left_peer "nic")
  else if ((← SDict.getItem left_peer "type") == "ip") then
    right_peer := SDict.set right_peer "type" "ip"
    right_peer := SDict.set right_peer "nic" (← SDict.getItem left_peer "nic")
  return (right_local, right_remote, right_peer)

/- the Python it was generated from (comments and docstring dropped):
   def _get_peer_variant(self, left_local: dict[str, str], left_remote: dict[str, str], left_peer: dict[str, str]) -> tuple[dict[str, str], dict[str, str], dict[str, str]]:
       right_local = {'type': 'nic'}
       right_remote = {'type': 'custom'}
       right_peer = {'type': 'ip'}
       if left_local['type'] == 'nic':
           right_remote['type'] = 'custom'
           right_remote['nic'] = left_local['nic']
       elif left_local['type'] == 'internetip':
           right_remote['type'] = 'externalip'
       if left_remote['type'] == 'custom':
           if left_local['type'] == 'custom':
               right_local['type'] = 'custom'
           else:
               right_local['type'] = 'nic'
               right_local['nic'] = left_remote['nic']
       elif left_remote['type'] == 'externalip':
           right_local['type'] = 'internetip'
       if left_peer['type'] == 'dynip':
           right_peer['type'] = 'ip'
           right_peer['nic'] = left_peer['nic']
       elif left_peer['type'] == 'ip':
           right_peer['type'] = 'ip'
           right_peer['nic'] = left_peer['nic']
       return (right_local, right_remote, right_peer)
-/

end I2N.Extracted.GenTunnel
