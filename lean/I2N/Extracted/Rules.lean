/- GENERATED on every run by harness/props/c10.py:extract from the AST of /repo
   (avocado_i2n/cartgraph/node.py, avocado_i2n/plugins/runner.py, avocado_i2n/cartgraph/graph.py) and from
   avocado.core.teststatus.STATUSES_MAPPING.  Do not edit. -/
namespace I2N.Extracted.Rules
def allStatuses : List String := ["fail", "error", "pass", "warn", "skip", "cancel", "interrupted", "unknown"]
def dryRunDefault : String := "no"
def dryRunYes : String := "yes"
def replayRerunDefault : String := "fail,error,warn"
def replayRerunDelimiter : Char := ','
def maxTriesDefault : Int := 1
def maxTriesReplayDefault : Int := 2
def maxTriesNoRerun : Int := 1
def scopeSwarm : String := "swarm"
def scopeCluster : String := "cluster"
def spawnerLxc : String := "lxc"
def spawnerRemote : String := "remote"
def unknownStatus : String := "UNKNOWN"
def retryInfix : String := "r"
def statusTimeout : Nat := 10
def durationFactorNum : Nat := 5
def durationFactorDen : Nat := 4
def passStatus : String := "PASS"
def warnStatus : String := "WARN"
def failingStatuses : List String := ["error", "fail"]
def suiteFailWord : String := "FAIL"
def prePrefix : String := "0"
def statusesMapping : List (String × Bool) := [("SKIP", true), ("ERROR", false), ("FAIL", false), ("WARN", true), ("PASS", true), ("INTERRUPTED", false), ("CANCEL", true)]
end I2N.Extracted.Rules
