/- GENERATED on every run by harness/pygen.py:extract_transfer (called by harness/props/c14.py:extract) from avocado_i2n/states/pool.py — do not edit.
   Translator: harness/pygen.py (Python AST -> Lean `do` block, fails closed).  The equality with the hand
   written model is proved in the Props file that imports this module. -/
import I2N.Model.Transfer
import I2N.Model.Rules
namespace I2N.Extracted.GenTransfer
open I2N.Transfer

/-- the state of the translated functions: the file system; `os` / `shutil` calls either read it or replace it -/
abbrev M := StateT FS (Except Err)
def readFS {α : Type} (f : FS → α) : M α := fun fs => .ok (f fs, fs)
def stepFS (f : FS → Except Err FS) : M Unit := fun fs => (f fs).map (fun fs' => ((), fs'))

/-- `crypto.hash_file(path, size, "md5")` of an existing file: what the digest depends on (md5 is assumed collision
free on it, as in `I2N.Transfer.digest`); `noHash` is the `""` the code uses for a missing file -/
def hashFile (size : Int) (fs : FS) (p : Path) : Option Data := some (((read fs p).getD []).take size.toNat)
def noHash : Option Data := none

/-- `TransferOps.compare_local` of avocado_i2n/states/pool.py on the file system `fs` -/
def genCompareLocal (fs : FS) (cache : Path) (pool : Path) : Bool := Id.run do
  let mut local_hash : Option Data := none
  if (pexists fs cache) then
    local_hash := (hashFile (1048576 : Int) fs cache)
  else
    local_hash := noHash
  let mut remote_hash : Option Data := none
  if (pexists fs pool) then
    remote_hash := (hashFile (1048576 : Int) fs pool)
  else
    remote_hash := noHash
  return (local_hash == remote_hash)

/- the Python it was generated from (comments and docstring dropped):
   @staticmethod
   def compare_local(cache_path: str, pool_path: str, params: Params) -> bool:
       if os.path.exists(cache_path):
           local_hash = crypto.hash_file(cache_path, 1048576, 'md5')
       else:
           local_hash = ''
       if os.path.exists(pool_path):
           remote_hash = crypto.hash_file(pool_path, 1048576, 'md5')
       else:
           remote_hash = ''
       return local_hash == remote_hash
-/

/-- `TransferOps.compare_link` (`os.path.realpath` follows one level: flat file systems, see I2N.Transfer) -/
def genCompareLink (fs : FS) (cache : Path) (pool : Path) : Bool := Id.run do
  if (islink fs cache) then
    return ((resolve fs cache) == pool)
  else
    return (genCompareLocal fs cache pool)

/- the Python it was generated from (comments and docstring dropped):
   @staticmethod
   def compare_link(cache_path: str, pool_path: str, params: Params) -> bool:
       if os.path.islink(cache_path):
           return os.path.realpath(cache_path) == pool_path
       else:
           return TransferOps.compare_local(cache_path, pool_path, params)
-/

/-- `TransferOps.download_local`: what one undisturbed process does inside `image_lock` (the lock protocol is modelled separately, directories are not modelled) -/
def genDownloadLocal (cache : Path) (pool : Path) : M (Unit) := do
  if (← readFS (fun fs => genCompareLocal fs cache pool)) then
    return ()
  stepFS (fun fs => copy fs pool cache)
  return ()

/- the Python it was generated from (comments and docstring dropped):
   @staticmethod
   def download_local(cache_path: str, pool_path: str, params: Params) -> None:
       os.makedirs(os.path.dirname(cache_path), exist_ok=True)
       update_timeout = params.get_numeric('update_pool_timeout', 300)
       with image_lock(pool_path, update_timeout) as lock:
           if TransferOps.compare_local(cache_path, pool_path, params):
               logging.info(f'Skip download of an already available {cache_path}')
               return
           shutil.copy(pool_path, cache_path)
-/

/-- `TransferOps.upload_local` -/
def genUploadLocal (cache : Path) (pool : Path) : M (Unit) := do
  if (← readFS (fun fs => genCompareLocal fs cache pool)) then
    return ()
  stepFS (fun fs => copy fs cache pool)
  return ()

/- the Python it was generated from (comments and docstring dropped):
   @staticmethod
   def upload_local(cache_path: str, pool_path: str, params: Params) -> None:
       update_timeout = params.get_numeric('update_pool_timeout', 300)
       with image_lock(pool_path, update_timeout) as lock:
           if TransferOps.compare_local(cache_path, pool_path, params):
               logging.info(f'Skip upload of an already available {cache_path}')
               return
           os.makedirs(os.path.dirname(pool_path), exist_ok=True)
           shutil.copy(cache_path, pool_path)
-/

/-- `TransferOps.delete_local` -/
def genDeleteLocal (pool : Path) : M (Unit) := do
  stepFS (fun fs => unlink fs pool)
  return ()

/- the Python it was generated from (comments and docstring dropped):
   @staticmethod
   def delete_local(pool_path: str, params: Params) -> None:
       update_timeout = params.get_numeric('update_pool_timeout', 300)
       with image_lock(pool_path, update_timeout) as lock:
           os.unlink(pool_path)
-/

/-- `TransferOps.download_link` -/
def genDownloadLink (cache : Path) (pool : Path) : M (Unit) := do
  if (← readFS (fun fs => genCompareLink fs cache pool)) then
    return ()
  if ((!(← readFS (fun fs => islink fs cache))) && (← readFS (fun fs => pexists fs cache))) then
    throw Err.runtimeError
  if ((← readFS (fun fs => islink fs cache)) && (!(← readFS (fun fs => pexists fs cache)))) then
    pure ()
  if (← readFS (fun fs => islink fs cache)) then
    stepFS (fun fs => unlink fs cache)
  stepFS (fun fs => symlink fs pool cache)
  return ()

/- the Python it was generated from (comments and docstring dropped):
   @staticmethod
   def download_link(cache_path: str, pool_path: str, params: Params) -> None:
       os.makedirs(os.path.dirname(cache_path), exist_ok=True)
       update_timeout = params.get_numeric('update_pool_timeout', 300)
       with image_lock(pool_path, update_timeout) as lock:
           if TransferOps.compare_link(cache_path, pool_path, params):
               logging.info(f'Skip link of an already available {cache_path}')
               return
           if not os.path.islink(cache_path) and os.path.exists(cache_path):
               raise RuntimeError(f'Cannot link to {pool_path}, {cache_path} data exists')
           if os.path.islink(cache_path) and (not os.path.exists(cache_path)):
               logging.warning(f'Dead link {cache_path} image detected')
           if os.path.islink(cache_path):
               os.unlink(cache_path)
           os.symlink(pool_path, cache_path)
-/

/-- `TransferOps.upload_link` -/
def genUploadLink (cache : Path) (pool : Path) : M (Unit) := do
  if (← readFS (fun fs => islink fs cache)) then
    throw Err.valueError
  else
    genUploadLocal cache pool
  return ()

/- the Python it was generated from (comments and docstring dropped):
   @staticmethod
   def upload_link(cache_path: str, pool_path: str, params: Params) -> None:
       if os.path.islink(cache_path):
           raise ValueError('Cannot upload a symlink to its destination')
       else:
           TransferOps.upload_local(cache_path, pool_path, params)
-/

/-- `hosts, path = pool_path.split(":")` on the model's own splitter -/
def splitColonStr (s : String) : List String := (splitColon s.toList).map String.ofList
/-- `s.replace(c, "")` -/
def pyRemoveChar (c : Char) (s : String) : String := String.ofList (s.toList.filter (· != c))
/-- `cls.<op>_remote(...)`: remote transfers are outside the model -/
def remoteM : M Unit := throw Err.notModelled

/-- `TransferOps.download`: `hosts:path`, a `;` in the path selects link mode (here `pool` is the whole location string) -/
def genDownload (cache : Path) (pool : Path) : M (Unit) := do
  let mut hosts : String := ""
  let mut path : String := ""
  match (splitColonStr pool) with
  | [pyPart1_1, pyPart1_2] =>
    hosts := pyPart1_1
    path := pyPart1_2
  | _ => throw Err.valueError
  if (!(hosts == "")) then
    remoteM
  else if (I2N.Rules.isSubstr ";" path) then
    genDownloadLink cache (pyRemoveChar ';' path)
  else
    genDownloadLocal cache path
  return ()

/- the Python it was generated from (comments and docstring dropped):
   @classmethod
   def download(cls, cache_path: str, pool_path: str, params: Params) -> None:
       hosts, path = pool_path.split(':')
       if hosts != '':
           cls.download_remote(cache_path, pool_path, params)
       elif ';' in path:
           cls.download_link(cache_path, path.replace(';', ''), params)
       else:
           cls.download_local(cache_path, path, params)
-/

/-- `TransferOps.upload`: `hosts:path`, a `;` in the path selects link mode (here `pool` is the whole location string) -/
def genUpload (cache : Path) (pool : Path) : M (Unit) := do
  let mut hosts : String := ""
  let mut path : String := ""
  match (splitColonStr pool) with
  | [pyPart1_1, pyPart1_2] =>
    hosts := pyPart1_1
    path := pyPart1_2
  | _ => throw Err.valueError
  if (!(hosts == "")) then
    remoteM
  else if (I2N.Rules.isSubstr ";" path) then
    genUploadLink cache (pyRemoveChar ';' path)
  else
    genUploadLocal cache path
  return ()

/- the Python it was generated from (comments and docstring dropped):
   @classmethod
   def upload(cls, cache_path: str, pool_path: str, params: Params) -> None:
       hosts, path = pool_path.split(':')
       if hosts != '':
           cls.upload_remote(cache_path, pool_path, params)
       elif ';' in path:
           cls.upload_link(cache_path, path.replace(';', ''), params)
       else:
           cls.upload_local(cache_path, path, params)
-/

/-- `TransferOps.delete`: `hosts:path`, a `;` in the path selects link mode (here `pool` is the whole location string) -/
def genDelete (pool : Path) : M (Unit) := do
  let mut hosts : String := ""
  let mut path : String := ""
  match (splitColonStr pool) with
  | [pyPart1_1, pyPart1_2] =>
    hosts := pyPart1_1
    path := pyPart1_2
  | _ => throw Err.valueError
  if (!(hosts == "")) then
    remoteM
  else if (I2N.Rules.isSubstr ";" path) then
    genDeleteLocal (pyRemoveChar ';' path)
  else
    genDeleteLocal path
  return ()

/- the Python it was generated from (comments and docstring dropped):
   @classmethod
   def delete(cls, pool_path: str, params: Params) -> None:
       hosts, path = pool_path.split(':')
       if hosts != '':
           cls.delete_remote(pool_path, params)
       elif ';' in path:
           cls.delete_link(path.replace(';', ''), params)
       else:
           cls.delete_local(path, params)
-/

end I2N.Extracted.GenTransfer
