/- GENERATED on every run by harness/pygen_pxcmd.py:extract_manu (called by harness/props/c20.py:extract) from avocado_i2n/plugins/manu.py — do not edit.
   Translator: harness/pygen.py (Python AST -> Lean `do` block, fails closed).  The equality with the hand
   written model is proved in the Props file that imports this module. -/
import I2N.Model.Tools
namespace I2N.Extracted.GenManu
open I2N.Tools

/-- the state of the chain loop of `Manu.run`: `retcode`, the environment the steps act on, and what was called so
far; an exception that escapes the loop (`getattr` of an unknown step) keeps the state (`ExceptT` over `StateM`) -/
structure ChainSt (σ : Type) where
  rc : Nat
  env : σ
  executed : List (String × Nat)
  outcomes : List Outcome

abbrev M (σ : Type) := ExceptT Err (StateM (ChainSt σ))
variable {σ : Type}
/-- `retcode = <n>` -/
def setRetcode (n : Nat) : M σ Unit := modify (fun s => { s with rc := n })

/-- the body of the `try` of the chain loop of `Manu.run` (avocado_i2n/plugins/manu.py) when the step function returns; `o` = what it returned, `o.fails` = `setup_func(config, "0m<i>") not in [None, 0]` -/
def genTryBody (o : Outcome) : M σ (Unit) := do
  if (!(!o.fails)) then
    setRetcode 1
  return ()

/- the Python it was generated from (comments and docstring dropped):
   def manu_run_try_body():
       if setup_func(config, '0m%s' % i) not in [None, 0]:
           retcode = 1
-/

/-- the body of `except Exception as error:` of the chain loop of `Manu.run`: the step function raised -/
def genExceptBody  : M σ (Unit) := do
  pure ()
  setRetcode 1
  return ()

/- the Python it was generated from (comments and docstring dropped):
   def manu_run_except_body():
       tb_list = traceback.format_exception(error)
       for item in tb_list:
           log.error(item.rstrip())
       LOG_UI.error(error)
       LOG_UI.error("Use 'export AVOCADO_LOG_EARLY=1' for further details.")
       retcode = 1
-/

/-- the loop body of `Manu.run`.  NOT translated but matched structurally by harness/pygen_pxcmd.py (the body must be
exactly: `run_params["count"] = i`; `setup_func = getattr(intertest, setup_step)`; `try: <genTryBody> except
Exception as error: <genExceptBody>` without `else` / `finally`): `known` = `hasattr(intertest, step)` (the `getattr`
stands outside the `try`, its AttributeError escapes), `f` = the step function acting on the environment; what it
does (`Outcome`) is the value of the call expression of the `try` body, or the exception the handler catches -/
def genChainStep (known : String → Bool) (f : σ → String → Nat → Outcome × σ) (i : Nat) (setup_step : String) :
    M σ Unit := ExceptT.mk (fun s =>
  if !known setup_step then (.error Err.attributeError, s)
  else
    let r := f s.env setup_step i
    let s' : ChainSt σ := { s with env := r.2, executed := s.executed ++ [(setup_step, i)],
                                   outcomes := s.outcomes ++ [r.1] }
    match r.1 with
    | .raised => (genExceptBody.run).run s'
    | o => ((genTryBody o).run).run s')

/-- `for i, setup_step in enumerate(setup_chain): <body>` from index `i` on: the body runs for one step after the
other until an exception escapes -/
def genChainLoop (known : String → Bool) (f : σ → String → Nat → Outcome × σ) : Nat → List String → M σ Unit
  | _, [] => ExceptT.mk (fun s => (.ok (), s))
  | i, st :: rest => ExceptT.mk (fun s =>
    match ((genChainStep known f i st).run).run s with
    | (.ok _, s') => ((genChainLoop known f (i + 1) rest).run).run s'
    | (.error e, s') => (.error e, s'))

/-- `retcode = 0` in front of the loop, `return retcode` behind it (both pinned) -/
def genManuChain (known : String → Bool) (f : σ → String → Nat → Outcome × σ) (env : σ) (chain : List String) :
    Except Err Nat × ChainSt σ :=
  let r := ((genChainLoop known f 0 chain).run).run { rc := 0, env := env, executed := [], outcomes := [] }
  (r.1.map (fun _ => r.2.rc), r.2)

end I2N.Extracted.GenManu
