/- GENERATED on every run by harness/pygen_pxready.py:extract_ready (called by harness/props/c02.py:extract) from avocado_i2n/cartgraph/node.py — do not edit.
   Translator: harness/pygen.py (Python AST -> Lean `do` block, fails closed).  The equality with the hand
   written model is proved in the Props file that imports this module. -/
import I2N.Model.Trav
namespace I2N.Extracted.GenReady
open I2N.Trav

/-- `TestNode.is_setup_ready` of avocado_i2n/cartgraph/node.py.  `setup` = `self.setup_nodes` (in dictionary order), `flat p` = `p.is_flat()`, `idIn p` = `worker.id in p.params["name"]`, `dropped p` = `worker.id in self._dropped_setup_nodes.get_workers(p)` -/
def genIsSetupReady (setup : List Nat) (flat : Nat → Bool) (idIn : Nat → Bool) (dropped : Nat → Bool) : Bool := Id.run do
  match ((setup.filter (fun node => (!((!(flat node)) && (!(idIn node)))))).find? (fun node => (!(dropped node)))) with
  | some node =>
    return false
  | none => pure ()
  return true

/- the Python it was generated from (comments and docstring dropped):
   def is_setup_ready(self, worker: TestWorker) -> bool:
       for node in self.setup_nodes:
           if not node.is_flat() and worker.id not in node.params['name']:
               continue
           if worker.id not in self._dropped_setup_nodes.get_workers(node):
               return False
       return True
-/

/-- `TestNode.is_cleanup_ready` of avocado_i2n/cartgraph/node.py.  `cleanup` = `self.cleanup_nodes` (in dictionary order), `flat p` = `p.is_flat()`, `idIn p` = `worker.id in p.params["name"]`, `dropped p` = `worker.id in self._dropped_cleanup_nodes.get_workers(p)` -/
def genIsCleanupReady (cleanup : List Nat) (flat : Nat → Bool) (idIn : Nat → Bool) (dropped : Nat → Bool) : Bool := Id.run do
  match ((cleanup.filter (fun node => (!((!(flat node)) && (!(idIn node)))))).find? (fun node => (!(dropped node)))) with
  | some node =>
    return false
  | none => pure ()
  return true

/- the Python it was generated from (comments and docstring dropped):
   def is_cleanup_ready(self, worker: TestWorker) -> bool:
       for node in self.cleanup_nodes:
           if not node.is_flat() and worker.id not in node.params['name']:
               continue
           if worker.id not in self._dropped_cleanup_nodes.get_workers(node):
               return False
       return True
-/

/-- `<register>.register(node, worker)` on one of the four edge registers of the class of `self` (bridged copies
share the register objects); `key` = (class of `node`, worker).  The exception layer is OUTSIDE the state: what was
registered before a `raise` stays registered, as in Python -/
abbrev RegM := ExceptT String (StateM ClassRegs)
def registerDroppedSetup (key : Nat × Nat) : RegM Unit :=
  modify (fun r => { r with droppedSetup := regAdd r.droppedSetup key })
def registerDroppedCleanup (key : Nat × Nat) : RegM Unit :=
  modify (fun r => { r with droppedCleanup := regAdd r.droppedCleanup key })

/-- `TestNode.drop_parent` of avocado_i2n/cartgraph/node.py.  `isNeighbour` = `test_node in self.setup_nodes`, `key` = (class of `test_node`, `worker`); the state is the four registers of the class of `self` -/
def genDropParent (isNeighbour : Bool) (key : Nat × Nat) : RegM (Unit) := do
  if (!isNeighbour) then
    throw "ValueError"
  registerDroppedSetup key
  return ()

/- the Python it was generated from (comments and docstring dropped):
   def drop_parent(self, test_node: 'TestNode', worker: TestWorker) -> None:
       if test_node not in self.setup_nodes:
           raise ValueError(f'Invalid parent to drop: {test_node} not a parent of {self}')
       self._dropped_setup_nodes.register(test_node, worker)
-/

/-- `TestNode.drop_child` of avocado_i2n/cartgraph/node.py.  `isNeighbour` = `test_node in self.cleanup_nodes`, `key` = (class of `test_node`, `worker`); the state is the four registers of the class of `self` -/
def genDropChild (isNeighbour : Bool) (key : Nat × Nat) : RegM (Unit) := do
  if (!isNeighbour) then
    throw "ValueError"
  registerDroppedCleanup key
  return ()

/- the Python it was generated from (comments and docstring dropped):
   def drop_child(self, test_node: 'TestNode', worker: TestWorker) -> None:
       if test_node not in self.cleanup_nodes:
           raise ValueError(f'Invalid child to drop: {test_node} not a child of {self}')
       self._dropped_cleanup_nodes.register(test_node, worker)
-/

/-- Python's `sorted(l, key=…)` for natural-number keys: stable, ascending (the insertion sort of the model) -/
def sortedByKey (key : Nat → Nat) (l : List Nat) : List Nat := stableSort (fun a b => decide (key a ≤ key b)) l

/-- `test_node._picked_by_<side>_nodes.register(self, worker)`: the register object belongs to the class of the picked
node (bridged copies share it); `key` = (class of `self`, worker) -/
abbrev PickM := ExceptT String (StateM State)
def registerPickedByCleanup (g : Graph) (p : Nat) (key : Nat × Nat) : PickM Unit :=
  modify (fun s => s.setCr (g.node p).cls (fun r => { r with pickedByCleanup := regAdd r.pickedByCleanup key }))
def registerPickedBySetup (g : Graph) (p : Nat) (key : Nat × Nat) : PickM Unit :=
  modify (fun s => s.setCr (g.node p).cls (fun r => { r with pickedBySetup := regAdd r.pickedBySetup key }))

/-- `TestNode.pick_parent` of avocado_i2n/cartgraph/node.py.  `setup` = `self.setup_nodes` (dictionary order), `flat p` = `p.is_flat()`, `idIn p` = `worker.id in p.params["name"]`, `dropped p` = `worker.id in self._dropped_setup_nodes.get_workers(p)`, `picks p` = `p._picked_by_cleanup_nodes.get_counters()` (read before the only write, the last statement), `rank p` = the position of `p.long_prefix` in the order of `prefix_priority` (an atom, exported as ranks), `key` = (class of `self`, `worker`) -/
def genPickParent (g : Graph) (setup : List Nat) (flat : Nat → Bool) (idIn : Nat → Bool) (dropped : Nat → Bool) (picks : Nat → Nat) (rank : Nat → Nat) (key : Nat × Nat) : PickM (Nat) := do
  let mut available_nodes : List Nat := ((setup.filter (fun n => ((idIn n) || (flat n)))).map (fun n => n))
  available_nodes := ((available_nodes.filter (fun n => (!(dropped n)))).map (fun n => n))
  if ((Int.ofNat available_nodes.length) == (0 : Int)) then
    throw "RuntimeError"
  let mut sorted_nodes : List Nat := (sortedByKey rank available_nodes)
  sorted_nodes := (sortedByKey picks sorted_nodes)
  sorted_nodes := (sortedByKey (fun n => if flat n then 0 else 1) sorted_nodes)
  let mut test_node : Nat := (← (match sorted_nodes with | pyHd :: _ => pure pyHd | [] => throw "IndexError"))
  registerPickedByCleanup g test_node key
  return test_node

/- the Python it was generated from (comments and docstring dropped):
   def pick_parent(self, worker: TestWorker) -> 'TestNode':
       available_nodes = [n for n in self.setup_nodes if worker.id in n.params['name'] or n.is_flat()]
       available_nodes = [n for n in available_nodes if worker.id not in self._dropped_setup_nodes.get_workers(n)]
       if len(available_nodes) == 0:
           raise RuntimeError(f'Picked a parent of a node without remaining parents for {self}')
       sorted_nodes = sorted(available_nodes, key=cmp_to_key(lambda x, y: TestNode.prefix_priority(x.long_prefix, y.long_prefix)))
       sorted_nodes = sorted(sorted_nodes, key=lambda n: n._picked_by_cleanup_nodes.get_counters())
       sorted_nodes = sorted(sorted_nodes, key=lambda n: int(not n.is_flat()))
       test_node = sorted_nodes[0]
       test_node._picked_by_cleanup_nodes.register(self, worker)
       return test_node
-/

/-- `TestNode.pick_child` of avocado_i2n/cartgraph/node.py.  `cleanup` = `self.cleanup_nodes` (dictionary order), `flat p` = `p.is_flat()`, `idIn p` = `worker.id in p.params["name"]`, `dropped p` = `worker.id in self._dropped_cleanup_nodes.get_workers(p)`, `picks p` = `p._picked_by_setup_nodes.get_counters()` (read before the only write, the last statement), `rank p` = the position of `p.long_prefix` in the order of `prefix_priority` (an atom, exported as ranks), `key` = (class of `self`, `worker`) -/
def genPickChild (g : Graph) (cleanup : List Nat) (flat : Nat → Bool) (idIn : Nat → Bool) (dropped : Nat → Bool) (picks : Nat → Nat) (rank : Nat → Nat) (key : Nat × Nat) : PickM (Nat) := do
  let mut available_nodes : List Nat := ((cleanup.filter (fun n => ((idIn n) || (flat n)))).map (fun n => n))
  available_nodes := ((available_nodes.filter (fun n => (!(dropped n)))).map (fun n => n))
  if ((Int.ofNat available_nodes.length) == (0 : Int)) then
    throw "RuntimeError"
  let mut sorted_nodes : List Nat := (sortedByKey rank available_nodes)
  sorted_nodes := (sortedByKey picks sorted_nodes)
  sorted_nodes := (sortedByKey (fun n => if flat n then 0 else 1) sorted_nodes)
  let mut test_node : Nat := (← (match sorted_nodes with | pyHd :: _ => pure pyHd | [] => throw "IndexError"))
  registerPickedBySetup g test_node key
  return test_node

/- the Python it was generated from (comments and docstring dropped):
   def pick_child(self, worker: TestWorker) -> 'TestNode':
       available_nodes = [n for n in self.cleanup_nodes if worker.id in n.params['name'] or n.is_flat()]
       available_nodes = [n for n in available_nodes if worker.id not in self._dropped_cleanup_nodes.get_workers(n)]
       if len(available_nodes) == 0:
           raise RuntimeError(f'Picked a child of a node without remaining children for {self}')
       sorted_nodes = sorted(available_nodes, key=cmp_to_key(lambda x, y: TestNode.prefix_priority(x.long_prefix, y.long_prefix)))
       sorted_nodes = sorted(sorted_nodes, key=lambda n: n._picked_by_setup_nodes.get_counters())
       sorted_nodes = sorted(sorted_nodes, key=lambda n: int(not n.is_flat()))
       test_node = sorted_nodes[0]
       test_node._picked_by_setup_nodes.register(self, worker)
       return test_node
-/

end I2N.Extracted.GenReady
