/- GENERATED on every run by harness/pygen_pxtrav.py:extract_backoff (called by harness/props/c04.py:extract) from avocado_i2n/cartgraph/graph.py — do not edit.
   Translator: harness/pygen.py (Python AST -> Lean `do` block, fails closed).  The equality with the hand
   written model is proved in the Props file that imports this module. -/
import I2N.Model.Trav
namespace I2N.Extracted.GenBackoff
open I2N.Trav

/-- the branch acts on the state of the model through ONE statement, the bump of `max_concurrent_tries` on the copy
`next`; everything else it changes are locals of the coroutine (returned as the frame) -/
abbrev M := StateM State
/-- `next.params["max_concurrent_tries"] = next.params.get_numeric("max_concurrent_tries", 0) + 1`: the model counts
the assignments (`NodeD.bump`); what the parameter then is: `Props.C04.mctParam` / `mctParam_bump` -/
def bumpM (next : Nat) : M Unit := modify (fun s => s.setNd next (fun d => { d with bump := d.bump + 1 }))
/-- a time in hundredths of a second (the unit of `Event.sleep`); as a Python float it is `Float.ofNat q / 100.0` -/
abbrev Hund := Nat
/-- `round(max(d / 1000, 0.1), 2)` in hundredths -/
def hundredths (d : Int) : Hund := max (d.toNat / 10) 10
/-- `occupied_at.add(x)`: the set as the list of its elements in the order they were first added -/
def setAdd (l : List Nat) (x : Nat) : List Nat := if l.contains x then l else l ++ [x]

/-- the body of `if next.is_occupied(worker):` in the worker loop of `TestGraph.traverse_object_trees` (avocado_i2n/cartgraph/graph.py) up to `await asyncio.sleep(<arg>)`: `timeout` = `get_numeric("test_timeout", 3600)` and `maxTries` = the parameter `max_tries` of the copy `next` (`Node.timeout`, `Node.maxTries`), `occupied_at0` / `occupied_wait0` = the loop state at the start of the iteration; the value is the frame at the suspension: (occupied_at, occupied_wait, traverse_path, <arg>) -/
def genBackoff (timeout : Int) (maxTries : Option Int) (next : Nat) (root : Nat) (occupied_at0 : List Nat) (occupied_wait0 : Float) : M ((List Nat) × Float × (List Nat) × Hund) := do
  let mut occupied_at : List Nat := occupied_at0
  let mut occupied_wait : Float := occupied_wait0
  let mut test_duration : Int := (timeout * (max (maxTries.getD (1 : Int)) (1 : Int)))
  let mut occupied_timeout : Hund := (hundredths test_duration)
  if (occupied_at.contains next) then
    if (decide (occupied_wait > Float.ofInt test_duration)) then
      pure ()
      bumpM next
    occupied_wait := (occupied_wait + Float.ofNat occupied_timeout / 100.0)
  else
    occupied_wait := (0.0 : Float)
  occupied_at := setAdd occupied_at next
  let mut traverse_path : List Nat := [root]
  return (occupied_at, occupied_wait, traverse_path, occupied_timeout)

/- the Python it was generated from (comments and docstring dropped):
   def traverse_object_trees_backoff(next, root, worker, occupied_at0, occupied_wait0):
       occupied_at = occupied_at0
       occupied_wait = occupied_wait0
       test_duration = next.params.get_numeric('test_timeout', 3600) * max(next.params.get_numeric('max_tries', 1), 1)
       occupied_timeout = round(max(test_duration / 1000, 0.1), 2)
       if next in occupied_at:
           if occupied_wait > test_duration:
               logging.warning(f'Worker {worker.id} spent {occupied_wait:.2f}>{test_duration:.2f} seconds waiting for occupied nodes ' + ', '.join((n.id for n in occupied_at)))
               next.params['max_concurrent_tries'] = next.params.get_numeric('max_concurrent_tries', 0) + 1
           occupied_wait += occupied_timeout
       else:
           occupied_wait = 0.0
       occupied_at.add(next)
       logging.debug(f'Worker {worker.id} stepping back from already occupied test node {next} for a period of {occupied_timeout} seconds (total time spent: {occupied_wait:.2f})')
       traverse_path = [root]
       return (occupied_at, occupied_wait, traverse_path, occupied_timeout)
-/

end I2N.Extracted.GenBackoff
