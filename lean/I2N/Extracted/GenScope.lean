/- GENERATED on every run by harness/pygen.py:extract_scope (called by harness/props/c04.py:extract) from avocado_i2n/cartgraph/node.py and harness/travlib.py — do not edit.
   Translator: harness/pygen.py (Python AST -> Lean `do` block, fails closed).  The equality with the hand
   written model is proved in the Props file that imports this module. -/
namespace I2N.Extracted.GenScope

/-- `TestNode.is_started` of avocado_i2n/cartgraph/node.py: the selection of the scope of counting; `worker` = a worker was given, `own_val` / `swarm_val` / `global_val` = the value of the pinned bodies -/
def genIsStarted (flat : Bool) (worker : Bool) (nets_spawner : Option String) (swarm_in_scope : Bool) (cluster_in_scope : Bool) (own_val : Bool) (swarm_val : Bool) (global_val : Bool) : Bool := Id.run do
  if flat then
    return false
  if (worker && (!swarm_in_scope) && (nets_spawner == some "lxc")) then
    return own_val
  else if (worker && (!cluster_in_scope) && (nets_spawner == some "remote")) then
    return swarm_val
  else
    return global_val

/- the Python it was generated from (comments and docstring dropped):
   def is_started(self, worker: TestWorker=None, threshold: int=1) -> bool:
       if self.is_flat():
           return False
       if worker and 'swarm' not in self.params['pool_scope'] and (self.params.get('nets_spawner') == 'lxc'):
           return worker in self.shared_started_workers
       elif worker and 'cluster' not in self.params['pool_scope'] and (self.params.get('nets_spawner') == 'remote'):
           own_cluster = worker.swarm_id
           own_cluster_started_hosts = {w for w in self.shared_started_workers if w.swarm_id == own_cluster}
           if threshold == -1:
               own_cluster_all_hosts = self.shared_involved_workers & {*TestSwarm.run_swarms[own_cluster].workers}
               return own_cluster_started_hosts == own_cluster_all_hosts
           return len(own_cluster_started_hosts) >= threshold
       else:
           if threshold == -1:
               return self.shared_started_workers == self.shared_involved_workers
           return len(self.shared_started_workers) >= threshold
-/

/-- `TestNode.is_finished` of avocado_i2n/cartgraph/node.py: the selection of the scope of counting; `worker` = a worker was given, `own_val` / `swarm_val` / `global_val` = the value of the pinned bodies -/
def genIsFinished (flat : Bool) (worker : Bool) (nets_spawner : Option String) (swarm_in_scope : Bool) (cluster_in_scope : Bool) (own_val : Bool) (swarm_val : Bool) (global_val : Bool) : Bool := Id.run do
  if flat then
    return true
  if (worker && (!swarm_in_scope) && (nets_spawner == some "lxc")) then
    return own_val
  else if (worker && (!cluster_in_scope) && (nets_spawner == some "remote")) then
    return swarm_val
  else
    return global_val

/- the Python it was generated from (comments and docstring dropped):
   def is_finished(self, worker: TestWorker=None, threshold: int=1) -> bool:
       if self.is_flat():
           return True
       if worker and 'swarm' not in self.params['pool_scope'] and (self.params.get('nets_spawner') == 'lxc'):
           return worker in self.shared_finished_workers
       elif worker and 'cluster' not in self.params['pool_scope'] and (self.params.get('nets_spawner') == 'remote'):
           own_cluster = worker.swarm_id
           own_cluster_finished_hosts = {w for w in self.shared_finished_workers if w.swarm_id == own_cluster}
           if threshold == -1:
               own_cluster_all_hosts = self.shared_involved_workers & {*TestSwarm.run_swarms[own_cluster].workers}
               return own_cluster_finished_hosts == own_cluster_all_hosts
           return len(own_cluster_finished_hosts) >= threshold
       else:
           if threshold == -1:
               return self.shared_finished_workers == self.shared_involved_workers
           return len(self.shared_finished_workers) >= threshold
-/

/-- `shape_of` of harness/travlib.py: the `shape=` field of the static node lines the harness exports to drv_trav -/
def genShapeOf (nets_spawner : Option String) (swarm_in_scope : Bool) (cluster_in_scope : Bool) : String := Id.run do
  if ((!swarm_in_scope) && (nets_spawner == some "lxc")) then
    return "own"
  if ((!cluster_in_scope) && (nets_spawner == some "remote")) then
    return "swarm"
  return "global"

/- the Python it was generated from (comments and docstring dropped):
   def shape_of(params):
       scope = params.get('pool_scope', '')
       if 'swarm' not in scope and params.get('nets_spawner') == 'lxc':
           return 'own'
       if 'cluster' not in scope and params.get('nets_spawner') == 'remote':
           return 'swarm'
       return 'global'
-/

/-- `TestNode.is_occupied` of avocado_i2n/cartgraph/node.py: the threshold computation.  `mct` / `maxTries` = the integer value of the parameters `max_concurrent_tries` / `max_tries` of this copy (none = not set), `started t` = `self.is_started(worker, t)` -/
def genIsOccupied (mct : Option Int) (maxTries : Option Int) (started : Int → Bool) : Bool := Id.run do
  let mut max_concurrent_tries : Int := (mct.getD (maxTries.getD (1 : Int)))
  return (started (max max_concurrent_tries (1 : Int)))

/- the Python it was generated from (comments and docstring dropped):
   def is_occupied(self, worker: TestWorker=None) -> bool:
       max_concurrent_tries = self.params.get_numeric('max_concurrent_tries', self.params.get_numeric('max_tries', 1))
       return self.is_started(worker, max(max_concurrent_tries, 1))
-/

end I2N.Extracted.GenScope
