/- GENERATED on every run by harness/pygen.py:extract_pool (called by harness/props/c13.py:extract) from avocado_i2n/states/pool.py — do not edit.
   Translator: harness/pygen.py (Python AST -> Lean `do` block, fails closed).  The equality with the hand
   written model is proved in the Props file that imports this module. -/
import I2N.Model.Pool
namespace I2N.Extracted.GenPool
open I2N.Pool

/-- `SourcedStateBackend.get_source_scope` of avocado_i2n/states/pool.py, translated branch by branch -/
def genSourceScope (e : Env) (s : Src) : String := Id.run do
  if (!(e.gateway == (e.srcGateway s))) then
    return "cluster"
  else if (!(e.host == (e.srcHost s))) then
    return "swarm"
  else if ((lstripColon e.sharedPool) == s.path) then
    return "shared"
  else if (e.swarmPool == s.path) then
    return "own"
  else
    return "shared"

/- the Python it was generated from (comments and docstring dropped):
   @classmethod
   def get_source_scope(cls, source_path: str, source_params: Params, own_params: Params) -> str:
       if own_params['nets_gateway'] != source_params['nets_gateway']:
           return 'cluster'
       elif own_params['nets_host'] != source_params['nets_host']:
           return 'swarm'
       elif own_params['shared_pool'].lstrip(':') == source_path:
           return 'shared'
       elif own_params['swarm_pool'] == source_path:
           return 'own'
       else:
           return 'shared'
-/

/-- `proximity`, the sort key inside `SourcedStateBackend.get_sources` of avocado_i2n/states/pool.py (`source` = `s.net + ':' + s.path`; `source_params` = the parameters of the source's net, or the own ones) -/
def genProximity (e : Env) (s : Src) : Int := Id.run do
  let mut score : Int := (0 : Int)
  if (e.gateway == (e.srcGateway s)) then
    score := (score + (1000 : Int))
  if (e.host == (e.srcHost s)) then
    score := (score + (100 : Int))
  if (e.swarmPool == s.path) then
    score := (score + (10 : Int))
  else
    score := (score + (1 : Int))
  return score

/- the Python it was generated from (comments and docstring dropped):
   def proximity(source: str) -> int:
       score = 0
       source_net, source_path = source.split(':')
       source_params = params.object_params(source_net) if source_net else params
       if params['nets_gateway'] == source_params['nets_gateway']:
           score += 1000
       if params['nets_host'] == source_params['nets_host']:
           score += 100
       if params['swarm_pool'] == source_path:
           score += 10
       else:
           score += 1
       return score
-/

end I2N.Extracted.GenPool
