/- GENERATED on every run by harness/pygen.py:extract_pool (called by harness/props/c13.py:extract) from avocado_i2n/states/pool.py — do not edit.
   Translator: harness/pygen.py (Python AST -> Lean `do` block, fails closed).  The equality with the hand
   written model is proved in the Props file that imports this module. -/
import I2N.Model.Pool
namespace I2N.Extracted.GenPool
open I2N.Pool

/-- `SourcedStateBackend.get_source_scope` of avocado_i2n/states/pool.py, translated branch by branch -/
def genSourceScope (e : Env) (s : Src) : String := Id.run do
  if (!(e.gateway == (e.srcGateway s))) then
    return "cluster"
  else if (!(e.host == (e.srcHost s))) then
    return "swarm"
  else if ((lstripColon e.sharedPool) == s.path) then
    return "shared"
  else if (e.swarmPool == s.path) then
    return "own"
  else
    return "shared"

/- the Python it was generated from (comments and docstring dropped):
   @classmethod
   def get_source_scope(cls, source_path: str, source_params: Params, own_params: Params) -> str:
       if own_params['nets_gateway'] != source_params['nets_gateway']:
           return 'cluster'
       elif own_params['nets_host'] != source_params['nets_host']:
           return 'swarm'
       elif own_params['shared_pool'].lstrip(':') == source_path:
           return 'shared'
       elif own_params['swarm_pool'] == source_path:
           return 'own'
       else:
           return 'shared'
-/

end I2N.Extracted.GenPool
