/- GENERATED on every run by harness/pygen_pxloc.py:extract_involved (called by harness/props/c05.py:extract) from avocado_i2n/cartgraph/node.py — do not edit.
   Translator: harness/pygen.py (Python AST -> Lean `do` block, fails closed).  The equality with the hand
   written model is proved in the Props file that imports this module. -/
import I2N.Model.Trav
namespace I2N.Extracted.GenInvolved
open I2N.Trav

/-- `TestNode.shared_involved_workers` of avocado_i2n/cartgraph/node.py.  `bySetup` / `byCleanup` = `self._picked_by_setup_nodes.get_workers()` / `…cleanup…` (worker ids; a worker's id stands for the worker), `swarms` = `TestSwarm.run_swarms` in dictionary order, a swarm standing for the list of its workers; the result is a SET: the list stands for its elements -/
def genSharedInvolvedWorkers (bySetup : List Nat) (byCleanup : List Nat) (swarms : List (List Nat)) : List Nat := Id.run do
  let mut worker_ids : List Nat := (bySetup ++ byCleanup)
  let mut workers : List Nat := (swarms.flatMap (fun s => ((s.filter (fun w => (worker_ids.contains w))).map (fun w => w))))
  return workers

/- the Python it was generated from (comments and docstring dropped):
   @property
   def shared_involved_workers(self) -> set[TestWorker]:
       worker_ids = self._picked_by_setup_nodes.get_workers() | self._picked_by_cleanup_nodes.get_workers()
       workers = [w for s in TestSwarm.run_swarms for w in TestSwarm.run_swarms[s].workers if w.id in worker_ids]
       return set(workers)
-/

/-- `TestNode.shared_results` of avocado_i2n/cartgraph/node.py.  `own` = `self.results`, `bridged` = `self.bridged_nodes` (in tuple order), `resultsOf m` = `m.results` -/
def genSharedResults (own : List Result) (bridged : List Nat) (resultsOf : Nat → List Result) : List Result := Id.run do
  let mut results : List Result := own
  results := bridged.foldl (fun results bridged_node => (results ++ (resultsOf bridged_node))) results
  return results

/- the Python it was generated from (comments and docstring dropped):
   @property
   def shared_results(self) -> list[dict[str, str]]:
       results = list(self.results)
       for bridged_node in self.bridged_nodes:
           results += bridged_node.results
       return results
-/

end I2N.Extracted.GenInvolved
