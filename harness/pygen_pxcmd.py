"""pygen_pxcmd — regenerated models (translator tie, see harness/pygen.py) for the command line / tools engines.

    GenCmd.lean    the body of the tokenizing loop of `params_from_cmd` (avocado_i2n/cmd_parser.py)       C11
    GenManu.lean   the chain loop of `Manu.run` (avocado_i2n/plugins/manu.py)                            C20

Both functions are *loops around effects*; what the properties are about is the body of the loop (which branch an
argument takes, in which order the tests are made, which error is raised; which return code a step outcome gives).
`pygen.translate` works on a FunctionDef, so this module first cuts the loop out of the function — mechanically and
failing closed — and hands the translator a synthetic function whose body IS the loop body (the very AST nodes of the
source, nothing rewritten):

    def <name>_loop_body(<loop target>):
        <body of the `for` statement>

The cut (`loop_body`) checks: the function has exactly ONE top level `for` with the expected target and iterable, no
`else`, no `return` / `yield` / `await` anywhere in its body, no `break` / `continue` that belongs to it; the statements
in front of the loop (the initial loop state) and — where the property speaks about them — behind it are pinned verbatim
(AST equality) and stand for the initial state / the final projection of the hand written model.

The loop state lives in the monad of the generated definition (`StateT St (Except Err)`); every statement that updates
it is pinned verbatim (`spec.stmts`: Python statement -> action of the monad, defined in the prelude of the generated
file).  On top of pygen's own checks this module refuses any mention of a loop state variable outside a pinned
statement, a declared atom or the message of a `raise` (`check_state_uses`): an unpinned `tests_str = ""` would
otherwise be translated as a harmless local.

Trusted with this module (in addition to harness/pygen.py): the cut; the atom / statement tables below (each Python
statement on the left means the Lean action on the right — they are short and are printed side by side in the
generated file); the regular expressions stay atoms (`splitArg`, `netsKey`, `vmKey` of I2N/Model/Cmd.lean are the hand
recognisers, validated differentially by the C11 correspondence).
"""
import ast
import os
import sys

HERE = os.path.dirname(os.path.abspath(__file__))
if HERE not in sys.path:
    sys.path.insert(0, HERE)
import pygen  # noqa: E402
from pygen import Unsupported, Spec  # noqa: E402


# ---------------------------------------------------------------------------------------------------------------------
# cutting a loop out of a function

def _own_jumps(stmts):
    """`break` / `continue` statements that belong to the loop whose body is `stmts` (not to a nested loop)"""
    out = []

    def walk(nodes):
        for n in nodes:
            if isinstance(n, (ast.Break, ast.Continue)):
                out.append(n)
            elif isinstance(n, (ast.For, ast.While, ast.AsyncFor)):
                walk(n.orelse)                              # the `else` of a nested loop still belongs to us
            elif isinstance(n, (ast.FunctionDef, ast.AsyncFunctionDef, ast.ClassDef, ast.Lambda)):
                continue
            else:
                for field in ("body", "orelse", "finalbody", "handlers"):
                    walk(getattr(n, field, []) or [])
    walk(stmts)
    return out


def loop_body(path, qualname, target, iter_src, before=None, after=None, name=None):
    """the synthetic FunctionDef `def <name>(<target>): <body of the loop>` + the module constants.

    target    source of the loop target (`cmd_param`, `(i, setup_step)`)
    iter_src  source of the iterable
    before / after   pinned source of ALL statements in front of / behind the loop (docstring excluded), or None = the
              property does not speak about them
    """
    tree = ast.parse(open(path).read(), filename=path)
    fn = pygen.find_function(tree, qualname)
    body = list(fn.body)
    if body and isinstance(body[0], ast.Expr) and isinstance(body[0].value, ast.Constant) \
            and isinstance(body[0].value.value, str):
        body = body[1:]
    loops = [i for i, s in enumerate(body) if isinstance(s, ast.For)
             and ast.unparse(s.target) == pygen.norm_expr(target) and ast.unparse(s.iter) == pygen.norm_expr(iter_src)]
    if len(loops) != 1:
        raise Unsupported(f"{qualname}: {len(loops)} top level loops `for {target} in {iter_src}` (exactly one expected)")
    loop = body[loops[0]]
    if loop.orelse:
        raise Unsupported(f"{qualname}: the loop has an `else`")
    for n in ast.walk(loop):
        if isinstance(n, (ast.Return, ast.Yield, ast.YieldFrom, ast.Await)):
            raise Unsupported(f"{qualname}:{n.lineno}: {type(n).__name__} inside the loop")
    jumps = _own_jumps(loop.body)
    if jumps:
        raise Unsupported(f"{qualname}:{jumps[0].lineno}: `{type(jumps[0]).__name__.lower()}` of the cut loop")
    for what, pinned, got in (("in front of", before, body[:loops[0]]), ("behind", after, body[loops[0] + 1:])):
        if pinned is not None and pygen.norm_block(pinned) != pygen.dump_stmts(got):
            raise Unsupported(f"{qualname}: the statements {what} the loop changed (they are pinned: they stand for "
                              "the initial state / the final projection of the hand written model)")
    names = [x.id for x in ast.walk(loop.target) if isinstance(x, ast.Name)]
    synth = ast.FunctionDef(
        name=name or (fn.name + "_loop_body"),
        args=ast.arguments(posonlyargs=[], args=[ast.arg(arg=n) for n in names], vararg=None, kwonlyargs=[],
                           kw_defaults=[], kwarg=None, defaults=[]),
        body=loop.body, decorator_list=[], returns=None, type_comment=None, type_params=[])
    synth.lineno, synth.col_offset = loop.lineno, loop.col_offset
    ast.fix_missing_locations(synth)
    return synth, pygen.module_constants(tree)


def check_state_uses(fn, spec, state_vars):
    """every mention of a loop state variable lies in a pinned statement, a declared atom or a `raise`"""
    ok = set()
    for n in ast.walk(fn):
        if isinstance(n, ast.stmt) and n is not fn and pygen.dump_stmts([n]) in spec.stmts:
            ok |= {id(x) for x in ast.walk(n)}
        elif isinstance(n, ast.Raise):
            ok |= {id(x) for x in ast.walk(n)}
        elif isinstance(n, ast.expr) and ast.unparse(n) in spec.atoms:
            ok |= {id(x) for x in ast.walk(n)}
    for n in ast.walk(fn):
        if isinstance(n, ast.Name) and n.id in state_vars and id(n) not in ok:
            raise Unsupported(f"{fn.name}:{n.lineno}: the loop state variable {n.id!r} is used outside the pinned "
                              "statements / declared atoms")


class _harmless_calls:
    """message expressions that are known to be pure, for the duration of one translation"""

    def __init__(self, *names):
        self.names = set(names)

    def __enter__(self):
        self.added = self.names - pygen.HARMLESS_FUNCS
        pygen.HARMLESS_FUNCS |= self.added

    def __exit__(self, *exc):
        pygen.HARMLESS_FUNCS -= self.added


# ---------------------------------------------------------------------------------------------------------------------
# C11: the tokenizing loop of params_from_cmd

CMD_BEFORE = '''
suite_path = settings.as_dict().get("i2n.common.suite_path", ".")
sys.path.insert(1, os.path.join(suite_path, "utils"))
available_vms = param.all_objects("vms")
available_restrictions = param.all_restrictions()
use_tests_default = True
with_nontrivial_restrictions = False
use_vms_default = {vm_name: True for vm_name in available_vms}
with_selected_vms = list(available_vms)
param_dict = {}
tests_str, nets_str, vm_strs = "", "", {vm: "" for vm in available_vms}
explicit_nets = None
'''

CMD_STATE_VARS = {"use_tests_default", "with_nontrivial_restrictions", "use_vms_default", "with_selected_vms",
                  "param_dict", "tests_str", "nets_str", "vm_strs", "explicit_nets"}

CMD_PRELUDE = [
    "/-- the loop state of `params_from_cmd` (`St`, initially `St.init av`: the statements in front of the loop are",
    "pinned) is the state of the monad; an exception ends the function -/",
    "abbrev M := StateT St (Except Err)",
    "def readSt {α : Type} (f : St → α) : M α := fun st => .ok (f st, st)",
    "def modSt (f : St → St) : M Unit := fun st => .ok ((), f st)",
    "/-- `s.startswith(p)` -/",
    "def pyStartsWith (s p : Str) : Bool := p.isPrefixOf s",
    "",
    "/-- `use_tests_default = False` (inside the primary-restriction scan; its `else: with_nontrivial_restrictions = True`",
    "only feeds a log line) -/",
    "def dropTestsDefault : M Unit := modSt (fun st => { st with useDef := false })",
    "/-- `tests_str += \"%s %s\\n\" % (key, value)` -/",
    "def addTestsLine (key value : Str) : M Unit := modSt (fun st => { st with tests := st.tests ++ [(key, value)] })",
    "/-- `nets_str = \"%s %s\\n\" % (key.replace(\"_nets\", \"\"), value) if value else \"\"` -/",
    "def setNetsStr (key value : Str) : M Unit :=",
    "  modSt (fun st => { st with netsStr := if value.isEmpty then none else some (removeAll kUNets key, value) })",
    "/-- `param_dict[\"nets\"] = \" \".join(param.all_suffixes_by_restriction(nets_str))` (the Cartesian parser may raise) -/",
    "def setNetsByRestr (av : Avail) : M Unit := fun st =>",
    "  match netsBy av st.netsStr with",
    "  | .error e => .error e",
    "  | .ok names => .ok ((), { st with pd := dictSet st.pd kNets (joinSp names) })",
    "/-- `use_vms_default[vm_name] = False` -/",
    "def dropVmDefault (vm : Str) : M Unit := modSt (fun st => { st with vmNoDef := vm :: st.vmNoDef })",
    "/-- `\"%s %s\\n\" % (key.replace(f\"_{vm_name}\", \"\"), value) if value else \"\"` (none = the empty string) -/",
    "def vmStrOf (vm key value : Str) : Option (Str × Str) :=",
    "  if value.isEmpty then none else some (removeAll ('_' :: vm) key, value)",
    "/-- `vm_strs[vm_name] += vm_str` -/",
    "def addVmStr (vm : Str) (line : Option (Str × Str)) : M Unit :=",
    "  modSt (fun st => { st with vmLines := match line with | none => st.vmLines | some l => st.vmLines ++ [(vm, l)] })",
    "/-- `with_selected_vms[:] = value.split(\",\")` -/",
    "def setSelVms (value : Str) : M Unit := modSt (fun st => { st with selVms := splitComma value })",
    "/-- `param_dict[key] = value` -/",
    "def setParam (key value : Str) : M Unit := modSt (fun st => { st with pd := dictSet st.pd key value })",
    "/-- `explicit_nets = value` (only `explicit_nets is not None` is ever observed) -/",
    "def setExplicitNets : M Unit := modSt (fun st => { st with explicitNets := true })",
]

CMD_SCAN_LOOP = '''
for variant in re.split(r",|\\.|\\.\\.", value):
    if variant in available_restrictions:
        use_tests_default = False
    # else this is an auxiliary restriction
    else:
        with_nontrivial_restrictions = True
'''

CMD_VMS_LOOP = '''
for vm_name in with_selected_vms:
    if vm_name not in available_vms:
        raise ValueError(
            "The vm '%s' is not among the supported vms: "
            "%s" % (vm_name, ", ".join(available_vms))
        )
'''

CMD_VMS_RAISE = '''
raise ValueError(
    "The vm '%s' is not among the supported vms: "
    "%s" % (vm_name, ", ".join(available_vms))
)
'''

CMD_VM_BODY_1 = 'use_vms_default[vm_name] = False'
CMD_VM_BODY_2 = '''
vm_str = (
    "%s %s\\n" % (key.replace(f"_{vm_name}", ""), value)
    if value
    else ""
)
'''
CMD_VM_BODY_3 = 'vm_strs[vm_name] += vm_str'

CMD_VM_LOOP = '''
for vm_name in available_vms:
    if re.fullmatch(f"(only|no)_{vm_name}", key):
        # escape defaults for this vm and use the command line
        use_vms_default[vm_name] = False
        # main vm restriction part
        vm_str = (
            "%s %s\\n" % (key.replace(f"_{vm_name}", ""), value)
            if value
            else ""
        )
        vm_strs[vm_name] += vm_str
        break
else:
    raise ValueError(
        f"Invalid object restriction {key} (no such object)"
    )
'''


def cmd_step_spec():
    return Spec(
        "genStep",
        binders=[("av", "Avail"), ("cmd_param", "Str")],
        params={"cmd_param": None}, ret="unit", monad="M",
        atoms={
            "re.match(r'(\\w+)=(.*)', cmd_param) is None": ("(splitArg cmd_param).isNone", "bool"),
            "key": ("key", "str"),
            "value": ("value", "str"),
            "'only'": ("kOnly", "str"), "'no'": ("kNo", "str"), "'only_'": ("kOnlyU", "str"), "'no_'": ("kNoU", "str"),
            "'vms'": ("kVms", "str"), "'nets'": ("kNets", "str"),
            "re.fullmatch('(only|no)_nets', key)": ("(netsKey key)", "bool"),
            "nets_str != ''": ("readSt (fun st => st.netsStr.isSome)", "bool", "reads"),
            "explicit_nets is not None": ("readSt (fun st => st.explicitNets)", "bool", "reads"),
            # the three inner loops (translated since the `effect_loops` shapes of pygen exist)
            "available_restrictions": ("av.restrictions", "slist"),
            "available_vms": ("av.vms", "slist"),
            "with_selected_vms": ("readSt (fun st => st.selVms)", "slist", "reads"),
            "re.fullmatch(f'(only|no)_{vm_name}', key)": ("(vmKey key vm_name)", "bool"),
        },
        calls={"re.split(r',|\\.|\\.\\.', _1)": ("(splitVariants {1})", "slist", "pure", ["str"])},
        effect_loops=True,
        stmts={
            "(key, value) = re_param.group(1, 2)": "let mut (key, value) := (splitArg cmd_param).getD ([], [])",
            "use_tests_default = False": "dropTestsDefault",
            "with_nontrivial_restrictions = True": "pure ()",
            'tests_str += "%s %s\\n" % (key, value)': "addTestsLine key value",
            'nets_str = ("%s %s\\n" % (key.replace("_nets", ""), value) if value else "")': "setNetsStr key value",
            'param_dict["nets"] = " ".join(param.all_suffixes_by_restriction(nets_str))': "setNetsByRestr av",
            CMD_VM_BODY_1: "dropVmDefault vm_name",
            CMD_VM_BODY_2: "let vm_str := vmStrOf vm_name key value",
            CMD_VM_BODY_3: "addVmStr vm_name vm_str",
            'with_selected_vms[:] = value.split(",")': "setSelVms value",
            CMD_VMS_RAISE: "throw Err.valueError",
            'value = value.replace(",", " ")': "value := commaToSpace value",
            "param_dict[key] = value": "setParam key value",
            "explicit_nets = value": "setExplicitNets",
        },
        raises=[("ValueError", "Found malformed parameter on the command line '{}' - must be of the form <key>=<val>",
                 "Err.valueError"),
                ("ValueError", "Cannot specify a nets restriction '{}' together with explicit net suffixes {}",
                 "Err.valueError"),
                ("ValueError", "Cannot specify explicit net suffixes {} together with a nets restriction, currently "
                               "also specified '{}'", "Err.valueError"),
                ("ValueError", "Invalid object restriction {} (no such object)", "Err.valueError")],
        prims={"startswith": "pyStartsWith"},
        prelude=CMD_PRELUDE,
        doc="ONE iteration of the main tokenizing loop of `params_from_cmd` (avocado_i2n/cmd_parser.py), translated "
            "branch by branch; `av.vms` = `available_vms`, `av.restrictions` = `available_restrictions`; the regular "
            "expressions are the hand recognisers `splitArg` / `netsKey` / `vmKey` of I2N/Model/Cmd.lean")


def cmd_source(path=None):
    path = path or pygen._src("PYGEN_CMD_SRC", "avocado_i2n/cmd_parser.py")
    fn, consts = loop_body(path, "params_from_cmd", "cmd_param", 'config["params"]', before=CMD_BEFORE,
                           name="params_from_cmd_loop_body")
    spec = cmd_step_spec()
    check_state_uses(fn, spec, CMD_STATE_VARS)
    with _harmless_calls("nets_str.rstrip"):
        d = pygen.translate(fn, spec, consts)
    return pygen.render_file("harness/pygen_pxcmd.py:extract_cmd (called by harness/props/c11.py:extract) from "
                             "avocado_i2n/cmd_parser.py", ["I2N.Model.Cmd"], "I2N.Extracted.GenCmd", ["I2N.Cmd"], [d])


def extract_cmd(ctx=None):
    return pygen.write_if_changed(pygen._lean_path("GenCmd.lean"), cmd_source())


# ---------------------------------------------------------------------------------------------------------------------
# C20: the chain loop of Manu.run

MANU_BEFORE = '''
log.info("Manual setup chain started.")
os.environ["LANG"] = "en_US.UTF-8"
config["run.suite_runner"] = "traverser"
config["params"] = config["i2n.manu.params"]
try:
    cmd_parser.params_from_cmd(config)
except (ValueError, param.EmptyCartesianProduct) as error:
    LOG_UI.error(error)
    return 1
intertest.load_addons_tools()
run_params = config["vms_params"]
setup_chain = run_params.get("setup", "").split()
retcode = 0
'''

MANU_AFTER = '''
log.info("Manual setup chain finished.")
return retcode
'''

MANU_COUNT = 'run_params["count"] = i'
MANU_GETATTR = 'setup_func = getattr(intertest, setup_step)'
MANU_TB_LOOP = 'for item in tb_list:\n    log.error(item.rstrip())\n'

MANU_PRELUDE = [
    "/-- the state of the chain loop of `Manu.run`: `retcode`, the environment the steps act on, and what was called so",
    "far; an exception that escapes the loop (`getattr` of an unknown step) keeps the state (`ExceptT` over `StateM`) -/",
    "structure ChainSt (σ : Type) where",
    "  rc : Nat",
    "  env : σ",
    "  executed : List (String × Nat)",
    "  outcomes : List Outcome",
    "",
    "abbrev M (σ : Type) := ExceptT Err (StateM (ChainSt σ))",
    "variable {σ : Type}",
    "/-- `retcode = <n>` -/",
    "def setRetcode (n : Nat) : M σ Unit := modify (fun s => { s with rc := n })",
]

MANU_SKELETON = [
    "/-- the loop body of `Manu.run`.  NOT translated but matched structurally by harness/pygen_pxcmd.py (the body must be",
    "exactly: `run_params[\"count\"] = i`; `setup_func = getattr(intertest, setup_step)`; `try: <genTryBody> except",
    "Exception as error: <genExceptBody>` without `else` / `finally`): `known` = `hasattr(intertest, step)` (the `getattr`",
    "stands outside the `try`, its AttributeError escapes), `f` = the step function acting on the environment; what it",
    "does (`Outcome`) is the value of the call expression of the `try` body, or the exception the handler catches -/",
    "def genChainStep (known : String → Bool) (f : σ → String → Nat → Outcome × σ) (i : Nat) (setup_step : String) :",
    "    M σ Unit := ExceptT.mk (fun s =>",
    "  if !known setup_step then (.error Err.attributeError, s)",
    "  else",
    "    let r := f s.env setup_step i",
    "    let s' : ChainSt σ := { s with env := r.2, executed := s.executed ++ [(setup_step, i)],",
    "                                   outcomes := s.outcomes ++ [r.1] }",
    "    match r.1 with",
    "    | .raised => (genExceptBody.run).run s'",
    "    | o => ((genTryBody o).run).run s')",
    "",
    "/-- `for i, setup_step in enumerate(setup_chain): <body>` from index `i` on: the body runs for one step after the",
    "other until an exception escapes -/",
    "def genChainLoop (known : String → Bool) (f : σ → String → Nat → Outcome × σ) : Nat → List String → M σ Unit",
    "  | _, [] => ExceptT.mk (fun s => (.ok (), s))",
    "  | i, st :: rest => ExceptT.mk (fun s =>",
    "    match ((genChainStep known f i st).run).run s with",
    "    | (.ok _, s') => ((genChainLoop known f (i + 1) rest).run).run s'",
    "    | (.error e, s') => (.error e, s'))",
    "",
    "/-- `retcode = 0` in front of the loop, `return retcode` behind it (both pinned) -/",
    "def genManuChain (known : String → Bool) (f : σ → String → Nat → Outcome × σ) (env : σ) (chain : List String) :",
    "    Except Err Nat × ChainSt σ :=",
    "  let r := ((genChainLoop known f 0 chain).run).run { rc := 0, env := env, executed := [], outcomes := [] }",
    "  (r.1.map (fun _ => r.2.rc), r.2)",
]


def _synth(name, body, like):
    fn = ast.FunctionDef(name=name, args=ast.arguments(posonlyargs=[], args=[], vararg=None, kwonlyargs=[],
                                                       kw_defaults=[], kwarg=None, defaults=[]),
                         body=body, decorator_list=[], returns=None, type_comment=None, type_params=[])
    fn.lineno, fn.col_offset = like.lineno, like.col_offset
    return ast.fix_missing_locations(fn)


def manu_specs():
    try_spec = Spec(
        "genTryBody", binders=[("o", "Outcome")], params={}, ret="unit", monad="M σ",
        atoms={"setup_func(config, '0m%s' % i) in [None, 0]": ("(!o.fails)", "bool")},
        stmts={"retcode = 1": "setRetcode 1"}, prelude=MANU_PRELUDE,
        doc="the body of the `try` of the chain loop of `Manu.run` (avocado_i2n/plugins/manu.py) when the step "
            "function returns; `o` = what it returned, `o.fails` = `setup_func(config, \"0m<i>\") not in [None, 0]`")
    exc_spec = Spec(
        "genExceptBody", binders=[], params={}, ret="unit", monad="M σ",
        stmts={"retcode = 1": "setRetcode 1", MANU_TB_LOOP: "pure ()"},
        ignored_calls={"LOG_UI.error", "log.error"},
        doc="the body of `except Exception as error:` of the chain loop of `Manu.run`: the step function raised")
    return try_spec, exc_spec


def manu_source(path=None):
    path = path or pygen._src("PYGEN_MANU_SRC", "avocado_i2n/plugins/manu.py")
    fn, consts = loop_body(path, "Manu.run", "(i, setup_step)", "enumerate(setup_chain)", before=MANU_BEFORE,
                           after=MANU_AFTER, name="manu_run_loop_body")
    body = fn.body
    if len(body) != 3 or pygen.dump_stmts(body[:2]) != pygen.norm_block(MANU_COUNT + "\n" + MANU_GETATTR) \
            or not isinstance(body[2], ast.Try):
        raise Unsupported("Manu.run: the loop body is no longer `run_params[\"count\"] = i; setup_func = getattr(…); "
                          "try: … except Exception as error: …`")
    t = body[2]
    if t.orelse or t.finalbody or len(t.handlers) != 1 or ast.unparse(t.handlers[0].type or ast.Constant(None)) != "Exception" \
            or t.handlers[0].name != "error":
        raise Unsupported("Manu.run: the `try` of the loop body changed its shape (one `except Exception as error`, "
                          "no else / finally expected)")
    try_spec, exc_spec = manu_specs()
    try_fn = _synth("manu_run_try_body", t.body, t)
    exc_fn = _synth("manu_run_except_body", t.handlers[0].body, t.handlers[0])
    for f, sp in ((try_fn, try_spec), (exc_fn, exc_spec)):
        check_state_uses(f, sp, {"retcode", "setup_chain"})
        for n in ast.walk(f):
            if isinstance(n, (ast.Try, ast.Raise, ast.With)):
                raise Unsupported(f"Manu.run:{n.lineno}: {type(n).__name__} inside the try / except body")
    # the only expression of the try body that may raise is the step call (it is the atom): nothing is assigned in
    # front of it, so "an exception leaves the try body without any of its effects" holds
    d1 = pygen.translate(try_fn, try_spec, consts)
    d2 = pygen.translate(exc_fn, exc_spec, consts)
    return pygen.render_file("harness/pygen_pxcmd.py:extract_manu (called by harness/props/c20.py:extract) from "
                             "avocado_i2n/plugins/manu.py", ["I2N.Model.Tools"], "I2N.Extracted.GenManu", ["I2N.Tools"],
                             [d1, d2, MANU_SKELETON])


def extract_manu(ctx=None):
    return pygen.write_if_changed(pygen._lean_path("GenManu.lean"), manu_source())


SOURCES = {"cmd": cmd_source, "manu": manu_source}


if __name__ == "__main__":
    for name in sys.argv[1:] or list(SOURCES):
        print(SOURCES[name]())
