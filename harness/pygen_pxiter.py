"""pygen_pxiter — translator tie for `_parametric_object_iteration` of avocado_i2n/states/setup.py (C12, engine E2).

`extract_iter(ctx)` (called from harness/props/c12.py:extract on every run) regenerates
lean/I2N/Extracted/GenIter.lean from the CURRENT source; lean/I2N/Lemmas/PolicyGenIter.lean / Props/C12.lean prove
the generated level equal to the hand model's `iterAux` / `iterObjects` (`iterObjects_matches_source`).

The function is a RECURSIVE GENERATOR over a list shared between the levels; harness/pygen.py has neither generators
nor recursion nor mutable lists, so this module is a small separate front end + printer (fails closed: every statement
and expression that is not one of the shapes below raises pygen.Unsupported).  What is generated is ONE LEVEL:

    def genIterLevel (self : Params -> G Unit) (params : Params) (composites_is_none : Bool) : G Unit

in the monad `G` of lean/I2N/Lemmas/PolicyIterM.lean (state = the shared list `composites` + the list of dictionaries
yielded so far; exceptions keep the state).  `yield e` = `yieldG e`; `yield from _parametric_object_iteration(P,
composites)` = `self P` (open recursion: the second argument must be the NAME `composites`, i.e. the very list object
that is the monad's state; anything else - a copy, None, a literal - is refused); `if composites is None: composites =
[]` = `if composites_is_none then resetC` (`self` is the function with `composites_is_none = false`: a list is not None).

Statements (in any order and nesting the Python has; nothing is pinned to a position):
  X = <expr>                         let X := … / let X <- …      (X a fresh local or a re-assignment at the same level)
  P[<str expr>] = <str expr>         let P := P.set k v           (P a local dictionary made by `.object_params(…)` in
                                                                   the same block; never `params`, never inside an `if`)
  composites.append(None | (a, b))   appendC …
  composites[-1] = (a, b)            setLastC (some (a, b))
  composites.pop()                   popC
  if <bool expr>: <stmts> [else: <stmts>]   (bodies: raise / yield / yield from / list operations; no bindings)
  raise ValueError(<constant message>)      throwG IterErr.valueError
  for X in <list expr>: <stmts>      gFor … fun X => do …         (no break / continue / else / return)
  yield P | yield from <recursive call>
Expressions: string constants, names, `P.objects(e)`, `P.object_params(e)`, `len(L)`, `len(composites)`, `L[<nat expr>]`,
  `L[-1]`, `a == b`, `a != b` (strings or naturals), integer constants >= 0, `"/".join([c[0|1] for c in composites])`.
Aliasing: `params` and the local dictionaries are only read through `.objects` / `.object_params` (which return new
  objects) or stored into by a constant shape; a dictionary handed to the recursive call is only read by the callee (the
  callee is this very function and `params` is never stored into: checked here), a yielded dictionary must not be
  mentioned after its `yield`.

Trusted: this front end (about 250 lines), the atoms of PolicyIterM.lean, `Params.objects` / `Params.objectParams` /
`joinSlash` of the hand model as the meaning of `Params.objects` / `Params.object_params` / `"/".join` (tied by the
differential runs of harness/props/c12.py).
"""
import ast

import pygen
from pygen import Unsupported

SETUP_REL = "avocado_i2n/states/setup.py"
FNAME = "_parametric_object_iteration"


def _ls(s):
    return pygen.lean_str(s)


class _Level:
    def __init__(self, fn):
        self.fn = fn
        self.lines = []

    def bad(self, node, why):
        raise Unsupported(f"{FNAME}:{getattr(node, 'lineno', '?')}: {why}: `{ast.unparse(node)[:90]}`")

    # ------------------------------------------------------------------------------------------------ expressions
    def expr(self, n, env):
        """-> (lean term, type); types: str, slist, params, nat, bool"""
        if isinstance(n, ast.Constant):
            if isinstance(n.value, str):
                return _ls(n.value), "str"
            if isinstance(n.value, int) and not isinstance(n.value, bool) and n.value >= 0:
                return str(n.value), "nat"
            self.bad(n, "constant")
        if isinstance(n, ast.Name):
            if n.id == "composites":
                self.bad(n, "the shared list is used as a value")
            if n.id not in env:
                self.bad(n, "unknown name")
            return n.id, env[n.id]
        if isinstance(n, ast.Call) and not n.keywords:
            f = n.func
            if isinstance(f, ast.Attribute) and isinstance(f.value, ast.Name) and env.get(f.value.id) == "params" \
                    and len(n.args) == 1 and f.attr in ("objects", "object_params"):
                a, t = self.expr(n.args[0], env)
                if t != "str":
                    self.bad(n, "the key is not a string")
                if f.attr == "objects":
                    return f"({f.value.id}.objects {a})", "slist"
                return f"({f.value.id}.objectParams {a})", "params"
            if isinstance(f, ast.Name) and f.id == "len" and len(n.args) == 1:
                if isinstance(n.args[0], ast.Name) and n.args[0].id == "composites":
                    return "(← lenC)", "nat"
                a, t = self.expr(n.args[0], env)
                if t != "slist":
                    self.bad(n, "len of something that is not a list of strings")
                return f"{a}.length", "nat"
            if isinstance(f, ast.Attribute) and f.attr == "join" and isinstance(f.value, ast.Constant) \
                    and f.value.value == "/" and len(n.args) == 1:
                c = n.args[0]
                if isinstance(c, ast.ListComp) and len(c.generators) == 1:
                    g = c.generators[0]
                    if isinstance(g.target, ast.Name) and not g.ifs and not g.is_async \
                            and isinstance(g.iter, ast.Name) and g.iter.id == "composites" \
                            and isinstance(c.elt, ast.Subscript) and isinstance(c.elt.value, ast.Name) \
                            and c.elt.value.id == g.target.id and isinstance(c.elt.slice, ast.Constant) \
                            and c.elt.slice.value in (0, 1) and not isinstance(c.elt.slice.value, bool):
                        return f"(joinSlash (← projC (·.{c.elt.slice.value + 1})))", "str"
            self.bad(n, "call")
        if isinstance(n, ast.Subscript) and isinstance(n.ctx, ast.Load):
            if isinstance(n.value, ast.Name) and n.value.id == "composites":
                self.bad(n, "read of an entry of the shared list")
            l, t = self.expr(n.value, env)
            if t != "slist":
                self.bad(n, "subscript of something that is not a list of strings")
            s = n.slice
            if isinstance(s, ast.UnaryOp) and isinstance(s.op, ast.USub) and isinstance(s.operand, ast.Constant) \
                    and s.operand.value == 1 and not isinstance(s.operand.value, bool):
                return f"(← lastG {l})", "str"
            i, ti = self.expr(s, env)
            if ti != "nat":
                self.bad(n, "index")
            return f"(← indexG {l} {i})", "str"
        if isinstance(n, ast.Compare) and len(n.ops) == 1 and isinstance(n.ops[0], (ast.Eq, ast.NotEq)):
            a, ta = self.expr(n.left, env)
            b, tb = self.expr(n.comparators[0], env)
            if ta != tb or ta not in ("str", "nat"):
                self.bad(n, "comparison of different / unsupported types")
            return f"({a} {'==' if isinstance(n.ops[0], ast.Eq) else '!='} {b})", "bool"
        self.bad(n, "expression")

    def pair(self, n, env):
        if isinstance(n, ast.Constant) and n.value is None:
            return "none"
        if isinstance(n, ast.Tuple) and len(n.elts) == 2:
            a, ta = self.expr(n.elts[0], env)
            b, tb = self.expr(n.elts[1], env)
            if ta == tb == "str":
                return f"(some ({a}, {b}))"
        self.bad(n, "entry of the shared list")

    # ------------------------------------------------------------------------------------------------- statements
    def is_rec_call(self, n, env):
        if not (isinstance(n, ast.Call) and isinstance(n.func, ast.Name) and n.func.id == FNAME):
            return None
        if n.keywords or len(n.args) != 2 or not (isinstance(n.args[1], ast.Name) and n.args[1].id == "composites"):
            self.bad(n, "the recursive call does not hand on the shared list `composites` itself")
        a, t = self.expr(n.args[0], env)
        if t != "params" or not isinstance(n.args[0], ast.Name):
            self.bad(n, "the first argument of the recursive call is not a dictionary name")
        return a

    def block(self, stmts, env, ind, binding_ok, fresh):
        """`fresh`: dictionaries created in this block by object_params (may be stored into)"""
        out = self.lines
        pad = "  " * ind
        dead = set()  # yielded dictionaries
        for s in stmts:
            for x in ast.walk(s):
                if isinstance(x, ast.Name) and x.id in dead:
                    self.bad(s, f"`{x.id}` is used after it was yielded")
                if isinstance(x, ast.Name) and x.id == "params" and not isinstance(x.ctx, ast.Load):
                    self.bad(s, "`params` is rebound")
            if isinstance(s, ast.Expr) and isinstance(s.value, ast.Constant) and isinstance(s.value.value, str):
                continue
            if isinstance(s, ast.Assign) and len(s.targets) == 1:
                t = s.targets[0]
                if isinstance(t, ast.Name):
                    if not binding_ok:
                        self.bad(s, "binding inside a branch")
                    if t.id in ("params", "composites", "self"):
                        self.bad(s, "assignment to a parameter")
                    v, ty = self.expr(s.value, env)
                    if t.id in env and env[t.id] != ty:
                        self.bad(s, "a local changes its type")
                    if ty == "params":
                        if not (isinstance(s.value, ast.Call) and s.value.func.attr == "object_params"):
                            self.bad(s, "a dictionary gets a second name")
                        fresh.add(t.id)
                    env[t.id] = ty
                    out.append(f"{pad}let {t.id} := {v}")
                    continue
                if isinstance(t, ast.Subscript) and isinstance(t.value, ast.Name):
                    d = t.value.id
                    if d == "composites":
                        sl = t.slice
                        if isinstance(sl, ast.UnaryOp) and isinstance(sl.op, ast.USub) \
                                and isinstance(sl.operand, ast.Constant) and sl.operand.value == 1:
                            out.append(f"{pad}setLastC {self.pair(s.value, env)}")
                            continue
                        self.bad(s, "store into the shared list")
                    if env.get(d) == "params":
                        if d not in fresh or not binding_ok:
                            self.bad(s, "store into a dictionary that was not created in this block")
                        k, tk = self.expr(t.slice, env)
                        v, tv = self.expr(s.value, env)
                        if tk != "str" or tv != "str":
                            self.bad(s, "key / value of the store is not a string")
                        out.append(f"{pad}let {d} := {d}.set {k} {v}")
                        continue
                self.bad(s, "assignment")
            if isinstance(s, ast.Expr) and isinstance(s.value, ast.Call):
                c = s.value
                if isinstance(c.func, ast.Attribute) and isinstance(c.func.value, ast.Name) \
                        and c.func.value.id == "composites" and not c.keywords:
                    if c.func.attr == "append" and len(c.args) == 1:
                        out.append(f"{pad}appendC {self.pair(c.args[0], env)}")
                        continue
                    if c.func.attr == "pop" and not c.args:
                        out.append(f"{pad}popC")
                        continue
                self.bad(s, "call statement")
            if isinstance(s, ast.Expr) and isinstance(s.value, ast.Yield):
                v = s.value.value
                if not (isinstance(v, ast.Name) and env.get(v.id) == "params" and v.id in fresh):
                    self.bad(s, "yield of something that is not a dictionary created in this block")
                out.append(f"{pad}yieldG {v.id}")
                dead.add(v.id)
                continue
            if isinstance(s, ast.Expr) and isinstance(s.value, ast.YieldFrom):
                a = self.is_rec_call(s.value.value, env)
                if a is None:
                    self.bad(s, "`yield from` of something that is not the recursive call")
                out.append(f"{pad}self {a}")
                continue
            if isinstance(s, ast.Raise):
                e = s.exc
                if s.cause is None and isinstance(e, ast.Call) and isinstance(e.func, ast.Name) \
                        and e.func.id == "ValueError" and len(e.args) == 1 and not e.keywords \
                        and isinstance(e.args[0], ast.Constant) and isinstance(e.args[0].value, str):
                    out.append(f"{pad}throwG IterErr.valueError")
                    continue
                self.bad(s, "raise")
            if isinstance(s, ast.If):
                t = s.test
                if isinstance(t, ast.Compare) and len(t.ops) == 1 and isinstance(t.ops[0], ast.Is) \
                        and isinstance(t.left, ast.Name) and t.left.id == "composites" \
                        and isinstance(t.comparators[0], ast.Constant) and t.comparators[0].value is None:
                    if s.orelse or len(s.body) != 1 or ast.unparse(s.body[0]) != "composites = []":
                        self.bad(s, "the `composites is None` branch is not `composites = []`")
                    out.append(f"{pad}if composites_is_none then")
                    out.append(f"{pad}  resetC")
                    continue
                c, tc = self.expr(t, env)
                if tc != "bool":
                    self.bad(s, "the test is not a comparison")
                out.append(f"{pad}if {c} then")
                self.block(s.body, dict(env), ind + 1, False, set(fresh))
                if s.orelse:
                    out.append(f"{pad}else")
                    self.block(s.orelse, dict(env), ind + 1, False, set(fresh))
                continue
            if isinstance(s, ast.For):
                if s.orelse or not isinstance(s.target, ast.Name) or s.target.id in env or not binding_ok:
                    self.bad(s, "loop")
                for x in ast.walk(s):
                    if isinstance(x, (ast.Break, ast.Continue, ast.Return)):
                        self.bad(x, "break / continue / return in the loop")
                l, tl = self.expr(s.iter, env)
                if tl != "slist":
                    self.bad(s, "the loop is not over a list of strings")
                out.append(f"{pad}gFor {l} fun {s.target.id} => do")
                env2 = dict(env)
                env2[s.target.id] = "str"
                self.block(s.body, env2, ind + 1, True, set())
                continue
            self.bad(s, f"{type(s).__name__}")
        if not stmts:
            out.append(f"{pad}pure ()")

    def run(self):
        fn = self.fn
        a = fn.args
        if [x.arg for x in a.args] != ["params", "composites"] or a.vararg or a.kwarg or a.kwonlyargs \
                or a.posonlyargs or len(a.defaults) != 1 \
                or not (isinstance(a.defaults[0], ast.Constant) and a.defaults[0].value is None):
            raise Unsupported(f"{FNAME}: signature is not (params, composites=None)")
        if fn.decorator_list:
            raise Unsupported(f"{FNAME}: decorated")
        for x in ast.walk(fn):
            if isinstance(x, (ast.While, ast.AsyncFor, ast.Try, ast.With, ast.AsyncWith, ast.Await, ast.Lambda,
                              ast.Global, ast.Nonlocal, ast.Delete, ast.NamedExpr, ast.AugAssign, ast.Return,
                              ast.ClassDef)) or (isinstance(x, ast.FunctionDef) and x is not fn):
                self.bad(x, type(x).__name__)
        body = list(fn.body)
        # `if composites is None` must come before any use of the list
        seen_none = False
        for s in body:
            if isinstance(s, ast.If) and ast.unparse(s.test) == "composites is None":
                seen_none = True
                continue
            if not seen_none and any(isinstance(x, ast.Name) and x.id == "composites" for x in ast.walk(s)):
                self.bad(s, "`composites` is used before the `is None` test")
        for s in body:
            for x in ast.walk(s):
                if isinstance(x, ast.If) and ast.unparse(x.test) == "composites is None" and x not in body:
                    self.bad(x, "the `is None` test is not at the top level")
        self.lines = [
            f"/-- ONE level of the recursive generator `{FNAME}(params, composites=None)` of "
            "avocado_i2n/states/setup.py:",
            "`self` = the recursive call (on the SAME list `composites`, the state of `G`), `yield` = `yieldG` -/",
            "def genIterLevel (self : Params → G Unit) (params : Params) (composites_is_none : Bool) : G Unit := do"]
        self.block(body, {"params": "params"}, 1, True, set())
        import copy
        fn2 = copy.deepcopy(fn)
        if fn2.body and isinstance(fn2.body[0], ast.Expr) and isinstance(fn2.body[0].value, ast.Constant) \
                and isinstance(fn2.body[0].value.value, str) and len(fn2.body) > 1:
            fn2.body = fn2.body[1:]
        src = ast.unparse(fn2).splitlines()
        self.lines.append("")
        self.lines.append("/- the Python it was generated from (comments and docstring dropped):")
        self.lines += ["   " + l.replace("-/", "- /") for l in src]
        self.lines.append("-/")
        return self.lines


def iter_source(path=None):
    path = path or pygen._src("PYGEN_SETUP_SRC", SETUP_REL)
    tree = ast.parse(open(path).read(), filename=path)
    fn = pygen.find_function(tree, FNAME)
    defs = [_Level(fn).run()]
    return pygen.render_file("harness/pygen_pxiter.py:extract_iter (called by harness/props/c12.py:extract) from "
                             "avocado_i2n/states/setup.py", ["I2N.Lemmas.PolicyIterM"], "I2N.Extracted.GenIter",
                             ["I2N.Policy", "I2N.PolicyIterM"], defs)


def extract_iter(ctx=None):
    return pygen.write_if_changed(pygen._lean_path("GenIter.lean"), iter_source())


if __name__ == "__main__":
    print(iter_source())
