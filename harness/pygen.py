"""pygen — a small Python-AST -> Lean 4 translator for finite decision functions (fails closed).

Purpose (DESIGN: second, independent tie between model and code).  The Lean models of /repo's decision logic are
written by hand and tied to the code by differential runs.  For *pure decision functions* a stronger tie is cheap: this
module regenerates a Lean definition from the function's current source on every run (`extract(ctx)` of the property
module writes it to lean/I2N/Extracted/Gen*.lean) and the property's Props file proves `generated = hand model` for ALL
inputs.  A change of the Python changes the generated Lean, the equality theorem stops compiling and `./check` reports a
broken proof obligation (which run.py turns into a search for a failing input).

The generated Lean is a `do` block that mirrors the Python statement by statement (`let mut` variables, `if/else if/
else`, `return`), in the `Except Err` monad when the function reads dictionaries (`d["k"]` raises KeyError) and in `Id`
otherwise; Python `==` becomes Lean's Boolean `==`, `and/or/not` become `&& || !`.  Reading the generated file next to
the Python is the intended review of this translator.

Subset (everything else raises `Unsupported`, nothing is skipped silently):
  statements   docstring, `pass`, `x = e`, `d["k"] = e` (d a local dictionary created by a literal in this function),
               `if/elif/else`, `return e`; every path must end in a `return`
  expressions  str / bool / None constants, tuples, `{"k": "v", ...}` literals, names of parameters and locals,
               `d["k"]` (KeyError when missing), `==`, `!=`, `is None`, `is not None`, `in` / `not in` on literal
               lists/tuples/sets of strings (or a module level constant holding one), `and`, `or`, `not`,
               `a if c else b`
  atoms        expressions the caller gives a meaning to (`spec.atoms`: normalised Python source -> Lean term, type),
               e.g.  `self.params.get('nets_spawner')` -> `nets_spawner : Option String`,
               `'swarm' in self.params['pool_scope']` -> `swarm_in_scope : Bool`, `worker` -> `worker : Bool` (truthiness)
  blocks       whole branch bodies the caller pins verbatim (`spec.blocks`: Python source -> Lean term): a branch body
               whose AST equals the pinned one is translated to `return <term>`; used to abstract the *bodies* of a
               selection (is_started: the three ways of counting) while the *selection* is translated

What is trusted (to be listed in the trusted base of a property that uses this module):
  * this translator (about 400 lines): that the `do` block it prints means what the Python means on the subset above,
    in particular: Lean hoists `(<- d.getItem k)` to the front of the enclosing statement in left-to-right order, which
    is Python's evaluation order because effects (dictionary reads) are refused in short-circuited positions;
    dictionaries are values in Lean, which is Python's meaning because aliasing a dictionary is refused;
  * the atom table of each use: every atom expression is pure, total and keeps its value during the call, and the Lean
    term given for it is what the hand model uses for that quantity; a Bool atom stands for the truthiness of the
    expression;
  * pinned blocks: have no effect on the selection (they are only reached as whole branch bodies and they return).
"""
import ast
import os


class Unsupported(Exception):
    """the function left the translated subset (or does not look like the spec says): fail closed"""


# ---------------------------------------------------------------------------------------------------------------------
# types:  "str" | "optstr" | "bool" | "sdict" | ("tuple", (t, ...)) | any other string = an opaque Lean type name

LEAN_TYPES = {"str": "String", "optstr": "Option String", "bool": "Bool", "sdict": "SDict"}

LEAN_KEYWORDS = {
    "local", "end", "from", "at", "in", "do", "then", "else", "if", "let", "have", "show", "fun", "match", "with", "for",
    "open", "section", "namespace", "variable", "theorem", "def", "instance", "structure", "class", "inductive", "where",
    "deriving", "import", "export", "private", "protected", "mutual", "macro", "syntax", "return", "try", "catch",
    "finally", "unless", "break", "continue", "mut", "by", "calc", "Type", "Prop", "Sort", "using", "nomatch", "nofun",
    "true", "false", "some", "none", "pure", "bind", "not", "and", "or", "universe", "axiom", "example", "abbrev",
    "opaque", "partial", "unsafe", "noncomputable", "attribute", "set_option", "infix", "infixl", "infixr", "prefix",
    "postfix", "notation", "extends", "this", "suffices", "obtain", "termination_by", "decreasing_by", "omit", "include",
    "public", "meta", "module", "all", "scoped", "elab", "initialize", "builtin_initialize", "register", "declare",
}


def lean_type(t):
    if isinstance(t, tuple) and t[0] == "tuple":
        return " × ".join(("(" + lean_type(x) + ")") if isinstance(x, tuple) else lean_type(x) for x in t[1])
    return LEAN_TYPES.get(t, t)


def lean_str(s):
    out = []
    for ch in s:
        if ch == "\\":
            out.append("\\\\")
        elif ch == '"':
            out.append('\\"')
        elif ch == "\n":
            out.append("\\n")
        elif 32 <= ord(ch) < 127:
            out.append(ch)
        else:
            out.append("\\u{%x}" % ord(ch))
    return '"' + "".join(out) + '"'


def lean_ident(name):
    if not name.isidentifier() or not name.isascii():
        raise Unsupported(f"identifier {name!r} cannot be used in Lean")
    if name in LEAN_KEYWORDS or name.startswith("__"):
        return "«" + name + "»"
    return name


def norm_expr(src):
    """normal form of a Python expression's source (quotes, spacing, parentheses)"""
    return ast.unparse(ast.parse(src.strip(), mode="eval").body)


def norm_block(src):
    """normal form of a statement list's source: the AST dump without positions"""
    import textwrap
    return dump_stmts(ast.parse(textwrap.dedent(src)).body)


def dump_stmts(stmts):
    return "\n".join(ast.dump(s, annotate_fields=True, include_attributes=False) for s in stmts)


class Spec:
    """what the caller says about one function.

    lean_name   name of the generated definition
    binders     [(lean name, Lean type text)] — the arguments of the generated definition, in order
    params      {python parameter name: (Lean term, type) | None}; `None` = the parameter has no meaning of its own (it
                may only occur inside atoms and pinned blocks); `self` / `cls` are dropped.  The parameter list of the
                Python function must be exactly the keys, in order.
    atoms       {python expression source: (Lean term, type)}
    blocks      [(python source of a whole branch body, Lean term, type)]
    ret         type of the returned value
    monad       "except" (dictionary reads allowed; result `Except Err <ret>`) | "pure" (`Id.run do`)
    """

    def __init__(self, lean_name, binders, params, ret, atoms=None, blocks=None, monad="pure", doc=""):
        self.lean_name = lean_name
        self.binders = list(binders)
        self.params = dict(params)
        self.ret = ret
        self.atoms = {norm_expr(k): v for k, v in (atoms or {}).items()}
        self.blocks = [(norm_block(src), term, typ) for src, term, typ in (blocks or [])]
        if monad not in ("except", "pure"):
            raise ValueError(monad)
        self.monad = monad
        self.doc = doc


# ---------------------------------------------------------------------------------------------------------------------
# locating the function

def find_function(tree, qualname):
    """the FunctionDef of `Class.method` / `function`; exactly one definition, no decorators that change the meaning"""
    body, node = tree.body, None
    parts = qualname.split(".")
    for i, part in enumerate(parts):
        hits = [n for n in body if isinstance(n, (ast.FunctionDef, ast.AsyncFunctionDef, ast.ClassDef)) and n.name == part]
        # a later plain assignment to the same name would replace the definition
        rebinds = [n for n in body if isinstance(n, (ast.Assign, ast.AnnAssign, ast.AugAssign))
                   and any(isinstance(t, ast.Name) and t.id == part
                           for t in (n.targets if isinstance(n, ast.Assign) else [n.target]))]
        if len(hits) != 1 or rebinds:
            raise Unsupported(f"{qualname}: {part!r} is defined {len(hits)} times / rebound {len(rebinds)} times")
        node = hits[0]
        last = i == len(parts) - 1
        if last != isinstance(node, ast.FunctionDef):
            raise Unsupported(f"{qualname}: {part!r} is a {type(node).__name__}")
        body = node.body
    for d in node.decorator_list:
        if not (isinstance(d, ast.Name) and d.id in ("classmethod", "staticmethod")):
            raise Unsupported(f"{qualname}: decorator {ast.unparse(d)} is not understood")
    return node


def module_constants(tree):
    """module level `NAME = [<str literals>]` / tuple / set, assigned exactly once"""
    seen, out = {}, {}
    for n in tree.body:
        targets = n.targets if isinstance(n, ast.Assign) else [n.target] if isinstance(n, (ast.AnnAssign, ast.AugAssign)) else []
        for t in targets:
            for name in [x.id for x in ast.walk(t) if isinstance(x, ast.Name)]:
                seen[name] = seen.get(name, 0) + 1
                if isinstance(n, ast.Assign) and len(n.targets) == 1 and isinstance(t, ast.Name):
                    lits = _str_elements(n.value)
                    if lits is not None:
                        out[name] = lits
    return {k: v for k, v in out.items() if seen[k] == 1}


def _str_elements(node):
    if isinstance(node, (ast.List, ast.Tuple, ast.Set)) and node.elts and \
            all(isinstance(e, ast.Constant) and isinstance(e.value, str) for e in node.elts):
        return [e.value for e in node.elts]
    return None


# ---------------------------------------------------------------------------------------------------------------------
# the translator

class _Fn:
    def __init__(self, fn, spec, consts):
        self.fn, self.spec, self.consts = fn, spec, consts
        self.locals = {}        # name -> type (Lean `let mut` variables)
        self.inline = {}        # name -> python AST of its defining (opaque) expression
        self.fresh_dicts = set()  # locals that hold a dictionary created by a literal here
        self.lines = []
        self.assigned = self._assigned_names(fn)
        self.uses = {"atoms": set(), "blocks": set()}
        args = fn.args
        if args.vararg or args.kwarg or args.kwonlyargs or args.posonlyargs:
            raise Unsupported(f"{fn.name}: *args / **kwargs / keyword-only / positional-only parameters")
        names = [a.arg for a in args.args]
        if names and names[0] in ("self", "cls"):
            names = names[1:]
        if names != list(spec.params):
            raise Unsupported(f"{fn.name}: parameters {names}, the spec expects {list(spec.params)}")
        for n in self.assigned:
            if n in spec.params or n in ("self", "cls"):
                raise Unsupported(f"{fn.name}: assignment to the parameter {n!r}")
        for key in spec.atoms:
            for x in ast.walk(ast.parse(key, mode="eval")):
                if isinstance(x, ast.Name) and x.id in self.assigned:
                    raise Unsupported(f"{fn.name}: the atom `{key}` mentions {x.id!r}, which the function assigns")

    @staticmethod
    def _assigned_names(fn):
        out = {}
        for n in ast.walk(fn):
            if isinstance(n, ast.Name) and isinstance(n.ctx, (ast.Store, ast.Del)):
                out[n.id] = out.get(n.id, 0) + 1
            elif isinstance(n, (ast.FunctionDef, ast.AsyncFunctionDef, ast.ClassDef, ast.Lambda)) and n is not fn:
                raise Unsupported(f"{fn.name}: nested definition")
            elif isinstance(n, (ast.Global, ast.Nonlocal, ast.NamedExpr, ast.Import, ast.ImportFrom)):
                raise Unsupported(f"{fn.name}: {type(n).__name__}")
        return out

    # ---- atoms ------------------------------------------------------------------------------------------------------

    def _subst(self, node):
        """the expression with inline-bound locals replaced by their defining expressions"""
        fn = self

        class T(ast.NodeTransformer):
            def visit_Name(self, n):
                if isinstance(n.ctx, ast.Load) and n.id in fn.inline:
                    return fn.inline[n.id]
                return n
        import copy
        return T().visit(copy.deepcopy(node))

    def atom(self, node):
        key = ast.unparse(self._subst(node))
        hit = self.spec.atoms.get(key)
        if hit is not None:
            self.uses["atoms"].add(key)
        return hit

    # ---- expressions --------------------------------------------------------------------------------------------------
    # expr(node, eff) -> (Lean text, type); `eff` False = a position Python may skip (right of and/or, branches of a
    # conditional expression): dictionary reads are refused there

    def expr(self, node, eff=True):
        hit = self.atom(node)
        if hit is not None:
            return hit
        m = getattr(self, "e_" + type(node).__name__, None)
        if m is None:
            raise Unsupported(f"{self.fn.name}:{getattr(node, 'lineno', '?')}: expression `{ast.unparse(node)}` "
                              f"({type(node).__name__}) is outside the subset and not an atom")
        return m(node, eff)

    def e_Constant(self, node, eff):
        v = node.value
        if isinstance(v, bool):
            return ("true" if v else "false"), "bool"
        if isinstance(v, str):
            return lean_str(v), "str"
        if v is None:
            return "(none : Option String)", "optstr"
        raise Unsupported(f"{self.fn.name}:{node.lineno}: constant {v!r}")

    def e_Name(self, node, eff):
        n = node.id
        if n in self.locals:
            return lean_ident(n), self.locals[n]
        if n in self.inline:
            raise Unsupported(f"{self.fn.name}:{node.lineno}: {n!r} is bound to an opaque expression and is used "
                              f"outside an atom: `{ast.unparse(self._subst(node))}`")
        if n in self.spec.params:
            if self.spec.params[n] is None:
                raise Unsupported(f"{self.fn.name}:{node.lineno}: parameter {n!r} is used outside an atom")
            return self.spec.params[n]
        raise Unsupported(f"{self.fn.name}:{node.lineno}: unknown name {n!r}")

    def e_Tuple(self, node, eff):
        if len(node.elts) < 2 or any(isinstance(e, ast.Starred) for e in node.elts):
            raise Unsupported(f"{self.fn.name}:{node.lineno}: tuple `{ast.unparse(node)}`")
        parts = [self.expr(e, eff) for e in node.elts]
        return "(" + ", ".join(p[0] for p in parts) + ")", ("tuple", tuple(p[1] for p in parts))

    def e_Dict(self, node, eff):
        keys = []
        items = []
        for k, v in zip(node.keys, node.values):
            if not (isinstance(k, ast.Constant) and isinstance(k.value, str)):
                raise Unsupported(f"{self.fn.name}:{node.lineno}: dictionary key `{ast.unparse(k) if k else '**'}`")
            if k.value in keys:
                raise Unsupported(f"{self.fn.name}:{node.lineno}: duplicate dictionary key {k.value!r}")
            keys.append(k.value)
            t, ty = self.expr(v, eff)
            if ty != "str":
                raise Unsupported(f"{self.fn.name}:{node.lineno}: dictionary value `{ast.unparse(v)}` is not a string")
            items.append(f"({lean_str(k.value)}, {t})")
        return "([" + ", ".join(items) + "] : SDict)", "sdict"

    def e_Subscript(self, node, eff):
        if not isinstance(node.ctx, ast.Load):
            raise Unsupported(f"{self.fn.name}:{node.lineno}: `{ast.unparse(node)}`")
        d, ty = self.expr(node.value, eff)
        if ty != "sdict" or not (isinstance(node.slice, ast.Constant) and isinstance(node.slice.value, str)):
            raise Unsupported(f"{self.fn.name}:{node.lineno}: subscript `{ast.unparse(node)}` (only dict[\"literal\"])")
        if self.spec.monad != "except":
            raise Unsupported(f"{self.fn.name}:{node.lineno}: dictionary read in a function declared pure")
        if not eff:
            raise Unsupported(f"{self.fn.name}:{node.lineno}: dictionary read `{ast.unparse(node)}` in a position "
                              "Python may skip (right operand of and/or, conditional expression)")
        return f"(← SDict.getItem {d} {lean_str(node.slice.value)})", "str"

    def _eq(self, a, ta, b, tb, where):
        if ta == tb and ta in ("str", "optstr", "bool"):
            return f"({a} == {b})"
        if (ta, tb) == ("optstr", "str"):
            return f"({a} == some {b})"
        if (ta, tb) == ("str", "optstr"):
            return f"(some {a} == {b})"
        raise Unsupported(f"{where}: comparison of {ta} with {tb}")

    def e_Compare(self, node, eff):
        where = f"{self.fn.name}:{node.lineno}"
        if len(node.ops) != 1:
            raise Unsupported(f"{where}: chained comparison `{ast.unparse(node)}`")
        op, right = node.ops[0], node.comparators[0]
        # the negative forms of atoms:  `a not in b`, `a != b`, `a is not b`
        pos = {ast.NotIn: ast.In, ast.NotEq: ast.Eq, ast.IsNot: ast.Is}.get(type(op))
        if pos is not None:
            hit = self.atom(ast.Compare(left=node.left, ops=[pos()], comparators=[right]))
            if hit is not None:
                if hit[1] != "bool":
                    raise Unsupported(f"{where}: atom of type {hit[1]} negated")
                return f"(!{hit[0]})", "bool"
        if isinstance(op, (ast.Eq, ast.NotEq)):
            a, ta = self.expr(node.left, eff)
            b, tb = self.expr(right, eff)
            t = self._eq(a, ta, b, tb, where)
            return (t if isinstance(op, ast.Eq) else f"(!{t})"), "bool"
        if isinstance(op, (ast.Is, ast.IsNot)):
            if not (isinstance(right, ast.Constant) and right.value is None):
                raise Unsupported(f"{where}: `{ast.unparse(node)}` (only `is None` / `is not None`)")
            a, ta = self.expr(node.left, eff)
            if ta != "optstr":
                raise Unsupported(f"{where}: `is None` on a {ta}")
            t = f"({a} == none)"
            return (t if isinstance(op, ast.Is) else f"(!{t})"), "bool"
        if isinstance(op, (ast.In, ast.NotIn)):
            lits = _str_elements(right)
            if lits is None and isinstance(right, ast.Name) and right.id not in self.assigned \
                    and right.id not in self.spec.params:
                lits = self.consts.get(right.id)
            if lits is None:
                raise Unsupported(f"{where}: `{ast.unparse(node)}`: the right side is neither a literal list of strings "
                                  "nor a module constant holding one, and the test is not an atom")
            a, ta = self.expr(node.left, eff)
            if ta == "str":
                lst = "[" + ", ".join(lean_str(x) for x in lits) + "]"
            elif ta == "optstr":
                lst = "[" + ", ".join("some " + lean_str(x) for x in lits) + "]"
            else:
                raise Unsupported(f"{where}: membership of a {ta}")
            t = f"({lst}.contains {a})"
            return (t if isinstance(op, ast.In) else f"(!{t})"), "bool"
        raise Unsupported(f"{where}: operator in `{ast.unparse(node)}`")

    def e_BoolOp(self, node, eff):
        parts = []
        for i, v in enumerate(node.values):
            t, ty = self.expr(v, eff and i == 0)
            if ty != "bool":
                raise Unsupported(f"{self.fn.name}:{node.lineno}: operand `{ast.unparse(v)}` of and/or is a {ty}, "
                                  "not a Boolean (truthiness of other values only through atoms)")
            parts.append(t)
        return "(" + (" && " if isinstance(node.op, ast.And) else " || ").join(parts) + ")", "bool"

    def e_UnaryOp(self, node, eff):
        if not isinstance(node.op, ast.Not):
            raise Unsupported(f"{self.fn.name}:{node.lineno}: `{ast.unparse(node)}`")
        t, ty = self.expr(node.operand, eff)
        if ty != "bool":
            raise Unsupported(f"{self.fn.name}:{node.lineno}: `not` of a {ty}")
        return f"(!{t})", "bool"

    def e_IfExp(self, node, eff):
        c, tc = self.expr(node.test, eff)
        a, ta = self.expr(node.body, False)
        b, tb = self.expr(node.orelse, False)
        if tc != "bool" or ta != tb:
            raise Unsupported(f"{self.fn.name}:{node.lineno}: `{ast.unparse(node)}`: condition {tc}, branches {ta}/{tb}")
        return f"(if {c} then {a} else {b})", ta

    # ---- statements -----------------------------------------------------------------------------------------------------

    def emit(self, depth, text):
        self.lines.append("  " * (depth + 1) + text)

    def block(self, stmts, depth, top=False):
        """translate a statement list; returns True when every path through it returns"""
        if not top:
            d = dump_stmts(stmts)
            for i, (pinned, term, typ) in enumerate(self.spec.blocks):
                if d == pinned:
                    if typ != self.spec.ret:
                        raise Unsupported(f"{self.fn.name}: pinned block {i} has type {typ}, the function returns {self.spec.ret}")
                    if not _terminates(stmts):
                        raise Unsupported(f"{self.fn.name}: pinned block {i} does not return on every path")
                    self.uses["blocks"].add(i)
                    self.emit(depth, f"return {term}")
                    return True
        done = False
        emitted = 0
        for i, s in enumerate(stmts):
            if done:
                raise Unsupported(f"{self.fn.name}:{s.lineno}: statement after a return")
            if i == 0 and top and isinstance(s, ast.Expr) and isinstance(s.value, ast.Constant) and isinstance(s.value.value, str):
                continue                                    # docstring
            n0 = len(self.lines)
            done = self.stmt(s, depth, top)
            emitted += len(self.lines) - n0
        if emitted == 0:
            self.emit(depth, "pure ()")
        return done

    def stmt(self, s, depth, top):
        where = f"{self.fn.name}:{s.lineno}"
        if isinstance(s, ast.Pass):
            return False
        if isinstance(s, ast.Return):
            if s.value is None:
                raise Unsupported(f"{where}: bare return")
            t, ty = self.expr(s.value)
            if ty != self.spec.ret:
                raise Unsupported(f"{where}: returns a {ty}, the spec says {self.spec.ret}")
            self.emit(depth, f"return {t}")
            return True
        if isinstance(s, ast.If):
            self._if(s, depth, "if")
            return _terminates([s])
        if isinstance(s, ast.Assign):
            if len(s.targets) != 1:
                raise Unsupported(f"{where}: chained assignment")
            tgt = s.targets[0]
            if isinstance(tgt, ast.Name):
                return self._assign(tgt.id, s.value, depth, top, where)
            if isinstance(tgt, ast.Subscript) and isinstance(tgt.value, ast.Name) and tgt.value.id in self.fresh_dicts \
                    and isinstance(tgt.slice, ast.Constant) and isinstance(tgt.slice.value, str):
                t, ty = self.expr(s.value)
                if ty != "str":
                    raise Unsupported(f"{where}: a {ty} stored in a dictionary")
                d = lean_ident(tgt.value.id)
                self.emit(depth, f"{d} := SDict.set {d} {lean_str(tgt.slice.value)} {t}")
                return False
            raise Unsupported(f"{where}: assignment target `{ast.unparse(tgt)}`")
        raise Unsupported(f"{where}: statement {type(s).__name__} `{ast.unparse(s)[:80]}`")

    def _assign(self, name, value, depth, top, where):
        try:
            t, ty = self.expr(value)
        except Unsupported:
            # an opaque right-hand side: allowed for a single top-level assignment; every use must then be an atom
            if top and self.assigned.get(name) == 1 and name not in self.locals and _opaque_ok(value):
                self.inline[name] = self._subst(value)
                return False
            raise
        if ty == "sdict":
            if not isinstance(value, ast.Dict):
                raise Unsupported(f"{where}: a dictionary is assigned from `{ast.unparse(value)}` (aliasing); only "
                                  "dictionary literals may be assigned")
            self.fresh_dicts.add(name)
        if name in self.locals:
            if self.locals[name] != ty:
                raise Unsupported(f"{where}: {name!r} changes its type from {self.locals[name]} to {ty}")
            self.emit(depth, f"{lean_ident(name)} := {t}")
        else:
            if not top:
                raise Unsupported(f"{where}: {name!r} is first assigned inside a branch")
            self.locals[name] = ty
            self.emit(depth, f"let mut {lean_ident(name)} : {lean_type(ty)} := {t}")
        return False

    def _if(self, s, depth, kw):
        c, tc = self.expr(s.test)
        if tc != "bool":
            raise Unsupported(f"{self.fn.name}:{s.lineno}: the condition `{ast.unparse(s.test)}` is a {tc} "
                              "(truthiness of other values only through atoms)")
        self.emit(depth, f"{kw} {c} then")
        self.block(s.body, depth + 1)
        if s.orelse:
            if len(s.orelse) == 1 and isinstance(s.orelse[0], ast.If) and not self._pinned(s.orelse):
                self._if(s.orelse[0], depth, "else if")
            else:
                self.emit(depth, "else")
                self.block(s.orelse, depth + 1)

    def _pinned(self, stmts):
        d = dump_stmts(stmts)
        return any(d == p for p, _, _ in self.spec.blocks)


def _terminates(stmts):
    if not stmts:
        return False
    s = stmts[-1]
    if isinstance(s, ast.Return):
        return True
    if isinstance(s, ast.If):
        return bool(s.orelse) and _terminates(s.body) and _terminates(s.orelse)
    return False


def _opaque_ok(node):
    """an opaque right-hand side may only consist of names, attributes, constant subscripts and method calls on them"""
    for n in ast.walk(node):
        if not isinstance(n, (ast.Name, ast.Attribute, ast.Subscript, ast.Call, ast.Constant, ast.Load)):
            return False
    return True


def translate(fn, spec, consts=None):
    """Lean source of one definition (a list of lines) for the FunctionDef `fn`"""
    tr = _Fn(fn, spec, consts or {})
    done = tr.block(fn.body, 0, top=True)
    if not done:
        raise Unsupported(f"{fn.name}: a path reaches the end of the function without a return (Python returns None)")
    unused = sorted(set(range(len(spec.blocks))) - tr.uses["blocks"])
    if unused:
        raise Unsupported(f"{fn.name}: pinned block(s) {unused} do not occur as branch bodies any more")
    binders = " ".join(f"({lean_ident(n) if n.isidentifier() else n} : {t})" for n, t in spec.binders)
    rett = lean_type(spec.ret)
    if spec.monad == "except":
        head = f"def {spec.lean_name} {binders} : Except Err ({rett}) := do"
    else:
        head = f"def {spec.lean_name} {binders} : {rett} := Id.run do"
    import copy
    shown = copy.deepcopy(fn)
    if shown.body and isinstance(shown.body[0], ast.Expr) and isinstance(shown.body[0].value, ast.Constant) \
            and isinstance(shown.body[0].value.value, str) and len(shown.body) > 1:
        shown.body = shown.body[1:]                      # the docstring is not part of the meaning
    src = ast.unparse(shown).replace("-/", "- /").replace("/-", "/ -")
    out = []
    if spec.doc:
        out.append("/-- " + spec.doc.replace("-/", "- /") + " -/")
    out.append(head)
    out += tr.lines
    out.append("")
    out.append("/- the Python it was generated from (comments and docstring dropped):")
    out += ["   " + l for l in src.splitlines()]
    out.append("-/")
    return out


def generate(path, qualname, spec):
    """parse `path`, find `qualname`, translate"""
    tree = ast.parse(open(path).read(), filename=path)
    return translate(find_function(tree, qualname), spec, module_constants(tree))


def render_file(header, imports, namespace, opens, defs):
    out = ["/- GENERATED on every run by " + header + " — do not edit.",
           "   Translator: harness/pygen.py (Python AST -> Lean `do` block, fails closed).  The equality with the hand",
           "   written model is proved in the Props file that imports this module. -/"]
    out += [f"import {i}" for i in imports]
    out.append(f"namespace {namespace}")
    out += [f"open {o}" for o in opens]
    out.append("")
    for d in defs:
        out += d
        out.append("")
    out.append(f"end {namespace}")
    return "\n".join(out) + "\n"


def write_if_changed(path, text):
    os.makedirs(os.path.dirname(path), exist_ok=True)
    old = open(path).read() if os.path.exists(path) else None
    if old != text:
        with open(path, "w") as fh:
            fh.write(text)
    return old is not None and old != text


# ---------------------------------------------------------------------------------------------------------------------
# the uses (one function per generated file; the property modules call these from `extract(ctx)`)

def _src(env, default_rel):
    """source file: /repo's, or the file named by the environment variable (mutation sanity runs only)"""
    import vlib
    return os.environ.get(env) or os.path.join(vlib.REPO, default_rel)


def _lean_path(name):
    import vlib
    return os.path.join(vlib.LEAN, "I2N", "Extracted", name)


TUNNEL_SPEC = Spec(
    "genPeerVariant",
    binders=[("left_local", "SDict"), ("left_remote", "SDict"), ("left_peer", "SDict")],
    params={"left_local": ("left_local", "sdict"), "left_remote": ("left_remote", "sdict"),
            "left_peer": ("left_peer", "sdict")},
    ret=("tuple", ("sdict", "sdict", "sdict")), monad="except",
    doc="`VMTunnel._get_peer_variant` of avocado_i2n/vmnet/tunnel.py, translated statement by statement")


def tunnel_source(path=None):
    path = path or _src("PYGEN_TUNNEL_SRC", "avocado_i2n/vmnet/tunnel.py")
    d = generate(path, "VMTunnel._get_peer_variant", TUNNEL_SPEC)
    return render_file("harness/pygen.py:extract_tunnel (called by harness/props/c19.py:extract) from "
                       "avocado_i2n/vmnet/tunnel.py", ["I2N.Model.Tunnel"], "I2N.Extracted.GenTunnel", ["I2N.Tunnel"], [d])


def extract_tunnel(ctx=None):
    return write_if_changed(_lean_path("GenTunnel.lean"), tunnel_source())


def _scope_spec(which):
    """`TestNode.is_started` / `is_finished`: the selection among the three ways of counting is translated, the three
    bodies are pinned verbatim and stand for the Boolean they return (`own_val`, `swarm_val`, `global_val`)"""
    w = f"shared_{which}_workers"
    own = f"return worker in self.{w}\n"
    swarm = (f"own_cluster = worker.swarm_id\n"
             f"own_cluster_{which}_hosts = {{w for w in self.{w} if w.swarm_id == own_cluster}}\n"
             f"if threshold == -1:\n"
             f"    own_cluster_all_hosts = self.shared_involved_workers & {{*TestSwarm.run_swarms[own_cluster].workers}}\n"
             f"    return own_cluster_{which}_hosts == own_cluster_all_hosts\n"
             f"return len(own_cluster_{which}_hosts) >= threshold\n")
    glob = (f"if threshold == -1:\n"
            f"    return self.{w} == self.shared_involved_workers\n"
            f"return len(self.{w}) >= threshold\n")
    return Spec(
        "genIs" + which.capitalize(),
        binders=[("flat", "Bool"), ("worker", "Bool"), ("nets_spawner", "Option String"), ("swarm_in_scope", "Bool"),
                 ("cluster_in_scope", "Bool"), ("own_val", "Bool"), ("swarm_val", "Bool"), ("global_val", "Bool")],
        params={"worker": ("worker", "bool"), "threshold": None},
        atoms={"self.is_flat()": ("flat", "bool"),
               "self.params.get('nets_spawner')": ("nets_spawner", "optstr"),
               "'swarm' in self.params['pool_scope']": ("swarm_in_scope", "bool"),
               "'cluster' in self.params['pool_scope']": ("cluster_in_scope", "bool")},
        blocks=[(own, "own_val", "bool"), (swarm, "swarm_val", "bool"), (glob, "global_val", "bool")],
        ret="bool", monad="pure",
        doc=f"`TestNode.is_{which}` of avocado_i2n/cartgraph/node.py: the selection of the scope of counting; "
            f"`worker` = a worker was given, `own_val` / `swarm_val` / `global_val` = the value of the pinned bodies")


HARNESS_SHAPE_SPEC = Spec(
    "genShapeOf",
    binders=[("nets_spawner", "Option String"), ("swarm_in_scope", "Bool"), ("cluster_in_scope", "Bool")],
    params={"params": None},
    atoms={"params.get('nets_spawner')": ("nets_spawner", "optstr"),
           "'swarm' in params.get('pool_scope', '')": ("swarm_in_scope", "bool"),
           "'cluster' in params.get('pool_scope', '')": ("cluster_in_scope", "bool")},
    ret="str", monad="pure",
    doc="`shape_of` of harness/travlib.py: the `shape=` field of the static node lines the harness exports to drv_trav")


def scope_source(node_path=None, travlib_path=None):
    node_path = node_path or _src("PYGEN_NODE_SRC", "avocado_i2n/cartgraph/node.py")
    travlib_path = travlib_path or os.environ.get("PYGEN_TRAVLIB_SRC") or \
        os.path.join(os.path.dirname(os.path.abspath(__file__)), "travlib.py")
    defs = [generate(node_path, "TestNode.is_started", _scope_spec("started")),
            generate(node_path, "TestNode.is_finished", _scope_spec("finished")),
            generate(travlib_path, "shape_of", HARNESS_SHAPE_SPEC)]
    return render_file("harness/pygen.py:extract_scope (called by harness/props/c04.py:extract) from "
                       "avocado_i2n/cartgraph/node.py and harness/travlib.py", [], "I2N.Extracted.GenScope", [], defs)


def extract_scope(ctx=None):
    return write_if_changed(_lean_path("GenScope.lean"), scope_source())


POOL_SPEC = Spec(
    "genSourceScope",
    binders=[("e", "Env"), ("s", "Src")],
    params={"source_path": ("s.path", "str"), "source_params": None, "own_params": None},
    atoms={"own_params['nets_gateway']": ("e.gateway", "str"),
           "source_params['nets_gateway']": ("(e.srcGateway s)", "str"),
           "own_params['nets_host']": ("e.host", "str"),
           "source_params['nets_host']": ("(e.srcHost s)", "str"),
           "own_params['shared_pool'].lstrip(':')": ("(lstripColon e.sharedPool)", "str"),
           "own_params['swarm_pool']": ("e.swarmPool", "str")},
    ret="str", monad="pure",
    doc="`SourcedStateBackend.get_source_scope` of avocado_i2n/states/pool.py, translated branch by branch")


def pool_source(path=None):
    path = path or _src("PYGEN_POOL_SRC", "avocado_i2n/states/pool.py")
    d = generate(path, "SourcedStateBackend.get_source_scope", POOL_SPEC)
    return render_file("harness/pygen.py:extract_pool (called by harness/props/c13.py:extract) from "
                       "avocado_i2n/states/pool.py", ["I2N.Model.Pool"], "I2N.Extracted.GenPool", ["I2N.Pool"], [d])


def extract_pool(ctx=None):
    return write_if_changed(_lean_path("GenPool.lean"), pool_source())


if __name__ == "__main__":
    import sys
    for name in sys.argv[1:] or ["tunnel", "scope", "pool"]:
        print({"tunnel": tunnel_source, "scope": scope_source, "pool": pool_source}[name]())
