"""pygen — a small Python-AST -> Lean 4 translator for finite decision functions (fails closed).

Purpose (DESIGN: second, independent tie between model and code).  The Lean models of /repo's decision logic are
written by hand and tied to the code by differential runs.  For *pure decision functions* a stronger tie is cheap: this
module regenerates a Lean definition from the function's current source on every run (`extract(ctx)` of the property
module writes it to lean/I2N/Extracted/Gen*.lean) and the property's Props file proves `generated = hand model` for ALL
inputs.  A change of the Python changes the generated Lean, the equality theorem stops compiling and `./check` reports a
broken proof obligation (which run.py turns into a search for a failing input).

The generated Lean is a `do` block that mirrors the Python statement by statement (`let mut` variables, `if/else if/
else`, `return`), in the `Except Err` monad when the function reads dictionaries (`d["k"]` raises KeyError) and in `Id`
otherwise; Python `==` becomes Lean's Boolean `==`, `and/or/not` become `&& || !`.  Reading the generated file next to
the Python is the intended review of this translator.

Subset (everything else raises `Unsupported`, nothing is skipped silently; the full table with what is refused on
purpose is in design.d/C19.md, every construct is run through Python and Lean by harness/pygen_selftest.py):
  statements   docstring, `pass`, `x = e` (first at the top level, or in every branch of an `if`), `x += e` / `-=` / `|=`,
               `d["k"] = e` (d a local dictionary created by a literal in this function), `if/elif/else`, `return e`
               (every path must end in a `return`, except in functions declared `unit`), `raise Cls("…")` -> `throw`,
               `with <declared context manager>:` (body in place), calls of declared log functions (dropped), calls of
               declared actions, single statements pinned verbatim that stand for an action (`spec.stmts`),
               `a, b = <opaque>` (names for atoms), `a, b = <list of strings>` (a `match`, the declared ValueError for
               another length), locals of one branch (assigned and used inside it only), and four
               shapes of `for`:
                 over a literal list (unrolled) | `if c: return e` (List.find?) |
                 flag with `break` and `else: flag = False` (List.any) | updates of one local (List.foldl);
               the last three may start with guards `if c: continue` (the list is filtered; no other `continue`);
               inside an accumulation: `for y in L: if c: <updates>; break` (the updates for the first y with c),
               `S.add(e)` on a local declared `set()` (a list; only emptiness and membership are meaningful)
               opt-in per spec (`effect_loops`, added for harness/pygen_pxupdate.py, C11/C15): the search loop with a
               raising / assigning `else` (`for x in L: if c: …; break` + `else: …` -> `match L.find? c`) and loops with
               effects in the body (`L.forM fun x => do …`, `continue` allowed), `raise Cls` without a message
  expressions str / bool / None / int constants, tuples, `{"k": "v", ...}` and `[…]` literals, names of parameters and
               locals, `d["k"]` (KeyError when missing), `==`, `!=`, `is None`, `is not None`, `< <= > >=` and `+ - *`
               on integers, `max(a, b)`, `min(a, b)`, `len(list)`, `in` / `not in` on literal lists/tuples/sets of
               strings (or a module level constant holding one), on list values and between strings (substring),
               `s.startswith(p)`, `s.lower()`, `s.split()`, `s.split("c")`, `s.replace("c", "")`, `a + b` on strings, `and`, `or`, `not`, `a if c else b`,
               `a or b` on lists, truthiness of lists and sets, `l[0]` (declared IndexError), `[e for x in l if c]`, `any(…)` / `all(…)` over a
               generator, `{*l}` with `-`, `&`, `|` of which only emptiness (`len(S) > 0`, truthiness) is observable
  added for harness/pygen_pxindex.py (C16, C17; selftest: harness/pygen_pxindex_selftest.py): call templates through a
               chain of method calls (`d.get(_1, {}).get(_2, _3)`, `{}` stays in the key); `x = set()`, `|=` on sets;
               a nested accumulating `for`; locals that are None until they get a value (`local_types {x: ("opt", T)}`:
               `x = None`, `x is None`, the value branch of `if x is None: … else: …` in an accumulating loop and of
               `a if x is not None else b` reads the payload, any other read is refused); `list(l)`, `set(l)`,
               `S.intersection(l)`, sets / membership of an opaque element type (membership only); a statement pinned to
               the empty action among the leading bindings of a loop body
  atoms        expressions the caller gives a meaning to (`spec.atoms`: normalised Python source -> Lean term, type),
               e.g.  `self.params.get('nets_spawner')` -> `nets_spawner : Option String`,
               `'swarm' in self.params['pool_scope']` -> `swarm_in_scope : Bool`, `worker` -> `worker : Bool` (truthiness);
               `spec.calls`: calls whose arguments are translated (`get_numeric('max_tries', _1)`), possibly monadic
               (kinds raises / reads / action); `spec.fields`: reads on elements of lists of an opaque type
  blocks       whole branch bodies the caller pins verbatim (`spec.blocks`: Python source -> Lean term): a branch body
               whose AST equals the pinned one is translated to `return <term>`; used to abstract the *bodies* of a
               selection (is_started: the three ways of counting) while the *selection* is translated;
               `spec.assign_blocks`: the same for a body that stands for `x := <term>`

What is trusted (to be listed in the trusted base of a property that uses this module):
  * this translator (about 1100 lines): that the `do` block it prints means what the Python means on the subset above,
    in particular: Lean hoists `(<- d.getItem k)` to the front of the enclosing statement in left-to-right order, which
    is Python's evaluation order because effects (dictionary reads, atoms that may raise) behind `and` / `or` are
    computed by statements in front (`let mut pyTmp := a; if !pyTmp then pyTmp := (<- action)`) and are refused in
    conditional expressions, `elif` tests, loop bodies and comprehensions; dictionaries are values in Lean, which is Python's meaning
    because aliasing a dictionary is refused; a set is represented by a list of which only emptiness is observed;
    loops are combinators whose element functions are pure; a local declared in front of an `if` with a default value
    is assigned on every path before it is read;
  * the atom table of each use: every atom expression is pure, total and keeps its value during the call (kinds
    `raises` / `reads` / `action`: it is the stated action of the function's monad), and the Lean term given for it is
    what the hand model uses for that quantity; a Bool atom stands for the truthiness of the expression; the prelude
    lines of a spec are part of its atom table;
  * pinned blocks: have no effect on the selection (they are only reached as whole branch bodies and they return, or
    have the declared net effect on one local);
  * dropped statements (declared log calls, locals only read by log / exception messages): have no effect.
"""
import ast
import os


class Unsupported(Exception):
    """the function left the translated subset (or does not look like the spec says): fail closed"""


# ---------------------------------------------------------------------------------------------------------------------
# types:  "str" | "optstr" | "bool" | "sdict" | ("tuple", (t, ...)) | any other string = an opaque Lean type name

LEAN_TYPES = {"str": "String", "optstr": "Option String", "bool": "Bool", "sdict": "SDict", "int": "Int",
              "slist": "List String", "sset": "List String", "unit": "Unit"}

# value a `let mut` is declared with when Python first assigns the name inside the branches of an `if` (every branch
# assigns it before any read — checked — so the value is never seen)
LEAN_DEFAULTS = {"str": '""', "optstr": "none", "bool": "false", "int": "0", "slist": "[]", "sset": "[]"}

# Lean names of the string primitives (Python semantics on ASCII); the defaults are those of I2N/Model/Rules.lean, which
# `./check C10` cross-checks against Python on every run (correspondence part (h)); a spec may rename them
DEFAULT_PRIMS = {"split_char": "splitChar",            # s.split("c")     (one character; Lean: splitChar 'c' s)
                 "remove_char": "pyRemoveChar",        # s.replace("c", "")  — to be defined by the spec's prelude
                 "substr": "isSubstr",                 # a in b          (strings)
                 "lower": "lower",                     # s.lower()
                 "split_ws": "splitWs",                # s.split()
                 "startswith": "pyStartsWith"}         # s.startswith(p)  — to be defined by the spec's prelude


LEAN_KEYWORDS = {
    "local", "end", "from", "at", "in", "do", "then", "else", "if", "let", "have", "show", "fun", "match", "with", "for",
    "open", "section", "namespace", "variable", "theorem", "def", "instance", "structure", "class", "inductive", "where",
    "deriving", "import", "export", "private", "protected", "mutual", "macro", "syntax", "return", "try", "catch",
    "finally", "unless", "break", "continue", "mut", "by", "calc", "Type", "Prop", "Sort", "using", "nomatch", "nofun",
    "true", "false", "some", "none", "pure", "bind", "not", "and", "or", "universe", "axiom", "example", "abbrev",
    "opaque", "partial", "unsafe", "noncomputable", "attribute", "set_option", "infix", "infixl", "infixr", "prefix",
    "postfix", "notation", "extends", "this", "suffices", "obtain", "termination_by", "decreasing_by", "omit", "include",
    "public", "meta", "module", "all", "scoped", "elab", "initialize", "builtin_initialize", "register", "declare",
}


def lean_type(t):
    if isinstance(t, tuple) and t[0] == "tuple":
        return " × ".join(("(" + lean_type(x) + ")") if isinstance(x, tuple) else lean_type(x) for x in t[1])
    if isinstance(t, tuple) and t[0] in ("list", "set"):     # a set is a list of which only membership is observed
        return "List " + (("(" + lean_type(t[1]) + ")") if isinstance(t[1], tuple) or " " in lean_type(t[1]) else lean_type(t[1]))
    if isinstance(t, tuple) and t[0] == "opt":              # a local that is `None` until it gets a value of type t[1]
        return "Option (" + lean_type(t[1]) + ")"
    return LEAN_TYPES.get(t, t)


def set_elem_type(t):
    """element type of a set type (None when `t` is not a set)"""
    if t == "sset":
        return "str"
    if isinstance(t, tuple) and t[0] == "set":
        return t[1]
    return None


def set_of(t):
    return "sset" if t == "str" else ("set", t)


def elem_type(t):
    """element type of a list type (None when `t` is not a list)"""
    if t == "slist":
        return "str"
    if isinstance(t, tuple) and t[0] == "list":
        return t[1]
    return None


def list_of(t):
    return "slist" if t == "str" else ("list", t)


def lean_str(s):
    out = []
    for ch in s:
        if ch == "\\":
            out.append("\\\\")
        elif ch == '"':
            out.append('\\"')
        elif ch == "\n":
            out.append("\\n")
        elif 32 <= ord(ch) < 127:
            out.append(ch)
        elif ord(ch) < 256:
            out.append("\\x%02x" % ord(ch))
        elif ord(ch) < 0x10000:
            out.append("\\u%04x" % ord(ch))
        else:
            raise Unsupported(f"string constant with the character U+{ord(ch):X}")
    return '"' + "".join(out) + '"'


def lean_ident(name):
    if not name.isidentifier() or not name.isascii():
        raise Unsupported(f"identifier {name!r} cannot be used in Lean")
    if name in LEAN_KEYWORDS or name.startswith("__"):
        return "«" + name + "»"
    return name


def norm_expr(src):
    """normal form of a Python expression's source (quotes, spacing, parentheses)"""
    return ast.unparse(ast.parse(src.strip(), mode="eval").body)


def norm_block(src):
    """normal form of a statement list's source: the AST dump without positions"""
    import textwrap
    return dump_stmts(ast.parse(textwrap.dedent(src)).body)


def dump_stmts(stmts):
    return "\n".join(ast.dump(s, annotate_fields=True, include_attributes=False) for s in stmts)


class Spec:
    """what the caller says about one function.

    lean_name   name of the generated definition
    binders     [(lean name, Lean type text)] — the arguments of the generated definition, in order
    params      {python parameter name: (Lean term, type) | None}; `None` = the parameter has no meaning of its own (it
                may only occur inside atoms and pinned blocks); `self` / `cls` are dropped.  The parameter list of the
                Python function must be exactly the keys, in order.
    atoms       {python expression source: (Lean term, type) | (Lean term, type, kind)}; kind "pure" (default),
                "raises" (the Lean term is an action of the function's monad that may fail: emitted as `(← term)`, refused
                where Python may skip the evaluation) or "reads" (an action that neither fails nor changes anything:
                emitted as `(← term)` anywhere outside a lambda)
    calls       {python call source with the positional arguments other than string constants replaced by `_1`, `_2`, …:
                (Lean template with `{1}`,
                `{2}`, …, result type, kind[, argument types])}: an atom with translated arguments, e.g.
                `self.params.get_numeric('max_tries', _1)` -> `(← getNumeric c.maxTries {1})`; kind as for atoms, or
                "action" for a call used as a statement (result type "unit")
    blocks      [(python source of a whole branch body, Lean term, type)]: the body stands for `return <term>`
    assign_blocks [(python source of a whole branch body, variable, Lean term, type)]: the body stands for
                `variable := <term>` (its net effect; everything else it does is undone inside the body)
    raises      [(exception class, prefix of the message template, Lean term)]: `raise Cls(f"…")` -> `throw <term>`; the
                template is the message with every non-constant `{…}` replaced by `{}`
    ignored_calls  dotted names of functions whose calls *as statements* have no effect on the decision (`logging.debug`)
    transparent_with  dotted names of context managers whose `with` body is translated in place (`image_lock`: the lock
                protocol is modelled separately)
    fields      {(opaque type, "['key']" | ".attr"): (Lean template with `{0}`, type)}: reads on values of list elements
    prims       Lean names of the string primitives (see DEFAULT_PRIMS)
    ret         type of the returned value ("unit": the function returns None, bare `return` and falling off the end allowed)
    monad       "except" (dictionary reads / raises allowed; result `Except Err <ret>`) | "pure" (`Id.run do`) |
                any other text = the monad itself, e.g. "StateT FS (Except Err)"
    prelude     Lean lines printed before the definition (helper definitions the atom table refers to; trusted with it)
    local_types {name: type} for locals whose first value is the empty list `[]`
    stmts       {python source of ONE statement: Lean action}: a statement pinned verbatim that stands for an action of the
                function's monad (`self.should_rerun = lambda _: False` -> `set true`); it may contain what is refused
                elsewhere (attribute stores, lambdas)
    unpack_error Lean term thrown by `a, b = <list of strings>` when the list has another length (Python's ValueError)
    index_error Lean term thrown by `l[0]` on an empty list (Python's IndexError)
    type_defaults {opaque Lean type: a value of it}: values of these types may be compared with `==` (the type has a lawful
                `BEq`) and locals of these types may be first assigned inside the branches of an `if`
    effect_loops  (opt-in, monadic functions only) two further shapes of `for` at statement level:
                `for x in L: if c: <statements>; break` + `else: <statements>`  ->  `match L.find? c with | some x => … | none => …`
                (the arms are `do` sequences: pinned actions, `raise`, updates of declared locals), and a loop whose body
                has effects (pinned actions, declared action calls, `raise`, `continue`; no `break` / `return` / `else`)
                ->  `L.forM fun x => do …` (`continue` = `return ()` of the element's block); `raise Cls` without a message
    """

    def __init__(self, lean_name, binders, params, ret, atoms=None, blocks=None, monad="pure", doc="", calls=None,
                 assign_blocks=None, raises=None, ignored_calls=(), transparent_with=(), fields=None, prims=None,
                 prelude=(), local_types=None, type_defaults=None, stmts=None, unpack_error=None, index_error=None,
                 effect_loops=False):
        self.lean_name = lean_name
        self.effect_loops = effect_loops
        self.binders = list(binders)
        self.params = dict(params)
        self.ret = ret
        self.atoms = {norm_expr(k): (tuple(v) + ("pure",))[:3] for k, v in (atoms or {}).items()}
        self.calls = {norm_expr(k): tuple(v) for k, v in (calls or {}).items()}
        self.blocks = [(norm_block(src), term, typ) for src, term, typ in (blocks or [])]
        self.assign_blocks = [(norm_block(src), var, term, typ) for src, var, term, typ in (assign_blocks or [])]
        self.raises = list(raises or [])
        self.ignored_calls = set(ignored_calls)
        self.transparent_with = set(transparent_with)
        self.fields = dict(fields or {})
        self.prims = dict(DEFAULT_PRIMS, **(prims or {}))
        self.prelude = list(prelude)
        self.local_types = dict(local_types or {})
        self.type_defaults = dict(type_defaults or {})
        self.stmts = {norm_block(k): v for k, v in (stmts or {}).items()}
        self.unpack_error = unpack_error
        self.index_error = index_error
        self.monad = monad
        self.doc = doc

    @property
    def monadic(self):
        return self.monad != "pure"


# ---------------------------------------------------------------------------------------------------------------------
# locating the function

def find_function(tree, qualname):
    """the FunctionDef of `Class.method` / `function`; exactly one definition, no decorators that change the meaning"""
    body, node = tree.body, None
    parts = qualname.split(".")
    for i, part in enumerate(parts):
        hits = [n for n in body if isinstance(n, (ast.FunctionDef, ast.AsyncFunctionDef, ast.ClassDef)) and n.name == part]
        if node is not None and isinstance(node, ast.FunctionDef):
            # a function defined inside a function: it must be a plain statement of the outer body
            hits = [n for n in body if isinstance(n, ast.FunctionDef) and n.name == part]
        # a later plain assignment to the same name would replace the definition
        rebinds = [n for n in body if isinstance(n, (ast.Assign, ast.AnnAssign, ast.AugAssign))
                   and any(isinstance(t, ast.Name) and t.id == part
                           for t in (n.targets if isinstance(n, ast.Assign) else [n.target]))]
        if len(hits) != 1 or rebinds:
            raise Unsupported(f"{qualname}: {part!r} is defined {len(hits)} times / rebound {len(rebinds)} times")
        node = hits[0]
        last = i == len(parts) - 1
        if (last and not isinstance(node, ast.FunctionDef)) or isinstance(node, ast.AsyncFunctionDef):
            raise Unsupported(f"{qualname}: {part!r} is a {type(node).__name__}")
        body = node.body
    for d in node.decorator_list:
        if not (isinstance(d, ast.Name) and d.id in ("classmethod", "staticmethod", "property")):
            raise Unsupported(f"{qualname}: decorator {ast.unparse(d)} is not understood")
    return node


def module_constants(tree):
    """module level `NAME = [<str literals>]` / tuple / set, assigned exactly once"""
    seen, out = {}, {}
    for n in tree.body:
        targets = n.targets if isinstance(n, ast.Assign) else [n.target] if isinstance(n, (ast.AnnAssign, ast.AugAssign)) else []
        for t in targets:
            for name in [x.id for x in ast.walk(t) if isinstance(x, ast.Name)]:
                seen[name] = seen.get(name, 0) + 1
                if isinstance(n, ast.Assign) and len(n.targets) == 1 and isinstance(t, ast.Name):
                    lits = _str_elements(n.value)
                    if lits is not None:
                        out[name] = lits
    return {k: v for k, v in out.items() if seen[k] == 1}


def _str_elements(node):
    if isinstance(node, (ast.List, ast.Tuple, ast.Set)) and node.elts and \
            all(isinstance(e, ast.Constant) and isinstance(e.value, str) for e in node.elts):
        return [e.value for e in node.elts]
    return None


# ---------------------------------------------------------------------------------------------------------------------
# the translator

class _Fn:
    def __init__(self, fn, spec, consts):
        self.fn, self.spec, self.consts = fn, spec, consts
        self.locals = {}        # name -> type (Lean `let mut` variables)
        self.inline = {}        # name -> python AST of its defining (opaque) expression
        self.fresh_dicts = set()  # locals that hold a dictionary created by a literal here
        self.lines = []
        self.scopes = []        # variables bound by a Lean lambda / match arm: [{python name: (Lean text, type)}]
        self.lam = 0            # > 0 inside a Lean lambda: nothing monadic may be emitted there
        self.pending = {}       # names declared in front of an enclosing `if`: name -> [line index, type | None, depth]
        self.logseen = set()    # log-only locals assigned so far
        self.blocks_open = []   # the statement lists being translated: [(stmts, names declared inside)]
        self.assigned = self._assigned_names(fn)
        self.loopvars = self._loop_targets(fn)
        self.logonly = self._log_only_names()
        self.uses = {"atoms": set(), "blocks": set(), "assign_blocks": set(), "calls": set(), "raises": set(),
                     "stmts": set()}
        self.ntmp = 0
        args = fn.args
        if args.vararg or args.kwarg or args.kwonlyargs or args.posonlyargs:
            raise Unsupported(f"{fn.name}: *args / **kwargs / keyword-only / positional-only parameters")
        names = [a.arg for a in args.args]
        if names and names[0] in ("self", "cls"):
            names = names[1:]
        if names != list(spec.params):
            raise Unsupported(f"{fn.name}: parameters {names}, the spec expects {list(spec.params)}")
        for n in self.assigned:
            if n in spec.params or n in ("self", "cls"):
                raise Unsupported(f"{fn.name}: assignment to the parameter {n!r}")
        for key in list(spec.atoms) + list(spec.calls):
            for x in ast.walk(ast.parse(key, mode="eval")):
                if isinstance(x, ast.Name) and x.id in self.assigned and x.id not in self.loopvars:
                    raise Unsupported(f"{fn.name}: the atom `{key}` mentions {x.id!r}, which the function assigns")

    def _assigned_names(self, fn):
        out = {}
        pinned = set()
        for n in ast.walk(fn):
            if isinstance(n, ast.stmt) and n is not fn and dump_stmts([n]) in self.spec.stmts:
                pinned |= {id(x) for x in ast.walk(n)}
        # a lambda may only occur inside a keyword argument of a call that is a key of `spec.calls` (there it is part of
        # the declared text, e.g. `sorted(_1, key=lambda n: n.rank)`); it is never translated
        for n in ast.walk(fn):
            if isinstance(n, ast.Call) and n.keywords and not any(isinstance(a, ast.Starred) for a in n.args) \
                    and self._template(n)[0] in self.spec.calls:
                for kw in n.keywords:
                    pinned |= {id(x) for x in ast.walk(kw.value) if isinstance(x, (ast.Lambda, ast.arguments, ast.arg))}
        for n in ast.walk(fn):
            if id(n) in pinned:
                continue
            if isinstance(n, ast.Name) and isinstance(n.ctx, (ast.Store, ast.Del)):
                out[n.id] = out.get(n.id, 0) + 1
            elif isinstance(n, (ast.FunctionDef, ast.AsyncFunctionDef, ast.ClassDef, ast.Lambda)) and n is not fn:
                raise Unsupported(f"{fn.name}: nested definition")
            elif isinstance(n, (ast.Global, ast.Nonlocal, ast.NamedExpr, ast.Import, ast.ImportFrom)):
                raise Unsupported(f"{fn.name}: {type(n).__name__}")
        return out

    def _loop_targets(self, fn):
        """names bound ONLY as the target of `for` statements / comprehensions (each such binding is a Lean lambda
        variable; an atom may mention them)"""
        cnt = {}
        for n in ast.walk(fn):
            tgt = n.target if isinstance(n, (ast.For, ast.comprehension)) else None
            if tgt is not None:
                for x in ast.walk(tgt):
                    if isinstance(x, ast.Name):
                        cnt[x.id] = cnt.get(x.id, 0) + 1
        return {k for k, v in cnt.items() if v == self.assigned.get(k)}

    def _bound(self, node):
        """every local of the function that the (untranslated) message expression `node` reads has been assigned on the
        way here (Python would raise UnboundLocalError otherwise)"""
        for x in ast.walk(node):
            if isinstance(x, ast.Name) and isinstance(x.ctx, ast.Load) and x.id in self.assigned:
                if not (x.id in self.locals or x.id in self.inline or x.id in self.logseen
                        or any(x.id in sc for sc in self.scopes)):
                    return False
        return True

    def _is_ignored_call(self, s):
        return isinstance(s, ast.Expr) and isinstance(s.value, ast.Call) and _dotted(s.value.func) in self.spec.ignored_calls

    def _log_only_names(self):
        """assigned names that are read nowhere but in the arguments of ignored calls (log messages) or in the messages
        of `raise` statements"""
        inside = set()
        for n in ast.walk(self.fn):
            if self._is_ignored_call(n) or isinstance(n, ast.Raise):
                inside |= {id(x) for x in ast.walk(n)}
        read_elsewhere = {x.id for x in ast.walk(self.fn)
                          if isinstance(x, ast.Name) and isinstance(x.ctx, ast.Load) and id(x) not in inside}
        return {k for k in self.assigned if k not in read_elsewhere and k not in self.loopvars}

    # ---- atoms ------------------------------------------------------------------------------------------------------

    def _subst(self, node):
        """the expression with inline-bound locals replaced by their defining expressions"""
        fn = self

        class T(ast.NodeTransformer):
            def visit_Name(self, n):
                if isinstance(n.ctx, ast.Load) and n.id in fn.inline:
                    return fn.inline[n.id]
                return n
        import copy
        return T().visit(copy.deepcopy(node))

    def atom(self, node):
        key = ast.unparse(self._subst(node))
        hit = self.spec.atoms.get(key)
        if hit is not None:
            self.uses["atoms"].add(key)
        return hit

    def _wrap(self, term, kind, node, eff):
        """how a (possibly monadic) atom is used inside an expression"""
        if kind == "pure":
            return term
        where = f"{self.fn.name}:{getattr(node, 'lineno', '?')}"
        if kind not in ("raises", "reads"):
            raise Unsupported(f"{where}: `{ast.unparse(node)}` is an atom of kind {kind!r}, used as a value")
        if not self.spec.monadic:
            raise Unsupported(f"{where}: `{ast.unparse(node)}` is an action, the function is declared pure")
        if self.lam:
            raise Unsupported(f"{where}: the action `{ast.unparse(node)}` inside a loop body / comprehension")
        if kind == "raises" and not eff:
            raise Unsupported(f"{where}: `{ast.unparse(node)}` may raise and stands in a position Python may skip "
                              "(right operand of and/or, conditional expression)")
        return f"(← {term})"

    # ---- expressions --------------------------------------------------------------------------------------------------
    # expr(node, eff) -> (Lean text, type); `eff` False = a position Python may skip (right of and/or, branches of a
    # conditional expression): dictionary reads and atoms that may raise are refused there

    def expr(self, node, eff=True):
        hit = self.atom(node)
        if hit is not None:
            return self._wrap(hit[0], hit[2], node, eff), hit[1]
        m = getattr(self, "e_" + type(node).__name__, None)
        if m is None:
            raise Unsupported(f"{self.fn.name}:{getattr(node, 'lineno', '?')}: expression `{ast.unparse(node)}` "
                              f"({type(node).__name__}) is outside the subset and not an atom")
        return m(node, eff)

    def cond(self, node, eff=True):
        """Lean Bool for the truthiness of `node`: Booleans, lists and sets (non-empty), and/or/not of those.  The
        truthiness of strings, optionals and numbers is refused (atoms only)."""
        if isinstance(node, ast.BoolOp) and self.atom(node) is None:
            parts = [self.cond(v, eff and i == 0) for i, v in enumerate(node.values)]
            return "(" + (" && " if isinstance(node.op, ast.And) else " || ").join(parts) + ")"
        if isinstance(node, ast.UnaryOp) and isinstance(node.op, ast.Not) and self.atom(node) is None:
            return f"(!{self.cond(node.operand, eff)})"
        t, ty = self.expr(node, eff)
        if ty == "bool":
            return t
        if ty in ("slist", "sset") or elem_type(ty) is not None:
            return f"(!{t}.isEmpty)"
        raise Unsupported(f"{self.fn.name}:{getattr(node, 'lineno', '?')}: `{ast.unparse(node)}` is a {ty}, not a Boolean "
                          "or a list (truthiness of other values only through atoms)")

    def e_Constant(self, node, eff):
        v = node.value
        if isinstance(v, bool):
            return ("true" if v else "false"), "bool"
        if isinstance(v, str):
            return lean_str(v), "str"
        if v is None:
            return "(none : Option String)", "optstr"
        if isinstance(v, int):
            return f"({v} : Int)", "int"
        raise Unsupported(f"{self.fn.name}:{node.lineno}: constant {v!r}")

    def e_Name(self, node, eff):
        n = node.id
        for sc in reversed(self.scopes):
            if n in sc:
                return sc[n]
        if n in self.locals:
            return lean_ident(n), self.locals[n]
        if n in self.inline:
            raise Unsupported(f"{self.fn.name}:{node.lineno}: {n!r} is bound to an opaque expression and is used "
                              f"outside an atom: `{ast.unparse(self._subst(node))}`")
        if n in self.spec.params:
            if self.spec.params[n] is None:
                raise Unsupported(f"{self.fn.name}:{node.lineno}: parameter {n!r} is used outside an atom")
            return self.spec.params[n]
        raise Unsupported(f"{self.fn.name}:{node.lineno}: unknown name {n!r}")

    def e_Tuple(self, node, eff):
        if len(node.elts) < 2 or any(isinstance(e, ast.Starred) for e in node.elts):
            raise Unsupported(f"{self.fn.name}:{node.lineno}: tuple `{ast.unparse(node)}`")
        parts = [self.expr(e, eff) for e in node.elts]
        return "(" + ", ".join(p[0] for p in parts) + ")", ("tuple", tuple(p[1] for p in parts))

    def e_List(self, node, eff):
        """a non-empty literal list (of strings, or of values of one opaque type)"""
        if not node.elts or any(isinstance(e, ast.Starred) for e in node.elts):
            raise Unsupported(f"{self.fn.name}:{node.lineno}: list `{ast.unparse(node)}` (only non-empty lists; an empty "
                              "list only as the first value of a local whose type the spec declares)")
        parts = [self.expr(e, eff) for e in node.elts]
        tys = {p[1] for p in parts}
        if len(tys) != 1 or isinstance(parts[0][1], tuple) or parts[0][1] in ("sdict", "sset", "slist", "unit"):
            raise Unsupported(f"{self.fn.name}:{node.lineno}: list `{ast.unparse(node)}` of {sorted(map(str, tys))}")
        return "[" + ", ".join(p[0] for p in parts) + "]", list_of(parts[0][1])

    def e_Set(self, node, eff):
        """`{*xs}`: the set of the strings of a list — a value of which only emptiness (and the emptiness of its
        differences / intersections) can be observed in the subset"""
        if len(node.elts) != 1 or not isinstance(node.elts[0], ast.Starred):
            raise Unsupported(f"{self.fn.name}:{node.lineno}: set `{ast.unparse(node)}` (only `{{*list}}`)")
        t, ty = self.expr(node.elts[0].value, eff)
        if ty not in ("slist", "sset"):
            raise Unsupported(f"{self.fn.name}:{node.lineno}: set of a {ty}")
        return t, "sset"

    def e_Dict(self, node, eff):
        keys = []
        items = []
        for k, v in zip(node.keys, node.values):
            if not (isinstance(k, ast.Constant) and isinstance(k.value, str)):
                raise Unsupported(f"{self.fn.name}:{node.lineno}: dictionary key `{ast.unparse(k) if k else '**'}`")
            if k.value in keys:
                raise Unsupported(f"{self.fn.name}:{node.lineno}: duplicate dictionary key {k.value!r}")
            keys.append(k.value)
            t, ty = self.expr(v, eff)
            if ty != "str":
                raise Unsupported(f"{self.fn.name}:{node.lineno}: dictionary value `{ast.unparse(v)}` is not a string")
            items.append(f"({lean_str(k.value)}, {t})")
        return "([" + ", ".join(items) + "] : SDict)", "sdict"

    def _field(self, node, base, ty, sel):
        hit = self.spec.fields.get((ty, sel))
        if hit is None:
            raise Unsupported(f"{self.fn.name}:{node.lineno}: `{ast.unparse(node)}`: no field {sel} declared for {ty}")
        return hit[0].format(base), hit[1]

    def e_Subscript(self, node, eff):
        if not isinstance(node.ctx, ast.Load):
            raise Unsupported(f"{self.fn.name}:{node.lineno}: `{ast.unparse(node)}`")
        d, ty = self.expr(node.value, eff)
        if elem_type(ty) is not None and isinstance(node.slice, ast.Constant) and type(node.slice.value) is int \
                and node.slice.value == 0:
            # `l[0]`: the first element, Python's IndexError for the empty list
            if self.spec.index_error is None or not self.spec.monadic or self.lam or not eff:
                raise Unsupported(f"{self.fn.name}:{node.lineno}: `{ast.unparse(node)}` (the first element of a list only in a "
                                  "function that declares the error of an empty list, outside loops and positions Python may skip)")
            return (f"(← (match {d} with | pyHd :: _ => pure pyHd | [] => throw {self.spec.index_error}))"), elem_type(ty)
        if not (isinstance(node.slice, ast.Constant) and isinstance(node.slice.value, str)):
            raise Unsupported(f"{self.fn.name}:{node.lineno}: subscript `{ast.unparse(node)}` (only [\"literal\"])")
        if isinstance(ty, str) and ty not in LEAN_TYPES:
            return self._field(node, d, ty, f"[{node.slice.value!r}]")
        if ty != "sdict":
            raise Unsupported(f"{self.fn.name}:{node.lineno}: subscript `{ast.unparse(node)}` (only dict[\"literal\"])")
        if self.spec.monad != "except":
            raise Unsupported(f"{self.fn.name}:{node.lineno}: dictionary read in a function not declared `except`")
        if not eff or self.lam:
            raise Unsupported(f"{self.fn.name}:{node.lineno}: dictionary read `{ast.unparse(node)}` in a position "
                              "Python may skip (right operand of and/or, conditional expression, loop body)")
        return f"(← SDict.getItem {d} {lean_str(node.slice.value)})", "str"

    def e_Attribute(self, node, eff):
        d, ty = self.expr(node.value, eff)
        if isinstance(ty, str) and ty not in LEAN_TYPES:
            return self._field(node, d, ty, "." + node.attr)
        raise Unsupported(f"{self.fn.name}:{node.lineno}: attribute `{ast.unparse(node)}` of a {ty}")

    def _eq(self, a, ta, b, tb, where):
        if ta == tb and (ta in ("str", "optstr", "bool", "int") or ta in self.spec.type_defaults):
            return f"({a} == {b})"
        if (ta, tb) == ("optstr", "str"):
            return f"({a} == some {b})"
        if (ta, tb) == ("str", "optstr"):
            return f"(some {a} == {b})"
        raise Unsupported(f"{where}: comparison of {ta} with {tb}")

    def _len_of_set(self, node):
        """`len(S)` for a set valued S (only its comparison with 0 is translated) -> Lean text of S, or None"""
        if isinstance(node, ast.Call) and isinstance(node.func, ast.Name) and node.func.id == "len" \
                and node.func.id not in self.assigned and len(node.args) == 1 and not node.keywords \
                and self.atom(node) is None:
            try:
                t, ty = self.expr(node.args[0], False)
            except Unsupported:
                return None
            if set_elem_type(ty) is not None:
                return t
        return None

    def e_Compare(self, node, eff):
        where = f"{self.fn.name}:{node.lineno}"
        if len(node.ops) != 1:
            raise Unsupported(f"{where}: chained comparison `{ast.unparse(node)}`")
        op, right = node.ops[0], node.comparators[0]
        # the negative forms of atoms:  `a not in b`, `a != b`, `a is not b`
        pos = {ast.NotIn: ast.In, ast.NotEq: ast.Eq, ast.IsNot: ast.Is}.get(type(op))
        if pos is not None:
            pnode = ast.Compare(left=node.left, ops=[pos()], comparators=[right])
            hit = self.atom(pnode)
            if hit is not None:
                if hit[1] != "bool":
                    raise Unsupported(f"{where}: atom of type {hit[1]} negated")
                return f"(!{self._wrap(hit[0], hit[2], node, eff)})", "bool"
        s = self._len_of_set(node.left)
        if s is not None:
            if not (isinstance(right, ast.Constant) and right.value == 0 and not isinstance(right.value, bool)
                    and isinstance(op, (ast.Gt, ast.Eq, ast.NotEq))):
                raise Unsupported(f"{where}: `{ast.unparse(node)}`: the size of a set may only be compared with 0 (>, ==, !=)")
            return (f"{s}.isEmpty" if isinstance(op, ast.Eq) else f"(!{s}.isEmpty)"), "bool"
        if isinstance(op, (ast.Eq, ast.NotEq)):
            a, ta = self.expr(node.left, eff)
            b, tb = self.expr(right, eff)
            t = self._eq(a, ta, b, tb, where)
            return (t if isinstance(op, ast.Eq) else f"(!{t})"), "bool"
        if isinstance(op, (ast.Lt, ast.LtE, ast.Gt, ast.GtE)):
            a, ta = self.expr(node.left, eff)
            b, tb = self.expr(right, eff)
            if (ta, tb) != ("int", "int"):
                raise Unsupported(f"{where}: order comparison of {ta} with {tb} (integers only)")
            sym = {ast.Lt: "<", ast.LtE: "≤", ast.Gt: ">", ast.GtE: "≥"}[type(op)]
            return f"(decide ({a} {sym} {b}))", "bool"
        if isinstance(op, (ast.Is, ast.IsNot)):
            if not (isinstance(right, ast.Constant) and right.value is None):
                raise Unsupported(f"{where}: `{ast.unparse(node)}` (only `is None` / `is not None`)")
            a, ta = self.expr(node.left, eff)
            if isinstance(ta, tuple) and ta[0] == "opt":
                return (f"{a}.isNone" if isinstance(op, ast.Is) else f"{a}.isSome"), "bool"
            if ta != "optstr":
                raise Unsupported(f"{where}: `is None` on a {ta}")
            t = f"({a} == none)"
            return (t if isinstance(op, ast.Is) else f"(!{t})"), "bool"
        if isinstance(op, (ast.In, ast.NotIn)):
            lits = _str_elements(right)
            if lits is None and isinstance(right, ast.Name) and right.id not in self.assigned \
                    and right.id not in self.spec.params:
                lits = self.consts.get(right.id)
            if lits is None:
                # membership in a list valued expression / substring test between two string valued expressions
                try:
                    b, tb = self.expr(right, eff)
                except Unsupported as e:
                    raise Unsupported(f"{where}: `{ast.unparse(node)}`: the right side is neither a literal list of "
                                      f"strings, a module constant holding one, a list or a string, and the test is "
                                      f"not an atom ({e})")
                a, ta = self.expr(node.left, eff)
                if (ta, tb) == ("str", "slist") or (ta, tb) == ("str", "sset") \
                        or (ta in self.spec.type_defaults and tb in (("list", ta), ("set", ta))):
                    t = f"({b}.contains {a})"
                elif (ta, tb) == ("str", "str"):
                    t = f"({self.spec.prims['substr']} {a} {b})"
                else:
                    raise Unsupported(f"{where}: `{ast.unparse(node)}`: membership of a {ta} in a {tb}")
                return (t if isinstance(op, ast.In) else f"(!{t})"), "bool"
            a, ta = self.expr(node.left, eff)
            if ta == "str":
                lst = "[" + ", ".join(lean_str(x) for x in lits) + "]"
            elif ta == "optstr":
                lst = "[" + ", ".join("some " + lean_str(x) for x in lits) + "]"
            else:
                raise Unsupported(f"{where}: membership of a {ta}")
            t = f"({lst}.contains {a})"
            return (t if isinstance(op, ast.In) else f"(!{t})"), "bool"
        raise Unsupported(f"{where}: operator in `{ast.unparse(node)}`")

    def e_BoolOp(self, node, eff):
        parts = [self.expr(v, eff and i == 0) for i, v in enumerate(node.values)]
        tys = {p[1] for p in parts}
        if tys == {"bool"}:
            return "(" + (" && " if isinstance(node.op, ast.And) else " || ").join(p[0] for p in parts) + ")", "bool"
        if len(tys) == 1 and isinstance(node.op, ast.Or) and elem_type(parts[0][1]) is not None:
            # `a or b` on lists: the first non-empty operand (the last one when all are empty)
            ty = parts[0][1]
            out = parts[-1][0]
            for t, _ in reversed(parts[:-1]):
                out = f"(let pyOrLeft : {lean_type(ty)} := {t}; if pyOrLeft.isEmpty then {out} else pyOrLeft)"
            return out, ty
        bad = [ast.unparse(v) for v, p in zip(node.values, parts) if p[1] != "bool"]
        raise Unsupported(f"{self.fn.name}:{node.lineno}: operand `{bad[0]}` of and/or is not a Boolean "
                          "(as a value: only `or` between lists; truthiness of other values only through atoms)")

    def e_UnaryOp(self, node, eff):
        if isinstance(node.op, ast.USub) and isinstance(node.operand, ast.Constant) and type(node.operand.value) is int:
            return f"(-{node.operand.value} : Int)", "int"
        if not isinstance(node.op, ast.Not):
            raise Unsupported(f"{self.fn.name}:{node.lineno}: `{ast.unparse(node)}`")
        return f"(!{self.cond(node.operand, eff)})", "bool"

    def _none_test(self, test):
        """`x is None` / `x is not None` for a local `x` that is None until it gets a value -> (x, True when the test is
        `is None`, type of the value), else None"""
        if isinstance(test, ast.Compare) and len(test.ops) == 1 and isinstance(test.ops[0], (ast.Is, ast.IsNot)) \
                and isinstance(test.left, ast.Name) and isinstance(test.comparators[0], ast.Constant) \
                and test.comparators[0].value is None and self.atom(test) is None and self.atom(test.left) is None \
                and not any(test.left.id in sc for sc in self.scopes):
            ty = self.locals.get(test.left.id)
            if isinstance(ty, tuple) and ty[0] == "opt":
                return test.left.id, isinstance(test.ops[0], ast.Is), ty[1]
        return None

    def _narrowed(self, name, ty, f):
        """translate under the knowledge that the optional local `name` holds a value: reads of it are the payload"""
        return self._under({name: (f"pyVal_{name}", ty)}, f)

    def _empty_or(self, node, eff, ty):
        """a branch of a conditional expression; `[]` / `set()` take the type of the other branch"""
        if ty is not None and ((isinstance(node, ast.List) and not node.elts and elem_type(ty) is not None)
                               or (isinstance(node, ast.Call) and isinstance(node.func, ast.Name) and node.func.id == "set"
                                   and "set" not in self.assigned and not node.args and not node.keywords
                                   and set_elem_type(ty) is not None)):
            return "[]", ty
        return self.expr(node, eff)

    def e_IfExp(self, node, eff):
        nt = self._none_test(node.test)
        if nt is not None:
            # `x if x is not None else e`: the value branch reads the payload of the optional local
            name, is_none, ty = nt
            vnode, nnode = (node.orelse, node.body) if is_none else (node.body, node.orelse)
            a, ta = self._narrowed(name, ty, lambda: self.expr(vnode, False))
            b, tb = self._empty_or(nnode, False, ta)
            if ta != tb:
                raise Unsupported(f"{self.fn.name}:{node.lineno}: `{ast.unparse(node)}`: branches {ta}/{tb}")
            return f"(match {lean_ident(name)} with | some pyVal_{name} => {a} | none => {b})", ta
        c = self.cond(node.test, eff)
        a, ta = self.expr(node.body, False)
        b, tb = self._empty_or(node.orelse, False, ta)
        if ta != tb:
            raise Unsupported(f"{self.fn.name}:{node.lineno}: `{ast.unparse(node)}`: branches {ta}/{tb}")
        return f"(if {c} then {a} else {b})", ta

    def e_BinOp(self, node, eff):
        where = f"{self.fn.name}:{node.lineno}"
        a, ta = self.expr(node.left, eff)
        b, tb = self.expr(node.right, eff)
        if (ta, tb) == ("int", "int") and isinstance(node.op, (ast.Add, ast.Sub, ast.Mult)):
            sym = {ast.Add: "+", ast.Sub: "-", ast.Mult: "*"}[type(node.op)]
            return f"({a} {sym} {b})", "int"
        if (ta, tb) == ("str", "str") and isinstance(node.op, ast.Add):
            return f"({a} ++ {b})", "str"
        if ta == tb and (ta == "sset" or (set_elem_type(ta) is not None and set_elem_type(ta) in self.spec.type_defaults)):
            if isinstance(node.op, ast.Sub):
                return f"({a}.filter (fun pyElem => !({b}.contains pyElem)))", ta
            if isinstance(node.op, ast.BitAnd):
                return f"({a}.filter (fun pyElem => {b}.contains pyElem))", ta
            if isinstance(node.op, ast.BitOr):
                return f"({a} ++ {b})", ta
        raise Unsupported(f"{where}: `{ast.unparse(node)}`: operator {type(node.op).__name__} on {ta} and {tb}")

    # ---- calls, comprehensions ------------------------------------------------------------------------------------

    def _template(self, node):
        """a call as a key of `spec.calls`: the positional arguments other than string constants replaced by `_1`,
        `_2`, …; returns (key, the replaced arguments)"""
        import copy
        holes = []

        def templ(call):
            c = copy.copy(call)
            # a method call on the result of a call (`d.get(k, {}).keys()`): the receiver's arguments are holes too,
            # numbered first (Python evaluates the receiver first)
            if isinstance(call.func, ast.Attribute) and isinstance(call.func.value, ast.Call) \
                    and not call.func.value.keywords and not any(isinstance(a, ast.Starred) for a in call.func.value.args):
                f = copy.copy(call.func)
                f.value = templ(call.func.value)
                c.func = f
            else:
                c.func = copy.deepcopy(call.func)
            args = []
            for a in call.args:
                if (isinstance(a, ast.Constant) and isinstance(a.value, str)) \
                        or (isinstance(a, ast.Dict) and not a.keys):    # string constants and `{}` stay in the key
                    args.append(copy.deepcopy(a))
                else:
                    holes.append(a)
                    args.append(ast.Name(id=f"_{len(holes)}", ctx=ast.Load()))
            c.args = args
            return c
        return ast.unparse(self._subst(templ(node))), holes

    def _call_atom(self, node, eff, as_statement=False):
        if any(isinstance(a, ast.Starred) for a in node.args):
            return None
        key, holes = self._template(node)
        hit = self.spec.calls.get(key)
        if hit is None:
            return None
        self.uses["calls"].add(key)
        tmpl, ty, kind = hit[0], hit[1], hit[2]
        want = hit[3] if len(hit) > 3 else None
        args = []
        for i, a in enumerate(holes):
            if want is not None and i < len(want) and want[i] == "_":
                # an argument the Lean term does not mention: it must be a parameter passed on as it is
                if not (isinstance(a, ast.Name) and a.id in self.spec.params):
                    raise Unsupported(f"{self.fn.name}:{node.lineno}: `{ast.unparse(node)}`: argument {i + 1} must be a "
                                      "parameter passed on unchanged")
                args.append(("", "_"))
            else:
                args.append(self.expr(a, eff))
        if want is not None and [a[1] for a in args] != list(want):
            raise Unsupported(f"{self.fn.name}:{node.lineno}: `{ast.unparse(node)}`: argument types {[a[1] for a in args]}, "
                              f"declared {list(want)}")
        term = tmpl.format(None, *[a[0] for a in args])
        if kind == "action":
            if not as_statement:
                raise Unsupported(f"{self.fn.name}:{node.lineno}: the action `{ast.unparse(node)}` is used as a value")
            if self.lam or not self.spec.monadic:
                raise Unsupported(f"{self.fn.name}:{node.lineno}: the action `{ast.unparse(node)}` in a pure position")
            return term, "unit"
        return self._wrap(term, kind, node, eff), ty

    def _generator(self, node, eff):
        """`<elt> for x in <list> if <c>…` -> (Lean list the variable runs over, Lean variable, scope)"""
        where = f"{self.fn.name}:{node.lineno}"
        if len(node.generators) != 1:
            raise Unsupported(f"{where}: nested comprehension `{ast.unparse(node)}`")
        g = node.generators[0]
        if g.is_async or not isinstance(g.target, ast.Name):
            raise Unsupported(f"{where}: comprehension target `{ast.unparse(g.target)}`")
        src, ts = self.expr(g.iter, eff)
        et = elem_type(ts)
        if et is None:
            raise Unsupported(f"{where}: comprehension over a {ts} (lists only)")
        if g.target.id not in self.loopvars:
            raise Unsupported(f"{where}: the comprehension variable {g.target.id!r} is also assigned elsewhere")
        v = lean_ident(g.target.id)
        scope = {g.target.id: (v, et)}
        if g.ifs:
            self.scopes.append(scope)
            self.lam += 1
            try:
                conds = [self.cond(c, False) for c in g.ifs]
            finally:
                self.lam -= 1
                self.scopes.pop()
            src = f"({src}.filter (fun {v} => {' && '.join(conds)}))"
        return src, v, scope

    def _under(self, scope, f):
        self.scopes.append(scope)
        self.lam += 1
        try:
            return f()
        finally:
            self.lam -= 1
            self.scopes.pop()

    def _listcomp2(self, node, eff):
        """`[e for a in A if ca for b in B if cb]` (two generators; B, cb and e may mention a) -> List.flatMap"""
        where = f"{self.fn.name}:{node.lineno}"
        g1, g2 = node.generators
        for g in (g1, g2):
            if g.is_async or not isinstance(g.target, ast.Name) or g.target.id not in self.loopvars:
                raise Unsupported(f"{where}: comprehension target `{ast.unparse(g.target)}` (a name bound here only)")
        if g1.target.id == g2.target.id:
            raise Unsupported(f"{where}: both generators bind {g1.target.id!r}")
        src1, ts1 = self.expr(g1.iter, eff)
        if elem_type(ts1) is None:
            raise Unsupported(f"{where}: comprehension over a {ts1} (lists only)")
        v1, v2 = lean_ident(g1.target.id), lean_ident(g2.target.id)

        def inner():
            c1 = [self.cond(c, False) for c in g1.ifs]
            src2, ts2 = self.expr(g2.iter, False)
            if elem_type(ts2) is None:
                raise Unsupported(f"{where}: comprehension over a {ts2} (lists only)")

            def innermost():
                return [self.cond(c, False) for c in g2.ifs], self.expr(node.elt, False)
            c2, (body, tb) = self._under({g2.target.id: (v2, elem_type(ts2))}, innermost)
            if isinstance(tb, tuple) or tb in ("sdict", "sset"):
                raise Unsupported(f"{where}: a list of {tb}")
            if c2:
                src2 = f"({src2}.filter (fun {v2} => {' && '.join(c2)}))"
            t = f"({src2}.map (fun {v2} => {body}))"
            if c1:
                t = f"(if {' && '.join(c1)} then {t} else [])"
            return t, tb
        t, tb = self._under({g1.target.id: (v1, elem_type(ts1))}, inner)
        return f"({src1}.flatMap (fun {v1} => {t}))", list_of(tb)

    def e_ListComp(self, node, eff):
        if len(node.generators) == 2:
            return self._listcomp2(node, eff)
        src, v, scope = self._generator(node, eff)
        body, tb = self._under(scope, lambda: self.expr(node.elt, False))
        if isinstance(tb, tuple) or tb in ("sdict", "sset"):
            raise Unsupported(f"{self.fn.name}:{node.lineno}: a list of {tb}")
        return f"({src}.map (fun {v} => {body}))", list_of(tb)

    def e_Call(self, node, eff):
        where = f"{self.fn.name}:{node.lineno}"
        hit = self._call_atom(node, eff)
        if hit is not None:
            return hit
        f = node.func
        if node.keywords:
            raise Unsupported(f"{where}: keyword arguments in `{ast.unparse(node)}`")
        if isinstance(f, ast.Name) and f.id not in self.assigned and f.id not in self.spec.params:
            if f.id == "len" and len(node.args) == 1:
                t, ty = self.expr(node.args[0], eff)
                if elem_type(ty) is None:
                    raise Unsupported(f"{where}: `len` of a {ty} (lists only; the size of a set only compared with 0)")
                return f"(Int.ofNat {t}.length)", "int"
            if f.id in ("list", "set") and len(node.args) == 1:
                t, ty = self.expr(node.args[0], eff)
                et = elem_type(ty) if elem_type(ty) is not None else set_elem_type(ty)
                if et is None:
                    raise Unsupported(f"{where}: `{f.id}` of a {ty} (lists and sets only)")
                if f.id == "list" and elem_type(ty) is None:
                    raise Unsupported(f"{where}: `list` of a set (its order is not modelled)")
                return t, (list_of(et) if f.id == "list" else set_of(et))   # a copy; as a set only membership is observed
            if f.id in ("max", "min") and len(node.args) == 2:
                a, ta = self.expr(node.args[0], eff)
                b, tb = self.expr(node.args[1], eff)
                if (ta, tb) != ("int", "int"):
                    raise Unsupported(f"{where}: `{f.id}` of {ta} and {tb} (two integers only)")
                return f"({f.id} {a} {b})", "int"
            if f.id in ("any", "all") and len(node.args) == 1 and isinstance(node.args[0], (ast.GeneratorExp, ast.ListComp)):
                g = node.args[0]
                src, v, scope = self._generator(g, eff)
                # (added for harness/pygen_pxrunner.py) the element IS one Boolean atom that may raise
                # (`any(MAPPING[t["status"]] for t in l if c)`): `List.anyM` / `allM` evaluate it element by element and
                # stop at the first decisive one, like Python's `any` / `all`, so the exception is raised exactly when
                # Python raises it; only as a statement-level value (not behind and/or, not inside a lambda)
                self.scopes.append(scope)
                try:
                    hit = self.atom(g.elt)
                finally:
                    self.scopes.pop()
                if hit is not None and hit[2] == "raises":
                    if hit[1] != "bool" or not eff or self.lam or not self.spec.monadic:
                        raise Unsupported(f"{where}: `{ast.unparse(node)[:70]}`: an element that may raise is accepted "
                                          "only as a Boolean atom, in a monadic function, where Python always evaluates it")
                    return f"(← ({src}.{f.id}M (fun {v} => {hit[0]})))", "bool"
                body = self._under(scope, lambda: self.cond(g.elt, False))
                return f"({src}.{f.id} (fun {v} => {body}))", "bool"
        if isinstance(f, ast.Attribute):
            recv, tr = self.expr(f.value, eff)
            # a method with constant arguments on a value of a type for which the spec declares it as a field
            # (`fields {(type, ".rstrip('0')"): …}`, added for harness/pygen_pxnet.py): a pure function of the receiver
            if all(isinstance(a, ast.Constant) for a in node.args):
                sel = "." + f.attr + "(" + ", ".join(ast.unparse(a) for a in node.args) + ")"
                if (tr, sel) in self.spec.fields:
                    return self._field(node, recv, tr, sel)
            if set_elem_type(tr) is not None and f.attr == "intersection" and len(node.args) == 1:
                a, ta = self.expr(node.args[0], eff)
                if set_elem_type(tr) not in (elem_type(ta), set_elem_type(ta)):
                    raise Unsupported(f"{where}: intersection of a {tr} with a {ta}")
                return f"({recv}.filter (fun pyElem => {a}.contains pyElem))", tr
            if tr == "str":
                if f.attr == "lower" and not node.args:
                    return f"({self.spec.prims['lower']} {recv})", "str"
                if f.attr == "split" and not node.args:
                    return f"({self.spec.prims['split_ws']} {recv})", "slist"
                one = [a.value for a in node.args if isinstance(a, ast.Constant) and isinstance(a.value, str)]
                if f.attr == "split" and len(node.args) == 1 and len(one) == 1 and len(one[0]) == 1 and one[0].isascii() \
                        and one[0].isprintable() and one[0] not in "'\\":
                    return f"({self.spec.prims['split_char']} '{one[0]}' {recv})", "slist"
                if f.attr == "replace" and len(node.args) == 2 and len(one) == 2 and len(one[0]) == 1 and one[1] == "" \
                        and one[0].isascii() and one[0].isprintable() and one[0] not in "'\\":
                    return f"({self.spec.prims['remove_char']} '{one[0]}' {recv})", "str"
                if f.attr == "startswith" and len(node.args) == 1:
                    a, ta = self.expr(node.args[0], eff)
                    if ta != "str":
                        raise Unsupported(f"{where}: `startswith` of a {ta}")
                    return f"({self.spec.prims['startswith']} {recv} {a})", "bool"
        raise Unsupported(f"{where}: call `{ast.unparse(node)}` is outside the subset and not an atom")

    # ---- statements -----------------------------------------------------------------------------------------------------

    def emit(self, depth, text):
        self.lines.append("  " * (depth + 1) + text)

    def _pinned_assign(self, stmts):
        d = dump_stmts(stmts)
        for i, (pinned, var, term, typ) in enumerate(self.spec.assign_blocks):
            if d == pinned:
                return i, var, term, typ
        return None

    def block(self, stmts, depth, top=False):
        """translate a statement list; returns True when every path through it returns"""
        if not top:
            d = dump_stmts(stmts)
            for i, (pinned, term, typ) in enumerate(self.spec.blocks):
                if d == pinned:
                    if typ != self.spec.ret:
                        raise Unsupported(f"{self.fn.name}: pinned block {i} has type {typ}, the function returns {self.spec.ret}")
                    if not _terminates(stmts):
                        raise Unsupported(f"{self.fn.name}: pinned block {i} does not return on every path")
                    self.uses["blocks"].add(i)
                    self.emit(depth, f"return {term}")
                    return True
            hit = self._pinned_assign(stmts)
            if hit is not None:
                i, var, term, typ = hit
                if any(isinstance(n, (ast.Return, ast.Raise, ast.Break, ast.Continue)) for s in stmts for n in ast.walk(s)):
                    raise Unsupported(f"{self.fn.name}: pinned assigning block {i} leaves by return / raise / break")
                self.uses["assign_blocks"].add(i)
                self._store(var, term, typ, depth, False, f"{self.fn.name}: pinned assigning block {i}")
                return False
        done = False
        emitted = 0
        self.blocks_open.append((stmts, []))
        try:
            for i, s in enumerate(stmts):
                if done:
                    raise Unsupported(f"{self.fn.name}:{s.lineno}: statement after a return")
                if i == 0 and top and isinstance(s, ast.Expr) and isinstance(s.value, ast.Constant) and isinstance(s.value.value, str):
                    continue                                    # docstring
                n0 = len(self.lines)
                done = self.stmt(s, depth, top)
                emitted += len(self.lines) - n0
        finally:
            for name in self.blocks_open.pop()[1]:
                del self.locals[name]                       # a local of this branch: unknown outside
        if emitted == 0:
            self.emit(depth, "pure ()")
        return done

    def _branch_local(self, name):
        """every occurrence of `name` in the function lies in the branch that is being translated"""
        if not self.blocks_open or self.lam:
            return False
        inside = {id(x) for st in self.blocks_open[-1][0] for x in ast.walk(st)}
        return all(id(x) in inside for x in ast.walk(self.fn) if isinstance(x, ast.Name) and x.id == name)

    def stmt(self, s, depth, top):
        where = f"{self.fn.name}:{s.lineno}"
        if isinstance(s, ast.Pass):
            return False
        if self.spec.stmts:
            key = dump_stmts([s])
            if key in self.spec.stmts:
                if self.lam or not self.spec.monadic:
                    raise Unsupported(f"{where}: the pinned action `{ast.unparse(s)[:60]}` in a pure position")
                self.uses["stmts"].add(key)
                self.emit(depth, self.spec.stmts[key])
                return False
        if isinstance(s, ast.Return):
            if s.value is None or (isinstance(s.value, ast.Constant) and s.value.value is None and self.spec.ret == "unit"):
                if self.spec.ret != "unit":
                    raise Unsupported(f"{where}: bare return")
                self.emit(depth, "return ()")
                return True
            t, ty = self._expr_or_lowered(s.value, depth, where)
            if ty != self.spec.ret:
                raise Unsupported(f"{where}: returns a {ty}, the spec says {self.spec.ret}")
            self.emit(depth, f"return {t}")
            return True
        if isinstance(s, ast.Raise):
            self.emit(depth, f"throw {self._raise(s, where)}")
            return True
        if isinstance(s, ast.Continue) and getattr(self, "effect_depth", 0) > 0 and not self.lam:
            self.emit(depth, "return ()")                  # `continue` of an effect loop: leaves the element's `do` block
            return True
        if isinstance(s, ast.If):
            self._if(s, depth, "if")
            return _terminates([s])
        if isinstance(s, ast.Expr):
            return self._expr_stmt(s, depth, where)
        if isinstance(s, ast.For):
            return self._for(s, depth, top, where)
        if isinstance(s, ast.With):
            return self._with(s, depth, top, where)
        if isinstance(s, ast.AugAssign):
            return self._augassign(s, depth, where)
        if isinstance(s, ast.Assign):
            if len(s.targets) != 1:
                raise Unsupported(f"{where}: chained assignment")
            tgt = s.targets[0]
            if isinstance(tgt, ast.Name):
                return self._assign(tgt.id, s.value, depth, top, where)
            if isinstance(tgt, ast.Tuple) and all(isinstance(e, ast.Name) for e in tgt.elts):
                names = [e.id for e in tgt.elts]
                try:
                    t, ty = self.expr(s.value)
                except Unsupported:
                    return self._unpack(names, s.value, top, where)
                return self._unpack_list(names, t, ty, depth, top, where)
            if isinstance(tgt, ast.Subscript) and isinstance(tgt.value, ast.Name) and tgt.value.id in self.fresh_dicts \
                    and isinstance(tgt.slice, ast.Constant) and isinstance(tgt.slice.value, str):
                t, ty = self.expr(s.value)
                if ty != "str":
                    raise Unsupported(f"{where}: a {ty} stored in a dictionary")
                d = lean_ident(tgt.value.id)
                self.emit(depth, f"{d} := SDict.set {d} {lean_str(tgt.slice.value)} {t}")
                return False
            raise Unsupported(f"{where}: assignment target `{ast.unparse(tgt)}`")
        raise Unsupported(f"{where}: statement {type(s).__name__} `{ast.unparse(s)[:80]}`")

    # -- statements without a counterpart in the decision: log calls, log-only locals

    def _expr_stmt(self, s, depth, where):
        if self._is_ignored_call(s):
            for a in list(s.value.args) + [k.value for k in s.value.keywords]:
                if not _harmless(a) or not self._bound(a):
                    raise Unsupported(f"{where}: argument `{ast.unparse(a)[:60]}` of the ignored call "
                                      f"`{_dotted(s.value.func)}` is not a plain message (or reads an unassigned local)")
            return False
        if isinstance(s.value, ast.Call):
            hit = self._call_atom(s.value, True, as_statement=True)
            if hit is not None and hit[1] == "unit":
                self.emit(depth, hit[0])
                return False
        raise Unsupported(f"{where}: expression statement `{ast.unparse(s)[:80]}`")

    def _raise(self, s, where):
        if not self.spec.monadic:
            raise Unsupported(f"{where}: raise in a function declared pure")
        if self.lam:
            raise Unsupported(f"{where}: raise inside a loop body")
        e = s.exc
        if self.spec.effect_loops and s.cause is None and (isinstance(e, ast.Name) or (
                isinstance(e, ast.Call) and isinstance(e.func, ast.Name) and not e.args and not e.keywords)):
            e = ast.Call(func=e if isinstance(e, ast.Name) else e.func, args=[ast.Constant(value="")], keywords=[])
        if s.cause is not None or not (isinstance(e, ast.Call) and isinstance(e.func, ast.Name) and len(e.args) == 1
                                       and not e.keywords):
            raise Unsupported(f"{where}: `{ast.unparse(s)[:80]}` (only `raise Cls(message)`)")
        msg = e.args[0]
        if isinstance(msg, ast.Constant) and isinstance(msg.value, str):
            tmpl = msg.value
        elif isinstance(msg, ast.JoinedStr) and _harmless(msg) and self._bound(msg):
            tmpl = "".join(v.value if isinstance(v, ast.Constant) else
                           (v.value.value if isinstance(v.value, ast.Constant) and isinstance(v.value.value, str)
                            and v.conversion == -1 and v.format_spec is None else "{}")
                           for v in msg.values)
        else:
            raise Unsupported(f"{where}: the message of `{ast.unparse(s)[:80]}` is not a plain (f-)string")
        hits = [(i, term) for i, (cls, prefix, term) in enumerate(self.spec.raises)
                if cls == e.func.id and tmpl.startswith(prefix)]
        if len(hits) != 1:
            raise Unsupported(f"{where}: `raise {e.func.id}({tmpl!r})` matches {len(hits)} declared exceptions")
        self.uses["raises"].add(hits[0][0])
        return hits[0][1]

    # -- assignments

    def _store(self, name, t, ty, depth, top, where, value=None):
        """`name = <t>`: declaration (top level, or in front of the enclosing `if`) or update of a `let mut`"""
        if ty == "sdict":
            if not isinstance(value, ast.Dict):
                raise Unsupported(f"{where}: a dictionary is assigned from `{ast.unparse(value) if value else '?'}` "
                                  "(aliasing); only dictionary literals may be assigned")
            self.fresh_dicts.add(name)
        if ty == "unit":
            raise Unsupported(f"{where}: None is assigned to {name!r}")
        if name in self.locals:
            if self.locals[name] == ("opt", ty):
                t = f"some {t}"                             # a value for a local that was `None` so far
            elif self.locals[name] != ty:
                raise Unsupported(f"{where}: {name!r} changes its type from {self.locals[name]} to {ty}")
            self.emit(depth, f"{lean_ident(name)} := {t}")
        elif name in self.pending and self.pending[name][1] is None:
            self.pending[name][1] = ty
            self.locals[name] = ty
            self.emit(depth, f"{lean_ident(name)} := {t}")
        else:
            if not top:
                if not self._branch_local(name):
                    raise Unsupported(f"{where}: {name!r} is first assigned inside a branch (and not in every branch), "
                                      "and it is used outside that branch")
                self.blocks_open[-1][1].append(name)
            self.locals[name] = ty
            self.emit(depth, f"let mut {lean_ident(name)} : {lean_type(ty)} := {t}")
        return False

    def _assign(self, name, value, depth, top, where):
        if name in self.loopvars or any(name in sc for sc in self.scopes):
            raise Unsupported(f"{where}: assignment to the loop variable {name!r}")
        if name in self.logonly and name not in self.locals and _harmless(value) and self._bound(value):
            self.logseen.add(name)
            return False                                   # only ever read by log / exception messages
        if isinstance(value, ast.List) and not value.elts and name in self.spec.local_types:
            return self._store(name, "[]", self.spec.local_types[name], depth, top, where, value)
        if isinstance(value, ast.Call) and isinstance(value.func, ast.Name) and value.func.id == "set" \
                and "set" not in self.assigned and "set" not in self.spec.params and not value.args and not value.keywords:
            ty = self.spec.local_types.get(name, "sset")    # `set()`: the empty set (of strings unless declared)
            if isinstance(ty, tuple) and ty[0] == "opt":
                ty = ty[1]
            if set_elem_type(ty) is None:
                raise Unsupported(f"{where}: `set()` assigned to {name!r}, declared a {ty}")
            return self._store(name, "[]", ty, depth, top, where, value)
        if isinstance(value, ast.Constant) and value.value is None and isinstance(self.spec.local_types.get(name), tuple) \
                and self.spec.local_types[name][0] == "opt":
            return self._store(name, "none", self.spec.local_types[name], depth, top, where, value)
        try:
            t, ty = self._expr_or_lowered(value, depth, where)
        except Unsupported:
            # an opaque right-hand side: allowed for a single top-level assignment; every use must then be an atom
            if top and self.assigned.get(name) == 1 and name not in self.locals and _opaque_ok(value):
                self.inline[name] = self._subst(value)
                return False
            raise
        return self._store(name, t, ty, depth, top, where, value)

    # -- short circuits with effects: `a or <action>` evaluates the action only when `a` is false.  Lean would hoist
    #    `(← action)` to the front of the statement, so such an expression is computed by statements in front:
    #        let mut pyTmp1 : Bool := a
    #        if (!pyTmp1) then
    #          pyTmp1 := (← action)

    def _expr_or_lowered(self, node, depth, where):
        n0, ntmp = len(self.lines), self.ntmp
        try:
            return self.expr(node)
        except Unsupported as e:
            if not (isinstance(node, ast.BoolOp) and self.spec.monadic and not self.lam):
                raise
            first = e
        try:
            return self._lower_bool(node, depth, where), "bool"
        except Unsupported:
            del self.lines[n0:]
            self.ntmp = ntmp
            raise first

    def _lower_bool(self, node, depth, where):
        """Lean text of a Boolean for `node` (and/or of Booleans), emitting statements in front of the current one"""
        if not isinstance(node, ast.BoolOp) or self.atom(node) is not None:
            t, ty = self.expr(node)
            if ty != "bool":
                raise Unsupported(f"{where}: operand `{ast.unparse(node)[:60]}` of and/or is a {ty}, not a Boolean")
            return t
        if self.lam or not self.spec.monadic:
            raise Unsupported(f"{where}: `{ast.unparse(node)[:60]}`: an effect behind and/or in a pure position")
        self.ntmp += 1
        tmp = f"pyTmp{self.ntmp}"
        t0 = self._lower_bool(node.values[0], depth, where)
        self.emit(depth, f"let mut {tmp} : Bool := {t0}")
        for v in node.values[1:]:
            self.emit(depth, f"if {tmp if isinstance(node.op, ast.And) else '(!' + tmp + ')'} then")
            tv = self._lower_bool(v, depth + 1, where)
            self.emit(depth + 1, f"{tmp} := {tv}")
        return tmp

    def _unpack_list(self, names, t, ty, depth, top, where):
        """`a, b = <list of strings>`: the names get the elements, any other length raises"""
        if ty != "slist" or self.spec.unpack_error is None or not self.spec.monadic or self.lam \
                or len(set(names)) != len(names) or len(names) < 2:
            raise Unsupported(f"{where}: tuple assignment `{', '.join(names)} = …` from a {ty} (only from a list of "
                              "strings, in a function that declares the error of a wrong length)")
        for n in names:
            if n in self.loopvars or any(n in sc for sc in self.scopes) or n in self.spec.params:
                raise Unsupported(f"{where}: tuple assignment to {n!r}")
            if n not in self.locals:
                self._store(n, '""', "str", depth, top, where)
            elif self.locals[n] != "str":
                raise Unsupported(f"{where}: {n!r} changes its type from {self.locals[n]} to str")
        self.ntmp += 1
        parts = [f"pyPart{self.ntmp}_{i + 1}" for i in range(len(names))]
        self.emit(depth, f"match {t} with")
        self.emit(depth, f"| [{', '.join(parts)}] =>")
        for n, q in zip(names, parts):
            self.emit(depth + 1, f"{lean_ident(n)} := {q}")
        self.emit(depth, f"| _ => throw {self.spec.unpack_error}")
        return False

    def _unpack(self, names, value, top, where):
        """`a, b = <opaque>` at the top level: `a` / `b` stand for `<opaque>[0]` / `<opaque>[1]` inside atoms"""
        if not (top and _opaque_ok(value) and all(self.assigned.get(n) == 1 and n not in self.locals for n in names)
                and len(set(names)) == len(names)):
            raise Unsupported(f"{where}: tuple assignment `{', '.join(names)} = {ast.unparse(value)[:60]}`")
        base = self._subst(value)
        for i, n in enumerate(names):
            import copy
            self.inline[n] = ast.Subscript(value=copy.deepcopy(base), slice=ast.Constant(value=i), ctx=ast.Load())
        return False

    def _augassign(self, s, depth, where):
        if not isinstance(s.target, ast.Name) or s.target.id not in self.locals:
            raise Unsupported(f"{where}: `{ast.unparse(s)[:80]}` (augmented assignment to a declared local only)")
        name = s.target.id
        x, tx = lean_ident(name), self.locals[name]
        t, ty = self.expr(s.value)
        self.emit(depth, f"{x} := {self._aug(x, tx, s.op, t, ty, where)}")
        return False

    def _aug(self, x, tx, op, t, ty, where):
        if (tx, ty) == ("int", "int") and isinstance(op, (ast.Add, ast.Sub)):
            return f"({x} {'+' if isinstance(op, ast.Add) else '-'} {t})"
        if (tx, ty) == ("bool", "bool") and isinstance(op, (ast.BitOr, ast.BitAnd)):
            return f"({x} {'||' if isinstance(op, ast.BitOr) else '&&'} {t})"
        if (tx, ty) == ("str", "str") and isinstance(op, ast.Add):
            return f"({x} ++ {t})"
        if tx == ty and elem_type(tx) is not None and isinstance(op, ast.Add):
            return f"({x} ++ {t})"
        if (tx, ty) == ("sset", "sset") and isinstance(op, ast.BitOr):
            return f"({x} ++ {t})"                          # a set is a list of which only membership is observed
        raise Unsupported(f"{where}: augmented assignment {type(op).__name__} of a {ty} to a {tx}")

    # -- if

    def _first_assigned(self, stmts, out):
        """names an `if` statement assigns that are not declared yet (pinned bodies count through their variable)"""
        hit = self._pinned_assign(stmts)
        if hit is not None:
            out.setdefault(hit[1], None)
            return
        if self._pinned(stmts):
            return
        for s in stmts:
            if isinstance(s, ast.Assign) and len(s.targets) == 1 and isinstance(s.targets[0], ast.Name):
                out.setdefault(s.targets[0].id, None)
            elif isinstance(s, ast.If):
                self._first_assigned(s.body, out)
                self._first_assigned(s.orelse, out)
            elif isinstance(s, ast.With):
                self._first_assigned(s.body, out)

    def _def_assigns(self, stmts, name):
        """every path through `stmts` assigns `name` (or leaves the function)"""
        hit = self._pinned_assign(stmts)
        if hit is not None:
            return hit[1] == name
        for s in stmts:
            if isinstance(s, ast.Assign) and len(s.targets) == 1 and isinstance(s.targets[0], ast.Name) \
                    and s.targets[0].id == name:
                return True
            if isinstance(s, (ast.Return, ast.Raise)):
                return True
            if isinstance(s, ast.If) and s.orelse and self._def_assigns(s.body, name) and self._def_assigns(s.orelse, name):
                return True
            if isinstance(s, ast.With) and self._def_assigns(s.body, name):
                return True
        return False

    def _if(self, s, depth, kw):
        mine = []
        if kw == "if":
            cand = {}
            self._first_assigned([s], cand)
            for name in cand:
                if name in self.locals or name in self.pending or name in self.logonly or name in self.inline:
                    continue
                if not self._def_assigns([s], name):
                    continue                               # refused at the assignment ("first assigned inside a branch")
                self.pending[name] = [len(self.lines), None, depth]
                self.lines.append(None)
                mine.append(name)
        if kw == "if":
            try:
                c = self.cond(s.test)
            except Unsupported:
                if not isinstance(s.test, ast.BoolOp):
                    raise
                c = self._lower_bool(s.test, depth, f"{self.fn.name}:{s.lineno}")
        else:
            c = self.cond(s.test)
        self.emit(depth, f"{kw} {c} then")
        self.block(s.body, depth + 1)
        if s.orelse:
            if len(s.orelse) == 1 and isinstance(s.orelse[0], ast.If) and not self._pinned(s.orelse) \
                    and self._pinned_assign(s.orelse) is None:
                self._if(s.orelse[0], depth, "else if")
            else:
                self.emit(depth, "else")
                self.block(s.orelse, depth + 1)
        for name in mine:
            idx, ty, d = self.pending.pop(name)
            if ty is None:
                self.lines[idx] = ""
                continue
            dflt = LEAN_DEFAULTS.get(ty) if not isinstance(ty, tuple) else None
            dflt = dflt or (self.spec.type_defaults.get(ty) if not isinstance(ty, tuple) else None)
            if dflt is None:
                raise Unsupported(f"{self.fn.name}:{s.lineno}: {name!r} (a {ty}) is first assigned inside the branches of an if")
            self.lines[idx] = "  " * (d + 1) + f"let mut {lean_ident(name)} : {lean_type(ty)} := {dflt}"
        if mine:
            self.lines = [l for l in self.lines if l != ""]
            # indices of outer pending declarations are in front of ours: unaffected

    def _pinned(self, stmts):
        d = dump_stmts(stmts)
        return any(d == p for p, _, _ in self.spec.blocks)

    # -- with

    def _with(self, s, depth, top, where):
        if len(s.items) != 1:
            raise Unsupported(f"{where}: with of several context managers")
        it = s.items[0]
        ce = it.context_expr
        if not (isinstance(ce, ast.Call) and _dotted(ce.func) in self.spec.transparent_with
                and all(_harmless(a) for a in ce.args) and not ce.keywords):
            raise Unsupported(f"{where}: `with {ast.unparse(ce)[:60]}`: not declared transparent")
        if it.optional_vars is not None:
            if not (isinstance(it.optional_vars, ast.Name) and it.optional_vars.id in self.logonly):
                raise Unsupported(f"{where}: the value bound by `with … as {ast.unparse(it.optional_vars)}` is used")
        done = False
        for b in s.body:
            if done:
                raise Unsupported(f"{self.fn.name}:{b.lineno}: statement after a return")
            done = self.stmt(b, depth, top)
        return done

    # -- for

    def _for(self, s, depth, top, where):
        if isinstance(s.iter, (ast.List, ast.Tuple)) and not any(isinstance(e, ast.Starred) for e in s.iter.elts) \
                and self.atom(s.iter) is None and not _str_elements(s.iter):
            return self._for_unrolled(s, depth, top, where)
        if self.spec.effect_loops and self.spec.monadic and not self.lam:
            if _find_else_loop(s):
                return self._for_find_else(s, depth, where)
            n0, saved = len(self.lines), (dict(self.locals), dict(self.inline), set(self.logseen), self.ntmp)
            try:
                return self._for_pure(s, depth, top, where)
            except Unsupported as first:
                del self.lines[n0:]
                self.locals, self.inline, self.logseen, self.ntmp = saved
                try:
                    return self._for_effect(s, depth, where)
                except Unsupported as e:
                    raise Unsupported(f"{first}; as a loop with effects: {e}")
        return self._for_pure(s, depth, top, where)

    def _loop_source(self, s, where):
        if not isinstance(s.target, ast.Name) or s.target.id not in self.loopvars \
                or any(s.target.id in sc for sc in self.scopes):
            raise Unsupported(f"{where}: loop target `{ast.unparse(s.target)}` (a name that is bound by this loop only)")
        src, ts = self.expr(s.iter)
        et = elem_type(ts)
        if et is None:
            raise Unsupported(f"{where}: loop over a {ts} (lists only)")
        v = lean_ident(s.target.id)
        return src, v, {s.target.id: (v, et)}

    def _for_find_else(self, s, depth, where):
        """for x in L: if c: <statements>; break        match (L.find? (fun x => c)) with
           else: <statements>                      ->   | some x => <statements>  | none => <statements>"""
        src, v, scope = self._loop_source(s, where)
        test = s.body[0]
        c = self._under(scope, lambda: self.cond(test.test, False))
        self.emit(depth, f"match ({src}.find? (fun {v} => {c})) with")
        self.emit(depth, f"| some {v} =>")
        self.scopes.append(scope)
        try:
            self.block(test.body[:-1], depth + 1)
        finally:
            self.scopes.pop()
        self.emit(depth, "| none =>")
        self.block(s.orelse, depth + 1)
        return False

    def _for_effect(self, s, depth, where):
        """for x in L: <statements with effects>   ->   L.forM fun x => do <statements>   (`continue` = `return ()`)"""
        if s.orelse:
            raise Unsupported(f"{where}: `else` of a loop with effects")
        for n in _own_loop_nodes(s.body):
            if isinstance(n, (ast.Break, ast.Return)):
                raise Unsupported(f"{where}: `{type(n).__name__.lower()}` inside a loop with effects")
        src, v, scope = self._loop_source(s, where)
        self.emit(depth, f"{src}.forM fun {v} => do")
        self.scopes.append(scope)
        self.effect_depth = getattr(self, "effect_depth", 0) + 1
        try:
            self.block(s.body, depth + 1)
        finally:
            self.effect_depth -= 1
            self.scopes.pop()
        return False

    def _for_pure(self, s, depth, top, where):
        # leading guards  `if c: continue`  (the first statements of the body): the loop runs over the elements that
        # pass none of them, i.e. over the filtered list; any other `continue` is refused
        body = list(s.body)
        guards = []
        while len(body) > 1 and isinstance(body[0], ast.If) and not body[0].orelse and len(body[0].body) == 1 \
                and isinstance(body[0].body[0], ast.Continue):
            guards.append(body.pop(0).test)
        if any(isinstance(n, ast.Continue) for b in body + s.orelse for n in ast.walk(b)) \
                or any(isinstance(n, ast.Continue) for t in guards for n in ast.walk(t)):
            raise Unsupported(f"{where}: `continue` (only as the whole body of leading `if c: continue` guards)")
        if not isinstance(s.target, ast.Name) or s.target.id not in self.loopvars:
            raise Unsupported(f"{where}: loop target `{ast.unparse(s.target)}` (a name that is bound by this loop only)")
        src, ts = self.expr(s.iter)
        et = elem_type(ts)
        if et is None:
            raise Unsupported(f"{where}: loop over a {ts} (lists only)")
        v = lean_ident(s.target.id)
        scope = {s.target.id: (v, et)}
        if guards:
            conds = self._under(scope, lambda: [self.cond(t, False) for t in guards])
            src = f"({src}.filter (fun {v} => {' && '.join('(!' + c + ')' for c in conds)}))"
        # leading loop-local bindings  `y = <pure expression>`  (each name assigned here only and unknown outside)
        lets = []
        all_names_outside = {x.id for x in ast.walk(self.fn) if isinstance(x, ast.Name)
                             and not any(x is y for y in ast.walk(s))}
        self.scopes.append(scope)
        self.lam += 1
        try:
            def dropped(st):
                # a statement pinned to the empty action: its meaning is inside an atom of this spec (it prepares an
                # argument of a call the atom stands for)
                return self.spec.stmts.get(dump_stmts([st])) == ""
            while body and len(body) > 1 and (dropped(body[0]) or (
                    isinstance(body[0], ast.Assign) and len(body[0].targets) == 1
                    and isinstance(body[0].targets[0], ast.Name) and self.assigned.get(body[0].targets[0].id) == 1
                    and body[0].targets[0].id not in all_names_outside)):
                if dropped(body[0]):
                    self.uses["stmts"].add(dump_stmts([body[0]]))
                    body.pop(0)
                    continue
                name, val = body[0].targets[0].id, body[0].value
                if name in self.logonly and _harmless(val) and self._bound(val):
                    self.logseen.add(name)
                    body.pop(0)
                    continue
                try:
                    t, ty = self.expr(val, False)
                    scope[name] = (lean_ident(name), ty)
                    lets.append(f"let {lean_ident(name)} : {lean_type(ty)} := {t}; ")
                except Unsupported:
                    if not _opaque_ok(val):
                        raise
                    self.inline[name] = self._subst(val)
                body.pop(0)
            pre = "".join(lets)
            kind = self._loop_kind(s, body)
            if kind == "find":
                test = body[0]
                c = self.cond(test.test, False)
                self.lam -= 1                              # the match arm is a `do` sequence again
                try:
                    arm_lets = [l[:-2] for l in lets]
                    self.emit(depth, f"match ({src}.find? (fun {v} => {pre}{c})) with")
                    self.emit(depth, f"| some {v} =>")
                    for l in arm_lets:
                        self.emit(depth + 1, l)
                    r = test.body[0]
                    t, ty = self.expr(r.value) if r.value is not None else ("()", "unit")
                    if ty != self.spec.ret:
                        raise Unsupported(f"{where}: returns a {ty}, the spec says {self.spec.ret}")
                    self.emit(depth + 1, f"return {t}")
                    self.emit(depth, "| none => pure ()")
                finally:
                    self.lam += 1
                return False
            if kind == "findtree":
                # for x in L: <tree of `if`s whose leaves are `return e` or nothing>  ->  the value returned for the
                # first element that reaches a `return` (List.findSome?); the loop falls through when there is none
                def tree(stmts):
                    stmts = [b for b in stmts if not self._is_ignored_call(b)]
                    if not stmts:
                        return "none"
                    if isinstance(stmts[0], ast.Return):
                        t, ty = self.expr(stmts[0].value, False)
                        if ty != self.spec.ret:
                            raise Unsupported(f"{where}: returns a {ty}, the spec says {self.spec.ret}")
                        return f"(some {t})"
                    return f"(if {self.cond(stmts[0].test, False)} then {tree(stmts[0].body)} else {tree(stmts[0].orelse)})"
                self.emit(depth, f"match ({src}.findSome? (fun {v} => {pre}{tree(body)})) with")
                self.emit(depth, "| some pyRet => return pyRet")
                self.emit(depth, "| none => pure ()")
                return False
            if kind == "any":
                flag = body[0].targets[0].id

                def boolean(e):                            # the flag must BE a Boolean (Python keeps the operand's value)
                    t, ty = self.expr(e, False)
                    if ty != "bool":
                        raise Unsupported(f"{where}: the flag {flag!r} is assigned a {ty} (`{ast.unparse(e)[:60]}`)")
                    return t
                parts = [boolean(body[0].value)]
                for b in body[1:-1]:
                    if isinstance(b, ast.AugAssign):
                        parts.append(boolean(b.value))
                    else:                                  # flag = flag or e
                        parts.append(boolean(b.value.values[1]))
                text = f"({src}.any (fun {v} => {pre}({' || '.join(parts)})))"
                self.lam -= 1
                try:
                    self._store(flag, text, "bool", depth, top, where)
                finally:
                    self.lam += 1
                return False
            # fold over one accumulator
            acc = kind
            a = lean_ident(acc)
            step = self._fold_seq(body, acc, where)
            self.emit(depth, f"{a} := {src}.foldl (fun {a} {v} => {pre}{step}) {a}")
            return False
        finally:
            self.lam -= 1
            self.scopes.pop()

    def _loop_kind(self, s, body):
        """which of the three loop shapes `body` has: "find" | "any" | <name of the accumulator>"""
        where = f"{self.fn.name}:{s.lineno}"
        # (1)  for x in L: [lets]; if c: return e
        if len(body) == 1 and isinstance(body[0], ast.If) and not body[0].orelse and len(body[0].body) == 1 \
                and isinstance(body[0].body[0], ast.Return) and not s.orelse:
            return "find"
        # (1b) for x in L: [lets]; a tree of `if / elif / else` whose leaves are `[log calls]; return e` or nothing
        if len(body) == 1 and isinstance(body[0], ast.If) and not s.orelse and self._return_tree(body) \
                and any(isinstance(n, ast.Return) for n in ast.walk(body[0])):
            return "findtree"
        # (2)  for x in L: [lets]; v = e; (v |= e | v = v or e)*; if v: break      else: v = False
        if len(body) >= 2 and isinstance(body[0], ast.Assign) and len(body[0].targets) == 1 \
                and isinstance(body[0].targets[0], ast.Name) and isinstance(body[-1], ast.If):
            flag = body[0].targets[0].id
            last = body[-1]
            ok = isinstance(last.test, ast.Name) and last.test.id == flag and not last.orelse and len(last.body) == 1 \
                and isinstance(last.body[0], ast.Break) and len(s.orelse) == 1 and isinstance(s.orelse[0], ast.Assign) \
                and len(s.orelse[0].targets) == 1 and isinstance(s.orelse[0].targets[0], ast.Name) \
                and s.orelse[0].targets[0].id == flag and isinstance(s.orelse[0].value, ast.Constant) \
                and s.orelse[0].value.value is False
            for b in body[1:-1]:
                ok = ok and ((isinstance(b, ast.AugAssign) and isinstance(b.target, ast.Name) and b.target.id == flag
                              and isinstance(b.op, ast.BitOr))
                             or (isinstance(b, ast.Assign) and len(b.targets) == 1 and isinstance(b.targets[0], ast.Name)
                                 and b.targets[0].id == flag and isinstance(b.value, ast.BoolOp)
                                 and isinstance(b.value.op, ast.Or) and len(b.value.values) == 2
                                 and isinstance(b.value.values[0], ast.Name) and b.value.values[0].id == flag))
            mentions = [x for b in body[:-1] for x in ast.walk(b.value) if isinstance(x, ast.Name) and x.id == flag]
            allowed = sum(1 for b in body[1:-1] if isinstance(b, ast.Assign))
            if ok and len(mentions) == allowed and self.assigned.get(flag) == len(body) - 1 + 1:
                return "any"
        # (3)  for x in L: [lets]; statements that update ONE declared local
        inner_breaks = {id(n.body[0].body[-1]) for b in body for n in ast.walk(b) if _first_match_loop(n)}
        if s.orelse or any(isinstance(n, (ast.Return, ast.Raise)) or (isinstance(n, ast.Break) and id(n) not in inner_breaks)
                           for b in body for n in ast.walk(b)):
            raise Unsupported(f"{where}: this loop shape is outside the subset (accepted: `if c: return e` search loops, "
                              "flag loops with `break` and `else: flag = False`, accumulations without break/return)")
        accs = set()
        for b in body:
            for n in ast.walk(b):
                if isinstance(n, ast.Name) and isinstance(n.ctx, ast.Store) \
                        and not (n.id in self.loopvars and any(isinstance(f, (ast.For, ast.comprehension)) and f.target is n
                                                               for bb in body for f in ast.walk(bb))):
                    accs.add(n.id)                          # (the target of a nested loop / comprehension is no accumulator)
                if isinstance(n, ast.Expr) and isinstance(n.value, ast.Call) and isinstance(n.value.func, ast.Attribute) \
                        and n.value.func.attr in ("append", "add") and isinstance(n.value.func.value, ast.Name):
                    accs.add(n.value.func.value.id)
        if len(accs) != 1 or list(accs)[0] not in self.locals:
            raise Unsupported(f"{where}: the loop body updates {sorted(accs)}; exactly one local declared before the "
                              "loop may be updated")
        return list(accs)[0]

    def _return_tree(self, stmts):
        """`stmts` = declared log calls, then nothing | `return e` | one `if` whose branches are of this kind again"""
        stmts = [b for b in stmts if not self._is_ignored_call(b)]
        if not stmts:
            return True
        if len(stmts) != 1:
            return False
        if isinstance(stmts[0], ast.Return):
            return stmts[0].value is not None
        return isinstance(stmts[0], ast.If) and self._return_tree(stmts[0].body) and self._return_tree(stmts[0].orelse)

    def _fold_seq(self, stmts, acc, where):
        """the value of the accumulator after `stmts`, as a Lean expression in which `acc` is its value before"""
        a, ta = lean_ident(acc), self.locals[acc]
        steps = []
        for b in stmts:
            w = f"{self.fn.name}:{b.lineno}"
            if isinstance(b, ast.Pass) or self._is_ignored_call(b):
                continue
            if isinstance(b, ast.AugAssign) and isinstance(b.target, ast.Name) and b.target.id == acc:
                t, ty = self.expr(b.value, False)
                steps.append(self._aug(a, ta, b.op, t, ty, w))
            elif isinstance(b, ast.Assign) and len(b.targets) == 1 and isinstance(b.targets[0], ast.Name) \
                    and b.targets[0].id == acc:
                t, ty = self.expr(b.value, False)
                if ta == ("opt", ty):
                    t = f"(some {t})"
                elif ty != ta:
                    raise Unsupported(f"{w}: {acc!r} changes its type from {ta} to {ty}")
                steps.append(t)
            elif isinstance(b, ast.Expr) and isinstance(b.value, ast.Call) and isinstance(b.value.func, ast.Attribute) \
                    and b.value.func.attr == "append" and isinstance(b.value.func.value, ast.Name) \
                    and b.value.func.value.id == acc and len(b.value.args) == 1 and not b.value.keywords:
                t, ty = self.expr(b.value.args[0], False)
                if elem_type(ta) != ty:
                    raise Unsupported(f"{w}: a {ty} appended to a {ta}")
                steps.append(f"({a} ++ [{t}])")
            elif isinstance(b, ast.If) and self._none_test(b.test) is not None:
                # `if x is None: … else: …`: the branch on which x holds a value reads the payload
                name, is_none, ty = self._none_test(b.test)
                vstmts, nstmts = (b.orelse, b.body) if is_none else (b.body, b.orelse)
                tv = self._narrowed(name, ty, lambda: self._fold_seq(vstmts, acc, where)) if vstmts else a
                tn = self._fold_seq(nstmts, acc, where) if nstmts else a
                steps.append(f"(match {lean_ident(name)} with | none => {tn} | some pyVal_{name} => {tv})")
            elif isinstance(b, ast.Expr) and isinstance(b.value, ast.Call) and isinstance(b.value.func, ast.Attribute) \
                    and b.value.func.attr == "add" and isinstance(b.value.func.value, ast.Name) \
                    and b.value.func.value.id == acc and len(b.value.args) == 1 and not b.value.keywords and ta == "sset":
                t, ty = self.expr(b.value.args[0], False)
                if ty != "str":
                    raise Unsupported(f"{w}: a {ty} added to a set of strings")
                steps.append(f"({a} ++ [{t}])")
            elif isinstance(b, ast.If):
                c = self.cond(b.test, False)
                steps.append(f"(if {c} then {self._fold_seq(b.body, acc, where)} else "
                             f"{self._fold_seq(b.orelse, acc, where) if b.orelse else a})")
            elif _first_match_loop(b):
                # for y in L: if c: <updates>; break     -> the updates for the first y with c, nothing when there is none
                if not isinstance(b.target, ast.Name) or b.target.id not in self.loopvars:
                    raise Unsupported(f"{w}: loop target `{ast.unparse(b.target)}`")
                src, ts = self.expr(b.iter, False)
                et = elem_type(ts)
                if et is None:
                    raise Unsupported(f"{w}: loop over a {ts} (lists only)")
                y = lean_ident(b.target.id)
                test = b.body[0]
                hit = self._under({b.target.id: (y, et)},
                                  lambda: (self.cond(test.test, False), self._fold_seq(test.body[:-1], acc, where)))
                steps.append(f"(match ({src}.find? (fun {y} => {hit[0]})) with | some {y} => {hit[1]} | none => {a})")
            elif isinstance(b, ast.For):
                # a nested loop that updates the same accumulator: an inner fold that starts from its current value
                if b.orelse or not isinstance(b.target, ast.Name) or b.target.id not in self.loopvars \
                        or any(b.target.id in sc for sc in self.scopes):
                    raise Unsupported(f"{w}: nested loop `for {ast.unparse(b.target)} in …` (a plain name bound by this "
                                      "loop only, no else)")
                src, ts = self.expr(b.iter, False)
                et = elem_type(ts)
                if et is None:
                    raise Unsupported(f"{w}: nested loop over a {ts} (lists only)")
                v = lean_ident(b.target.id)
                inner = self._under({b.target.id: (v, et)}, lambda: self._fold_seq(b.body, acc, where))
                steps.append(f"({src}.foldl (fun {a} {v} => {inner}) {a})")
            else:
                raise Unsupported(f"{w}: statement `{ast.unparse(b)[:60]}` in an accumulating loop")
        if not steps:
            return a
        if len(steps) == 1:
            return steps[0]
        return "(" + "".join(f"let {a} : {lean_type(ta)} := {e}; " for e in steps) + a + ")"

    def _for_unrolled(self, s, depth, top, where):
        """`for a, b in [(e1, e2), …]:` over a literal list: the body once per element, the targets replaced by the
        element's expressions (which the body must not assign)"""
        import copy
        if s.orelse or any(isinstance(n, (ast.Break, ast.Continue)) for n in ast.walk(s)):
            raise Unsupported(f"{where}: break / continue / else in a loop over a literal list")
        tgts = [s.target] if isinstance(s.target, ast.Name) else list(s.target.elts) if isinstance(s.target, ast.Tuple) else None
        if tgts is None or not all(isinstance(t, ast.Name) and t.id in self.loopvars for t in tgts):
            raise Unsupported(f"{where}: loop target `{ast.unparse(s.target)}`")
        names = [t.id for t in tgts]
        outside = [x for x in ast.walk(self.fn) if isinstance(x, ast.Name) and x.id in names]
        inside = {id(x) for x in ast.walk(s)}
        if any(id(x) not in inside for x in outside):
            raise Unsupported(f"{where}: the loop variables {names} are used after the loop")
        stored = {x.id for b in s.body for x in ast.walk(b) if isinstance(x, ast.Name) and isinstance(x.ctx, ast.Store)}
        done = False
        for el in s.iter.elts:
            vals = [el] if isinstance(s.target, ast.Name) else list(el.elts) if isinstance(el, ast.Tuple) else None
            if vals is None or len(vals) != len(names):
                raise Unsupported(f"{where}: element `{ast.unparse(el)}` does not match the loop target")
            for v in vals:
                if not isinstance(v, (ast.Name, ast.Constant)):
                    raise Unsupported(f"{where}: element `{ast.unparse(v)}` (names and constants only)")
                if isinstance(v, ast.Name) and v.id in stored:
                    raise Unsupported(f"{where}: the loop body assigns {v.id!r}, which the loop runs over")
            env = dict(zip(names, vals))

            class T(ast.NodeTransformer):
                def visit_Name(self, n):
                    if n.id in env:
                        if not isinstance(n.ctx, ast.Load):
                            raise Unsupported(f"{where}: assignment to the loop variable {n.id!r}")
                        return copy.deepcopy(env[n.id])
                    return n

                def visit_FormattedValue(self, n):
                    self.generic_visit(n)
                    return n
            for b in s.body:
                if done:
                    raise Unsupported(f"{self.fn.name}:{b.lineno}: statement after a return")
                b2 = ast.fix_missing_locations(T().visit(copy.deepcopy(b)))
                done = self.stmt(b2, depth, top)
        return done


def _own_loop_nodes(stmts):
    """the `break` / `continue` statements that belong to the loop whose body is `stmts`, and every `return` in it"""
    out = []

    def walk(nodes, own):
        for n in nodes:
            if isinstance(n, ast.Return) or (own and isinstance(n, (ast.Break, ast.Continue))):
                out.append(n)
            elif isinstance(n, (ast.For, ast.While)):
                walk(n.body, False)
                walk(n.orelse, own)
            elif isinstance(n, ast.stmt):
                for field in ("body", "orelse", "finalbody"):
                    walk(getattr(n, field, []) or [], own)
                for h in getattr(n, "handlers", []) or []:
                    walk(h.body, own)
    walk(stmts, True)
    return out


def _find_else_loop(n):
    """`for x in L: if c: <statements>; break` with an `else:` branch of the loop: a search whose failure is handled"""
    if not (isinstance(n, ast.For) and n.orelse and len(n.body) == 1 and isinstance(n.body[0], ast.If)
            and not n.body[0].orelse and n.body[0].body and isinstance(n.body[0].body[-1], ast.Break)):
        return False
    inner = n.body[0].body[:-1]
    return not any(isinstance(x, (ast.Break, ast.Continue, ast.Return, ast.For, ast.While))
                   for st in inner for x in ast.walk(st)) \
        and not any(isinstance(x, (ast.Break, ast.Continue)) for x in _own_loop_nodes(n.orelse))


def _first_match_loop(n):
    """`for y in L: if c: <statements>; break` (no else branches): acts on the first element with `c`"""
    return isinstance(n, ast.For) and not n.orelse and len(n.body) == 1 and isinstance(n.body[0], ast.If) \
        and not n.body[0].orelse and len(n.body[0].body) >= 2 and isinstance(n.body[0].body[-1], ast.Break) \
        and not any(isinstance(x, (ast.Break, ast.Continue, ast.Return, ast.Raise, ast.For))
                    for st in n.body[0].body[:-1] for x in ast.walk(st))


def _dotted(node):
    """`a.b.c` for a Name / Attribute chain, else None"""
    parts = []
    while isinstance(node, ast.Attribute):
        parts.append(node.attr)
        node = node.value
    if isinstance(node, ast.Name):
        return ".".join([node.id] + parts[::-1])
    return None


HARMLESS_FUNCS = {"os.path.dirname", "str", "len"}


def _harmless(node):
    """an expression that only builds a message: names, attributes, constants, f-strings, conditional expressions,
    `"sep".join(name)` and a few pure library calls"""
    for n in ast.walk(node):
        if isinstance(n, (ast.Constant, ast.JoinedStr, ast.FormattedValue, ast.Name, ast.Attribute, ast.Load, ast.IfExp)):
            continue
        if isinstance(n, ast.Call) and not n.keywords:
            f = n.func
            if isinstance(f, ast.Attribute) and f.attr == "join" and isinstance(f.value, ast.Constant) \
                    and isinstance(f.value.value, str) and len(n.args) == 1:
                continue
            if _dotted(f) in HARMLESS_FUNCS:
                continue
        return False
    return True


def _terminates(stmts):
    if not stmts:
        return False
    s = stmts[-1]
    if isinstance(s, (ast.Return, ast.Raise)):
        return True
    if isinstance(s, ast.If):
        return bool(s.orelse) and _terminates(s.body) and _terminates(s.orelse)
    if isinstance(s, ast.With):
        return _terminates(s.body)
    return False


def _opaque_ok(node):
    """an opaque right-hand side may only consist of names, attributes, constant subscripts and method calls on them
    (and a conditional expression choosing between such)"""
    for n in ast.walk(node):
        if not isinstance(n, (ast.Name, ast.Attribute, ast.Subscript, ast.Call, ast.Constant, ast.Load, ast.IfExp)):
            return False
    return True


def translate(fn, spec, consts=None):
    """Lean source of one definition (a list of lines) for the FunctionDef `fn`"""
    tr = _Fn(fn, spec, consts or {})
    done = tr.block(fn.body, 0, top=True)
    if not done:
        if spec.ret != "unit":
            raise Unsupported(f"{fn.name}: a path reaches the end of the function without a return (Python returns None)")
        tr.emit(0, "return ()")
    unused = sorted(set(range(len(spec.blocks))) - tr.uses["blocks"])
    if unused:
        raise Unsupported(f"{fn.name}: pinned block(s) {unused} do not occur as branch bodies any more")
    unused = sorted(set(range(len(spec.assign_blocks))) - tr.uses["assign_blocks"])
    if unused:
        raise Unsupported(f"{fn.name}: pinned assigning block(s) {unused} do not occur as branch bodies any more")
    if set(spec.stmts) - tr.uses["stmts"]:
        raise Unsupported(f"{fn.name}: {len(set(spec.stmts) - tr.uses['stmts'])} pinned statement(s) do not occur any more")
    unused = sorted(set(range(len(spec.raises))) - tr.uses["raises"])
    if unused:
        raise Unsupported(f"{fn.name}: declared exception(s) {[spec.raises[i][:2] for i in unused]} are not raised any more")
    binders = " ".join(f"({lean_ident(n) if n.isidentifier() else n} : {t})" for n, t in spec.binders)
    rett = lean_type(spec.ret)
    if spec.monad == "except":
        head = f"def {spec.lean_name} {binders} : Except Err ({rett}) := do"
    elif spec.monad == "pure":
        head = f"def {spec.lean_name} {binders} : {rett} := Id.run do"
    else:
        head = f"def {spec.lean_name} {binders} : {spec.monad} ({rett}) := do"
    import copy
    shown = copy.deepcopy(fn)
    if shown.body and isinstance(shown.body[0], ast.Expr) and isinstance(shown.body[0].value, ast.Constant) \
            and isinstance(shown.body[0].value.value, str) and len(shown.body) > 1:
        shown.body = shown.body[1:]                      # the docstring is not part of the meaning
    src = ast.unparse(shown).replace("-/", "- /").replace("/-", "/ -")
    out = list(spec.prelude)
    if spec.prelude:
        out.append("")
    if spec.doc:
        out.append("/-- " + spec.doc.replace("-/", "- /") + " -/")
    out.append(head)
    out += tr.lines
    out.append("")
    out.append("/- the Python it was generated from (comments and docstring dropped):")
    out += ["   " + l for l in src.splitlines()]
    out.append("-/")
    return out


def generate(path, qualname, spec):
    """parse `path`, find `qualname`, translate"""
    tree = ast.parse(open(path).read(), filename=path)
    return translate(find_function(tree, qualname), spec, module_constants(tree))


def render_file(header, imports, namespace, opens, defs):
    out = ["/- GENERATED on every run by " + header + " — do not edit.",
           "   Translator: harness/pygen.py (Python AST -> Lean `do` block, fails closed).  The equality with the hand",
           "   written model is proved in the Props file that imports this module. -/"]
    out += [f"import {i}" for i in imports]
    out.append(f"namespace {namespace}")
    out += [f"open {o}" for o in opens]
    out.append("")
    for d in defs:
        out += d
        out.append("")
    out.append(f"end {namespace}")
    return "\n".join(out) + "\n"


def write_if_changed(path, text):
    os.makedirs(os.path.dirname(path), exist_ok=True)
    old = open(path).read() if os.path.exists(path) else None
    if old != text:
        with open(path, "w") as fh:
            fh.write(text)
    return old is not None and old != text


# ---------------------------------------------------------------------------------------------------------------------
# the uses (one function per generated file; the property modules call these from `extract(ctx)`)

def _src(env, default_rel):
    """source file: /repo's, or the file named by the environment variable (mutation sanity runs only)"""
    import vlib
    return os.environ.get(env) or os.path.join(vlib.REPO, default_rel)


def _lean_path(name):
    import vlib
    return os.path.join(vlib.LEAN, "I2N", "Extracted", name)


TUNNEL_SPEC = Spec(
    "genPeerVariant",
    binders=[("left_local", "SDict"), ("left_remote", "SDict"), ("left_peer", "SDict")],
    params={"left_local": ("left_local", "sdict"), "left_remote": ("left_remote", "sdict"),
            "left_peer": ("left_peer", "sdict")},
    ret=("tuple", ("sdict", "sdict", "sdict")), monad="except",
    doc="`VMTunnel._get_peer_variant` of avocado_i2n/vmnet/tunnel.py, translated statement by statement")


def tunnel_source(path=None):
    path = path or _src("PYGEN_TUNNEL_SRC", "avocado_i2n/vmnet/tunnel.py")
    d = generate(path, "VMTunnel._get_peer_variant", TUNNEL_SPEC)
    return render_file("harness/pygen.py:extract_tunnel (called by harness/props/c19.py:extract) from "
                       "avocado_i2n/vmnet/tunnel.py", ["I2N.Model.Tunnel"], "I2N.Extracted.GenTunnel", ["I2N.Tunnel"], [d])


def extract_tunnel(ctx=None):
    return write_if_changed(_lean_path("GenTunnel.lean"), tunnel_source())


def _scope_spec(which):
    """`TestNode.is_started` / `is_finished`: the selection among the three ways of counting is translated, the three
    bodies are pinned verbatim and stand for the Boolean they return (`own_val`, `swarm_val`, `global_val`)"""
    w = f"shared_{which}_workers"
    own = f"return worker in self.{w}\n"
    swarm = (f"own_cluster = worker.swarm_id\n"
             f"own_cluster_{which}_hosts = {{w for w in self.{w} if w.swarm_id == own_cluster}}\n"
             f"if threshold == -1:\n"
             f"    own_cluster_all_hosts = self.shared_involved_workers & {{*TestSwarm.run_swarms[own_cluster].workers}}\n"
             f"    return own_cluster_{which}_hosts == own_cluster_all_hosts\n"
             f"return len(own_cluster_{which}_hosts) >= threshold\n")
    glob = (f"if threshold == -1:\n"
            f"    return self.{w} == self.shared_involved_workers\n"
            f"return len(self.{w}) >= threshold\n")
    return Spec(
        "genIs" + which.capitalize(),
        binders=[("flat", "Bool"), ("worker", "Bool"), ("nets_spawner", "Option String"), ("swarm_in_scope", "Bool"),
                 ("cluster_in_scope", "Bool"), ("own_val", "Bool"), ("swarm_val", "Bool"), ("global_val", "Bool")],
        params={"worker": ("worker", "bool"), "threshold": None},
        atoms={"self.is_flat()": ("flat", "bool"),
               "self.params.get('nets_spawner')": ("nets_spawner", "optstr"),
               "'swarm' in self.params['pool_scope']": ("swarm_in_scope", "bool"),
               "'cluster' in self.params['pool_scope']": ("cluster_in_scope", "bool")},
        blocks=[(own, "own_val", "bool"), (swarm, "swarm_val", "bool"), (glob, "global_val", "bool")],
        ret="bool", monad="pure",
        doc=f"`TestNode.is_{which}` of avocado_i2n/cartgraph/node.py: the selection of the scope of counting; "
            f"`worker` = a worker was given, `own_val` / `swarm_val` / `global_val` = the value of the pinned bodies")


HARNESS_SHAPE_SPEC = Spec(
    "genShapeOf",
    binders=[("nets_spawner", "Option String"), ("swarm_in_scope", "Bool"), ("cluster_in_scope", "Bool")],
    params={"params": None},
    atoms={"params.get('nets_spawner')": ("nets_spawner", "optstr"),
           "'swarm' in params.get('pool_scope', '')": ("swarm_in_scope", "bool"),
           "'cluster' in params.get('pool_scope', '')": ("cluster_in_scope", "bool")},
    ret="str", monad="pure",
    doc="`shape_of` of harness/travlib.py: the `shape=` field of the static node lines the harness exports to drv_trav")


OCCUPIED_SPEC = Spec(
    "genIsOccupied",
    binders=[("mct", "Option Int"), ("maxTries", "Option Int"), ("started", "Int → Bool")],
    params={"worker": None}, ret="bool", monad="pure",
    calls={"self.params.get_numeric('max_concurrent_tries', _1)": ("(mct.getD {1})", "int", "pure", ["int"]),
           "self.params.get_numeric('max_tries', _1)": ("(maxTries.getD {1})", "int", "pure", ["int"]),
           "self.is_started(_1, _2)": ("(started {2})", "bool", "pure", ["_", "int"])},
    doc="`TestNode.is_occupied` of avocado_i2n/cartgraph/node.py: the threshold computation.  `mct` / `maxTries` = the "
        "integer value of the parameters `max_concurrent_tries` / `max_tries` of this copy (none = not set), "
        "`started t` = `self.is_started(worker, t)`")


def scope_source(node_path=None, travlib_path=None):
    node_path = node_path or _src("PYGEN_NODE_SRC", "avocado_i2n/cartgraph/node.py")
    travlib_path = travlib_path or os.environ.get("PYGEN_TRAVLIB_SRC") or \
        os.path.join(os.path.dirname(os.path.abspath(__file__)), "travlib.py")
    defs = [generate(node_path, "TestNode.is_started", _scope_spec("started")),
            generate(node_path, "TestNode.is_finished", _scope_spec("finished")),
            generate(travlib_path, "shape_of", HARNESS_SHAPE_SPEC),
            generate(node_path, "TestNode.is_occupied", OCCUPIED_SPEC)]
    return render_file("harness/pygen.py:extract_scope (called by harness/props/c04.py:extract) from "
                       "avocado_i2n/cartgraph/node.py and harness/travlib.py", [], "I2N.Extracted.GenScope", [], defs)


def extract_scope(ctx=None):
    return write_if_changed(_lean_path("GenScope.lean"), scope_source())


POOL_SPEC = Spec(
    "genSourceScope",
    binders=[("e", "Env"), ("s", "Src")],
    params={"source_path": ("s.path", "str"), "source_params": None, "own_params": None},
    atoms={"own_params['nets_gateway']": ("e.gateway", "str"),
           "source_params['nets_gateway']": ("(e.srcGateway s)", "str"),
           "own_params['nets_host']": ("e.host", "str"),
           "source_params['nets_host']": ("(e.srcHost s)", "str"),
           "own_params['shared_pool'].lstrip(':')": ("(lstripColon e.sharedPool)", "str"),
           "own_params['swarm_pool']": ("e.swarmPool", "str")},
    ret="str", monad="pure",
    doc="`SourcedStateBackend.get_source_scope` of avocado_i2n/states/pool.py, translated branch by branch")


_SOURCE_PARAMS = "(params.object_params(source.split(':')[0]) if source.split(':')[0] else params)"

PROXIMITY_SPEC = Spec(
    "genProximity",
    binders=[("e", "Env"), ("s", "Src")],
    params={"source": None}, ret="int", monad="pure",
    atoms={"params['nets_gateway']": ("e.gateway", "str"),
           _SOURCE_PARAMS + "['nets_gateway']": ("(e.srcGateway s)", "str"),
           "params['nets_host']": ("e.host", "str"),
           _SOURCE_PARAMS + "['nets_host']": ("(e.srcHost s)", "str"),
           "params['swarm_pool']": ("e.swarmPool", "str"),
           "source.split(':')[1]": ("s.path", "str")},
    doc="`proximity`, the sort key inside `SourcedStateBackend.get_sources` of avocado_i2n/states/pool.py (`source` = "
        "`s.net + ':' + s.path`; `source_params` = the parameters of the source's net, or the own ones)")


def pool_source(path=None):
    path = path or _src("PYGEN_POOL_SRC", "avocado_i2n/states/pool.py")
    defs = [generate(path, "SourcedStateBackend.get_source_scope", POOL_SPEC),
            generate(path, "SourcedStateBackend.get_sources.proximity", PROXIMITY_SPEC)]
    return render_file("harness/pygen.py:extract_pool (called by harness/props/c13.py:extract) from "
                       "avocado_i2n/states/pool.py", ["I2N.Model.Pool"], "I2N.Extracted.GenPool", ["I2N.Pool"], defs)


def extract_pool(ctx=None):
    return write_if_changed(_lean_path("GenPool.lean"), pool_source())



# ---- TestNode.should_rerun / shared_filtered_results (C10) ---------------------------------------------------------------

RULES_PRELUDE = [
    "/-- `params.get_numeric(key, default)` = `int(params.get(key, default))` for an integer default; a value that `int()`",
    "rejects is Python's ValueError -/",
    "def getNumeric (o : Option String) (dflt : Int) : Except Err Int :=",
    "  match o with",
    "  | none => pure dflt",
    "  | some s => match parseInt s with",
    "    | some m => pure m",
    "    | none => throw Err.badTries",
    "",
    "/-- `worker.id` / `self.started_worker.swarm_id` … where Python evaluates them (behind `worker and …`) -/",
    "def idOf (w : Option Worker) : String := (w.map (·.id)).getD \"\"",
    "def swarmOf (w : Option Worker) : String := (w.map (·.swarmId)).getD \"\"",
]

RERUN_ELSE_BLOCK = (
    "old_started_worker = self.started_worker\n"
    "self.started_worker = old_started_worker or worker\n"
    "test_statuses = [r[\"status\"].lower() for r in self.shared_filtered_results]\n"
    "self.started_worker = old_started_worker\n")

RERUN_SPEC = Spec(
    "genShouldRerun",
    binders=[("c", "Cfg"), ("w", "Option Worker"), ("shared", "List Result")],
    params={"worker": ("w.isSome", "bool")},
    ret="bool", monad="except",
    atoms={
        "self.params.get('dry_run', 'no')": ("(c.dryRun.getD \"no\")", "str"),
        "self.is_flat()": ("c.flat", "bool"),
        "len(self.cloned_nodes) > 0": ("c.cloneSource", "bool"),
        "worker.id": ("(idOf w)", "str"),
        "self.params['name']": ("c.name", "str"),
        "self.params.get('replay')": ("(truthy c.replay)", "bool"),
        "self.params.get_list('rerun_status', 'fail,error,warn', delimiter=',')":
            ("(getListChar ',' \"fail,error,warn\" c.rerunStatus)", "slist"),
        "self.params.get_list('rerun_status', [])": ("(getListWs c.rerunStatus)", "slist"),
        "self.params.get_list('stop_status', [])": ("(getListWs c.stopStatus)", "slist"),
        "len(self.get_stateful_objects()) == 0": ("(!c.stateful)", "bool"),
        "self.shared_results": ("shared", ("list", "Result")),
    },
    calls={"self.params.get_numeric('max_tries', _1)": ("getNumeric c.maxTries {1}", "int", "raises", ["int"])},
    fields={("Result", "['status']"): ("{0}.status", "str")},
    assign_blocks=[(RERUN_ELSE_BLOCK, "test_statuses",
                    "((genFilteredResults c (c.startedWorker <|> w) shared).map (fun r => lower r.status))", "slist")],
    raises=[("RuntimeError", "Worker {} should not consider rerunning", "Err.runtimeError"),
            ("ValueError", "Value of rerun status must be a valid test status", "Err.badRerunStatus"),
            ("ValueError", "Value of stop status must be a valid test status", "Err.badStopStatus"),
            ("ValueError", "Number of max_tries cannot be less than zero", "Err.negativeTries")],
    ignored_calls={"logging.debug", "logging.info", "logging.warning"},
    prelude=RULES_PRELUDE,
    doc="`TestNode.should_rerun` of avocado_i2n/cartgraph/node.py, translated statement by statement (`w.isSome` = a "
        "worker was given; the body of the stateful branch is pinned verbatim and stands for the filtered statuses)")

FILTERED_SPEC = Spec(
    "genFilteredResults",
    binders=[("c", "Cfg"), ("started", "Option Worker"), ("shared", "List Result")],
    params={}, ret=("list", "Result"), monad="pure",
    atoms={
        "self.shared_results": ("shared", ("list", "Result")),
        "self.started_worker": ("started.isSome", "bool"),
        "'swarm' in self.params['pool_scope']": ("(isSubstr \"swarm\" c.poolScope)", "bool"),
        "'cluster' in self.params['pool_scope']": ("(isSubstr \"cluster\" c.poolScope)", "bool"),
        "self.params.get('nets_spawner')": ("c.netsSpawner", "optstr"),
        "self.started_worker.swarm_id": ("(swarmOf started)", "str"),
        "self.started_worker.id": ("(idOf started)", "str"),
    },
    fields={("Result", "['name']"): ("{0}.name", "str")},
    local_types={"results": ("list", "Result")},
    doc="`TestNode.shared_filtered_results` of avocado_i2n/cartgraph/node.py (`started` = `self.started_worker`)")


RUN_PRELUDE = [
    "/-- `self.should_rerun(worker)` inside `default_run_decision`: the state is whether the instance attribute",
    "`should_rerun` has been replaced by `lambda _: False` -/",
    "def rerunM (c : Cfg) (w : Worker) (shared : List Result) : StateT Bool (Except Err) Bool :=",
    "  fun disabled => if disabled then .ok (false, disabled) else (genShouldRerun c (some w) shared).map (fun b => (b, disabled))",
]

RUN_SPEC = Spec(
    "genDefaultRunDecision",
    binders=[("c", "Cfg"), ("w", "Worker"), ("shared", "List Result"), ("finished", "Bool"), ("scanRun", "Bool")],
    params={"worker": None}, ret="bool", monad="StateT Bool (Except Err)",
    atoms={
        "self.params.get('dry_run', 'no')": ("(c.dryRun.getD \"no\")", "str"),
        "self.is_flat()": ("c.flat", "bool"),
        "len(self.cloned_nodes) > 0": ("c.cloneSource", "bool"),
        "worker.id": ("w.id", "str"),
        "self.params['name']": ("c.name", "str"),
        "len(self.get_stateful_objects()) == 0": ("(!c.stateful)", "bool"),
        "len(self.shared_results) == 0": ("shared.isEmpty", "bool"),
        "len(self.shared_filtered_results) == 0": ("(genFilteredResults c c.startedWorker shared).isEmpty", "bool"),
        "self.is_finished(worker, 1)": ("finished", "bool"),
        "self.scan_states()": ("scanRun", "bool"),
        "self.should_rerun(worker)": ("rerunM c w shared", "bool", "raises"),
    },
    stmts={"self.should_rerun = lambda _: False": "set true"},
    raises=[("RuntimeError", "Worker {} should not try to run", "Err.runtimeError")],
    ignored_calls={"logging.debug", "logging.info", "logging.warning"},
    prelude=RUN_PRELUDE,
    doc="`TestNode.default_run_decision` of avocado_i2n/cartgraph/node.py.  `finished` = `self.is_finished(worker, 1)`, "
        "`scanRun` = the outcome of `self.scan_states()`; the state of the monad is whether `self.should_rerun` has been "
        "replaced by `lambda _: False`")


def rules_source(path=None):
    path = path or _src("PYGEN_NODE_SRC", "avocado_i2n/cartgraph/node.py")
    defs = [generate(path, "TestNode.shared_filtered_results", FILTERED_SPEC),
            generate(path, "TestNode.should_rerun", RERUN_SPEC),
            generate(path, "TestNode.default_run_decision", RUN_SPEC)]
    defs[0] = RULES_PRELUDE + [""] + defs[0]
    defs[1] = defs[1][len(RULES_PRELUDE) + 1:]
    return render_file("harness/pygen.py:extract_rules (called by harness/props/c10.py:extract) from "
                       "avocado_i2n/cartgraph/node.py", ["I2N.Model.Rules"], "I2N.Extracted.GenRules", ["I2N.Rules"], defs)


def extract_rules(ctx=None):
    return write_if_changed(_lean_path("GenRules.lean"), rules_source())


# ---- TransferOps: compare-then-copy decisions (C14) ------------------------------------------------------------------

TRANSFER_PRELUDE = [
    "/-- the state of the translated functions: the file system; `os` / `shutil` calls either read it or replace it -/",
    "abbrev M := StateT FS (Except Err)",
    "def readFS {α : Type} (f : FS → α) : M α := fun fs => .ok (f fs, fs)",
    "def stepFS (f : FS → Except Err FS) : M Unit := fun fs => (f fs).map (fun fs' => ((), fs'))",
    "",
    "/-- `crypto.hash_file(path, size, \"md5\")` of an existing file: what the digest depends on (md5 is assumed collision",
    "free on it, as in `I2N.Transfer.digest`); `noHash` is the `\"\"` the code uses for a missing file -/",
    "def hashFile (size : Int) (fs : FS) (p : Path) : Option Data := some (((read fs p).getD []).take size.toNat)",
    "def noHash : Option Data := none",
]

_T_PARAMS = {"cache_path": ("cache", "str"), "pool_path": ("pool", "str"), "params": None}
_T_LOGS = {"logging.info", "logging.warning", "logging.debug", "os.makedirs"}
_T_READS = {"os.path.islink(_1)": ("readFS (fun fs => islink fs {1})", "bool", "reads", ["str"]),
            "os.path.exists(_1)": ("readFS (fun fs => pexists fs {1})", "bool", "reads", ["str"])}
_T_ACTIONS = {"shutil.copy(_1, _2)": ("stepFS (fun fs => copy fs {1} {2})", "unit", "action", ["str", "str"]),
              "os.unlink(_1)": ("stepFS (fun fs => unlink fs {1})", "unit", "action", ["str"]),
              "os.symlink(_1, _2)": ("stepFS (fun fs => symlink fs {1} {2})", "unit", "action", ["str", "str"])}
_T_BINDERS = [("cache", "Path"), ("pool", "Path")]


def _transfer_specs():
    M = "M"
    compare_local = Spec(
        "genCompareLocal", [("fs", "FS")] + _T_BINDERS, _T_PARAMS, ret="bool", monad="pure",
        calls={"os.path.exists(_1)": ("(pexists fs {1})", "bool", "pure", ["str"]),
               "crypto.hash_file(_1, _2, 'md5')": ("(hashFile {2} fs {1})", "Option Data", "pure", ["str", "int"])},
        atoms={"''": ("noHash", "Option Data")},
        type_defaults={"Option Data": "none"}, prelude=TRANSFER_PRELUDE,
        doc="`TransferOps.compare_local` of avocado_i2n/states/pool.py on the file system `fs`")
    compare_link = Spec(
        "genCompareLink", [("fs", "FS")] + _T_BINDERS, _T_PARAMS, ret="bool", monad="pure",
        calls={"os.path.islink(_1)": ("(islink fs {1})", "bool", "pure", ["str"]),
               "os.path.realpath(_1)": ("(resolve fs {1})", "str", "pure", ["str"]),
               "TransferOps.compare_local(_1, _2, _3)": ("(genCompareLocal fs {1} {2})", "bool", "pure", ["str", "str", "_"])},
        doc="`TransferOps.compare_link` (`os.path.realpath` follows one level: flat file systems, see I2N.Transfer)")
    cmp_local = {"TransferOps.compare_local(_1, _2, _3)":
                 ("readFS (fun fs => genCompareLocal fs {1} {2})", "bool", "reads", ["str", "str", "_"])}
    cmp_link = {"TransferOps.compare_link(_1, _2, _3)":
                ("readFS (fun fs => genCompareLink fs {1} {2})", "bool", "reads", ["str", "str", "_"])}
    download_local = Spec(
        "genDownloadLocal", _T_BINDERS, _T_PARAMS, ret="unit", monad=M, calls=dict(cmp_local, **_T_ACTIONS),
        ignored_calls=_T_LOGS, transparent_with={"image_lock"},
        doc="`TransferOps.download_local`: what one undisturbed process does inside `image_lock` (the lock protocol is "
            "modelled separately, directories are not modelled)")
    upload_local = Spec(
        "genUploadLocal", _T_BINDERS, _T_PARAMS, ret="unit", monad=M, calls=dict(cmp_local, **_T_ACTIONS),
        ignored_calls=_T_LOGS, transparent_with={"image_lock"}, doc="`TransferOps.upload_local`")
    delete_local = Spec(
        "genDeleteLocal", [("pool", "Path")], {"pool_path": ("pool", "str"), "params": None}, ret="unit", monad=M,
        calls=dict(_T_ACTIONS), ignored_calls=_T_LOGS, transparent_with={"image_lock"}, doc="`TransferOps.delete_local`")
    download_link = Spec(
        "genDownloadLink", _T_BINDERS, _T_PARAMS, ret="unit", monad=M,
        calls=dict(cmp_link, **_T_READS, **_T_ACTIONS), ignored_calls=_T_LOGS, transparent_with={"image_lock"},
        raises=[("RuntimeError", "Cannot link to {}, {} data exists", "Err.runtimeError")],
        doc="`TransferOps.download_link`")
    upload_link = Spec(
        "genUploadLink", _T_BINDERS, _T_PARAMS, ret="unit", monad=M,
        calls=dict(_T_READS, **{"TransferOps.upload_local(_1, _2, _3)":
                                ("genUploadLocal {1} {2}", "unit", "action", ["str", "str", "_"])}),
        raises=[("ValueError", "Cannot upload a symlink to its destination", "Err.valueError")],
        doc="`TransferOps.upload_link`")
    return [("compare_local", compare_local), ("compare_link", compare_link), ("download_local", download_local),
            ("upload_local", upload_local), ("delete_local", delete_local), ("download_link", download_link),
            ("upload_link", upload_link)]



_T_DISPATCH_PRELUDE = [
    "/-- `hosts, path = pool_path.split(\":\")` on the model's own splitter -/",
    "def splitColonStr (s : String) : List String := (splitColon s.toList).map String.ofList",
    "/-- `s.replace(c, \"\")` -/",
    "def pyRemoveChar (c : Char) (s : String) : String := String.ofList (s.toList.filter (· != c))",
    "/-- `cls.<op>_remote(...)`: remote transfers are outside the model -/",
    "def remoteM : M Unit := throw Err.notModelled",
]


def _dispatch_spec(op, first=False):
    """`TransferOps.download / upload / delete`: the choice between remote, link and local mode"""
    two = op != "delete"
    args = "_1, _2, _3" if two else "_1, _2"
    types = ["str", "str", "_"] if two else ["str", "_"]
    fill = "{1} {2}" if two else "{1}"
    gen = {"download": ("genDownloadLink", "genDownloadLocal"), "upload": ("genUploadLink", "genUploadLocal"),
           "delete": ("genDeleteLocal", "genDeleteLocal")}[op]
    calls = {f"cls.{op}_remote({args})": ("remoteM", "unit", "action", types),
             f"cls.{op}_link({args})": (f"{gen[0]} {fill}", "unit", "action", types),
             f"cls.{op}_local({args})": (f"{gen[1]} {fill}", "unit", "action", types)}
    params = dict(_T_PARAMS) if two else {"pool_path": ("pool", "str"), "params": None}
    return Spec("gen" + op.capitalize(), _T_BINDERS if two else [("pool", "Path")], params, ret="unit", monad="M",
                atoms={"pool_path.split(':')": ("(splitColonStr pool)", "slist")}, calls=calls,
                prims={"substr": "I2N.Rules.isSubstr"}, unpack_error="Err.valueError",
                prelude=_T_DISPATCH_PRELUDE if first else (),
                doc=f"`TransferOps.{op}`: `hosts:path`, a `;` in the path selects link mode (here `pool` is the whole "
                    "location string)")


def transfer_source(path=None):
    path = path or _src("PYGEN_POOL_SRC", "avocado_i2n/states/pool.py")
    defs = [generate(path, "TransferOps." + name, spec) for name, spec in _transfer_specs()]
    defs += [generate(path, "TransferOps." + op, _dispatch_spec(op, first=(op == "download")))
             for op in ("download", "upload", "delete")]
    return render_file("harness/pygen.py:extract_transfer (called by harness/props/c14.py:extract) from "
                       "avocado_i2n/states/pool.py", ["I2N.Model.Transfer", "I2N.Model.Rules"], "I2N.Extracted.GenTransfer",
                       ["I2N.Transfer"], defs)


def extract_transfer(ctx=None):
    return write_if_changed(_lean_path("GenTransfer.lean"), transfer_source())


# ---- TestNode.default_clean_decision (C05): the tests in front of the "close the door" loop ---------------------------

CLEAN_DOOR_BLOCK = (
    'for picked_worker in self.shared_involved_workers:\n'
    "    if worker.swarm_id != 'localhost' and worker.swarm_id not in picked_worker.id:\n"
    '        continue\n'
    "    if self.is_flat() or picked_worker.id in self.params['name']:\n"
    '        picked_node = self\n'
    '    else:\n'
    '        for node in self.bridged_nodes:\n'
    "            if picked_worker.id in node.params['name']:\n"
    '                picked_node = node\n'
    '                break\n'
    '        else:\n'
    "            raise ValueError(f'Cannot identify picked node for involved worker {picked_worker} instead of the composite {self} to consider for cleanup')\n"
    '    if not picked_node.is_cleanup_ready(picked_worker):\n'
    "        logging.debug(f'Node is not cleanup ready for {picked_worker.id}')\n"
    '        return False\n'
    "    test_statuses = [r['status'].lower() for r in picked_node.results]\n"
    "    if 'unknown' in test_statuses:\n"
    "        logging.debug(f'A worker {picked_worker.id} is still running node which cannot yet be reversed')\n"
    '        return False\n'
    'return self.is_finished(worker, -1)\n'
)

_OBJ_PARAMS = "test_object.object_typed_params(self.params)"


def _clean_spec(node_path):
    return Spec(
        "genCleanDecision",
        binders=[("dryRun", "Bool"), ("flat", "Bool"), ("cloneSource", "Bool"), ("idIn", "Bool"), ("objs", "List String"),
                 ("imagesMode", "String → String"), ("vmsMode", "String → String"), ("door", "Except String Bool")],
        params={"worker": None}, ret="bool", monad="Except String",
        atoms={"self.params.get('dry_run', 'no') == 'yes'": ("dryRun", "bool"),
               "self.is_flat()": ("flat", "bool"),
               "len(self.cloned_nodes) > 0": ("cloneSource", "bool"),
               "worker.id in self.params['name']": ("idIn", "bool"),
               "self.objects": ("objs", "slist"),
               f"{_OBJ_PARAMS}.get('unset_mode_images', {_OBJ_PARAMS}['unset_mode'])[0]": ("(imagesMode test_object)", "str"),
               f"{_OBJ_PARAMS}.get('unset_mode_vms', {_OBJ_PARAMS}['unset_mode'])[0]": ("(vmsMode test_object)", "str")},
        blocks=[(CLEAN_DOOR_BLOCK, "(← door)", "bool")],
        raises=[("RuntimeError", "Worker {} should not try to clean", '"RuntimeError"')],
        ignored_calls={"logging.debug", "logging.info"},
        doc="`TestNode.default_clean_decision` of avocado_i2n/cartgraph/node.py: the tests in front of the loop over the "
            "involved workers.  `objs` = the node's objects, `imagesMode o` / `vmsMode o` = the first character of "
            "`unset_mode_images` / `unset_mode_vms` (default `unset_mode`) of object `o`, `door` = the pinned loop "
            "(what it returns or raises)")


def clean_source(path=None):
    path = path or _src("PYGEN_NODE_SRC", "avocado_i2n/cartgraph/node.py")
    d = generate(path, "TestNode.default_clean_decision", _clean_spec(path))
    return render_file("harness/pygen.py:extract_clean (called by harness/props/c05.py:extract) from "
                       "avocado_i2n/cartgraph/node.py", [], "I2N.Extracted.GenClean", [], [d])


def extract_clean(ctx=None):
    return write_if_changed(_lean_path("GenClean.lean"), clean_source())


SOURCES = {"tunnel": tunnel_source, "scope": scope_source, "pool": pool_source, "rules": rules_source,
           "transfer": transfer_source, "clean": clean_source}

if __name__ == "__main__":
    import sys
    for name in sys.argv[1:] or list(SOURCES):
        print(SOURCES[name]())
