"""Mutation sanity for the regenerated runner segments of harness/pygen_pxrunner.py (development tool, not part of ./check):

    /venv/bin/python harness/pygen_pxrunner_mutants.py [NAME ...]

Like harness/pygen_pxcmd_mutants.py: every mutant is runner.py of /repo copied to a scratch directory with a small
textual edit (/repo is not touched); the generator is run on the copy, the generated Lean file is written in place of
the committed one and `I2N.Props.C10` is built.  Expected: `refused` (the cut / the translator / a pin refuses) or
`proof-breaks` (the generated file, a lemma of Lemmas/RunnerGen.lean or an equality theorem no longer compiles).
`STILL-PROVES` is a hole unless the edit preserves the meaning.  At the end the generated file is restored.
"""
import json
import os
import shutil
import subprocess
import sys
import tempfile

HERE = os.path.dirname(os.path.abspath(__file__))
sys.path.insert(0, HERE)
import pygen  # noqa: E402
import pygen_pxrunner as px  # noqa: E402
import vlib  # noqa: E402

R = px.RUNNER
ANY = ('        shared_status = True\n'
       '        for test in self.job.result.tests:\n'
       '            shared_status &= any(\n'
       '                STATUSES_MAPPING[t["status"]]\n'
       '                for t in self.job.result.tests\n'
       '                if t["name"].name == test["name"].name\n'
       '            )\n'
       '            if not shared_status:\n'
       '                return False\n'
       '        return True\n')
GROUPBY = ('        import itertools\n'
           '        for _, test_runs in itertools.groupby(\n'
           '            self.job.result.tests, key=lambda t: t["name"].name\n'
           '        ):\n'
           '            if not any(STATUSES_MAPPING[t["status"]] for t in test_runs):\n'
           '                return False\n'
           '        return True\n')

# name: ([(old, new)], what)
MUTANTS = {
    "run-retry-off-by-one": ([("        if run_times > 0:\n            node.prefix", "        if run_times > 1:\n            node.prefix")],
                             "the first retry keeps the plain prefix (uid collision with the first execution)"),
    "run-retry-ge": ([("        if run_times > 0:\n            node.prefix", "        if run_times >= 0:\n            node.prefix")],
                     "the first execution already gets a suffix r0"),
    "run-retry-infix": ([('f"r{run_times}"', 'f"x{run_times}"')], "another retry infix"),
    "run-counter-own-results": ([("run_times = len(node.shared_results)", "run_times = len(node.results)")],
                                "retry counter from the copy's own results (M6 of the C10 table)"),
    "run-placeholder-after-await": ([("        node.results += [node_result]\n        await self.run_test_task(node)\n",
                                      "        await self.run_test_task(node)\n        node.results += [node_result]\n")],
                                    "the UNKNOWN placeholder is appended only after the task ran"),
    "run-placeholder-status": ([('node_result = {"name": name, "status": "UNKNOWN"}', 'node_result = {"name": name, "status": "ERROR"}')],
                               "the placeholder is an ERROR result"),
    "run-lookup-name-only": ([('if x["name"].name == name and x["name"].uid == uid', 'if x["name"].name == name')],
                             "lookup by name only (M7): an earlier execution's record is read"),
    "run-lookup-or": ([('if x["name"].name == name and x["name"].uid == uid', 'if x["name"].name == name or x["name"].uid == uid')],
                      "`and` -> `or` in the lookup"),
    "run-duration-factor": ([("1.25 * max_allowed", "1.5 * max_allowed")], "another duration factor"),
    "run-duration-ge": ([("and float(duration) > 1.25 * max_allowed", "and float(duration) >= 1.25 * max_allowed")],
                        "`>` -> `>=` in the duration rule"),
    "run-duration-guard": ([("                if len(node.results) > 0:\n", "                if len(node.results) > 1:\n")],
                           "duration rule only with two or more earlier entries"),
    "run-duration-any-status": ([('                            if r["status"] == "PASS"\n', "")],
                                "the slowest earlier result of ANY status is the reference"),
    "run-placeholder-kept": ([("                node.results.remove(node_result)\n", "")], "placeholder not removed (M8)"),
    "run-remove-in-else": ([('defaulting to ERROR"\n            )\n', 'defaulting to ERROR"\n            )\n            node.results.remove(node_result)\n')],
                           "seeded C02: the placeholder is dropped although the result never arrived"),
    "run-status-not-lowered": ([('test_status = test_result["status"].lower()', 'test_status = test_result["status"]')],
                               "status compared without lower(): FAIL counts as success"),
    "run-miss-status": ([('                test_status = "error"\n', '                test_status = "pass"\n')],
                        "an unreported test counts as passed"),
    "run-failing-list": ([('if test_status in ["error", "fail"]:', 'if test_status in ["error"]:')], "FAIL counts as success"),
    "run-return-swapped": ([('        if test_status in ["error", "fail"]:\n            return False\n        else:\n            return True\n',
                             '        if test_status in ["error", "fail"]:\n            return True\n        else:\n            return False\n')],
                           "returned status negated"),
    "run-polls": ([("status_timeout: int = 10", "status_timeout: int = 5")],
                  "five polls instead of ten (the model's extracted statusTimeout is from the unmutated tree here)"),
    "run-sleep": ([("await asyncio.sleep(30)", "await asyncio.sleep(3)")], "another poll interval"),
    "run-no-break": ([("                test_status = test_result[\"status\"].lower()\n                break\n",
                       "                test_status = test_result[\"status\"].lower()\n")], "the loop is not left when the record is found"),
    "run-prefix-not-restored": ([("        node.prefix = original_prefix\n\n        logging.info(f\"Finished", "        logging.info(f\"Finished")],
                                "the retry prefix sticks to the node"),
    "ok-any-all": ([("            shared_status &= any(\n", "            shared_status &= all(\n")], "`any` -> `all` (M9)"),
    "ok-name-ne": ([('if t["name"].name == test["name"].name', 'if t["name"].name != test["name"].name')], "`==` -> `!=`"),
    "ok-groupby": ([(ANY, GROUPBY)], "seeded C10b: itertools.groupby on the unsorted list"),
    "ok-or-assign": ([("            shared_status &= any(\n", "            shared_status |= any(\n")], "`&=` -> `|=`"),
    "ok-initial": ([("        shared_status = True\n        for test", "        shared_status = False\n        for test")], "initial flag"),
    "ok-status-key": ([('STATUSES_MAPPING[t["status"]]\n', 'STATUSES_MAPPING.get(t["status"], True)\n')],
                      "an unmapped status counts as acceptable instead of raising"),
    "log-message": ([('f"Finished running test with status', 'f"Finished test with status')], "a log message changed (meaning preserved)"),
}


def build(target):
    p = subprocess.run(["lake", "build", target], cwd=vlib.LEAN, stdout=subprocess.PIPE, stderr=subprocess.STDOUT, text=True,
                       timeout=900)
    errs = [l for l in p.stdout.splitlines() if "error" in l.lower()]
    return p.returncode == 0, (errs[0][:160] if errs else "")


def main():
    names = sys.argv[1:] or list(MUTANTS)
    tmp = tempfile.mkdtemp(prefix="i2n-verif-pxmut-")
    out = {}
    try:
        for name in names:
            edits, what = MUTANTS[name]
            src = open(os.path.join(vlib.REPO, R)).read()
            for old, new in edits:
                if old not in src:
                    raise SystemExit(f"{name}: the text to edit is not in {R}")
                src = src.replace(old, new, 1)
            path = os.path.join(tmp, name + ".py")
            open(path, "w").write(src)
            try:
                text = px.runner_source(path)
            except pygen.Unsupported as e:
                out[name] = ("refused", str(e)[:160], what)
                print(name, *out[name][:2], flush=True)
                continue
            pygen.write_if_changed(pygen._lean_path("GenRunner.lean"), text)
            ok, err = build("I2N.Props.C10")
            out[name] = ("STILL-PROVES" if ok else "proof-breaks", err, what)
            print(name, *out[name][:2], flush=True)
    finally:
        shutil.rmtree(tmp, ignore_errors=True)
        px.extract_runner()
        build("I2N.Props.C10")
    print(json.dumps(out, indent=1))
    holes = [k for k, v in out.items() if v[0] == "STILL-PROVES" and k != "log-message"]
    return 1 if holes else 0


if __name__ == "__main__":
    sys.exit(main())
