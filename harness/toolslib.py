"""Shared helper of C15 and C20 (engine E6, tools part): drives the REAL manual tools of avocado-i2n
(`avocado_i2n.intertest_setup.<tool>(config, tag)` and `avocado_i2n.plugins.manu.Manu.run`) on the shipped suite
(`/repo/tp_folder`, real Cartesian parsing) under a virtual clock and records what was executed and removed.

Seams (the ones selftests/isolation/test_intertest_setup.py replaces as well; nothing in /repo is edited):
  * `intertest_setup.new_job`                       -> job-less delegation (a mock job with a result list)
  * `TestRunner.run_test_task`                      -> scheduled virtual duration + scheduled status, records `start`/`end`
  * `avocado_i2n.cartgraph.node.door`               -> a stub recording every state-control request (`door` events)
  * `TestWorker.start`, `remote.wait_for_login`, `SpawnerDispatcher` -> dummies (`start` can be told to fail)
  * asyncio event loop                              -> virtual clock (pattern of harness/travlib.py)
Spies (record and delegate, behaviour unchanged): the tool functions themselves (call order, tag, return value or
exception), `TestGraph.parse_composite_nodes` / `parse_object_trees` (what the Cartesian parser returned: the
parser is an oracle for the Lean model).
"""
import asyncio
import contextlib
import functools
import heapq
import os
import shutil
import subprocess
import sys
import tempfile
import unittest.mock as mock

import vlib

TOOLS = ["noop", "check", "pop", "push", "get", "set", "unset", "collect", "create", "clean",
         "boot", "download", "control", "upload", "shutdown", "update"]
PER_VM = ["check", "pop", "push", "get", "set", "unset", "collect", "create", "clean"]
ONE_NODE = ["boot", "download", "control", "upload", "shutdown"]


class VirtualLoop(asyncio.SelectorEventLoop):
    """Event loop whose clock jumps to the next timer when nothing is ready (copied from travlib)."""

    def __init__(self):
        super().__init__()
        self._vt = 0.0

    def time(self):
        return self._vt

    def _run_once(self):
        while self._scheduled and self._scheduled[0]._cancelled:
            h = heapq.heappop(self._scheduled)
            h._scheduled = False
        if not self._ready and self._scheduled:
            when = self._scheduled[0]._when
            if when > self._vt:
                self._vt = when
        super()._run_once()


class EventOverflow(BaseException):
    """more events than any terminating run of this size can produce (livelock guard)"""


_env = {}


def env():
    """scratch cwd + HOME, suite path set up the way the selftests do, real modules imported"""
    if _env:
        os.chdir(_env["scratch"])
        return _env["m"]
    scratch = tempfile.mkdtemp(prefix="i2n-verif-tools-", dir=os.environ.get("I2N_TOOLS_SCRATCH_ROOT") or None)
    home = os.path.join(scratch, "home")
    os.makedirs(home)
    os.environ["HOME"] = home
    os.chdir(scratch)
    sys.path.insert(0, os.path.join(vlib.REPO, "selftests", "isolation"))
    import unittest_importer  # noqa: F401
    import types
    from avocado_i2n import intertest_setup
    from avocado_i2n.plugins.runner import TestRunner
    from avocado_i2n.plugins.manu import Manu
    from avocado_i2n.cartgraph import node as node_mod
    from avocado_i2n.cartgraph import graph as graph_mod
    from avocado_i2n.cartgraph.graph import TestGraph
    from avocado_i2n.cartgraph.worker import TestWorker
    from virttest import utils_params
    m = types.SimpleNamespace(intertest_setup=intertest_setup, TestRunner=TestRunner, Manu=Manu, node_mod=node_mod,
                              graph_mod=graph_mod, TestGraph=TestGraph, TestWorker=TestWorker,
                              Params=utils_params.Params)
    _env.update(scratch=scratch, m=m)
    return m


def rank_prefixes(prefixes):
    """dense ranks of long prefixes under the real TestNode.prefix_priority (ties share a rank)"""
    from functools import cmp_to_key
    from avocado_i2n.cartgraph.node import TestNode
    uniq = sorted(set(prefixes), key=cmp_to_key(TestNode.prefix_priority))
    rank, r, prev = {}, -1, None
    for p in uniq:
        if prev is None or TestNode.prefix_priority(prev, p) != 0:
            r += 1
        rank[p] = r
        prev = p
    return rank


def extract_graph(g, worker, vm):
    """abstract description of a flagged remove-set graph of `update` (nodes, cleanup edges, produced states, and the
    verdict of the installed run/clean policies evaluated for the graph's worker before the traversal starts)"""
    import re
    nodes = list(g.nodes)
    idx = {id(n): i for i, n in enumerate(nodes)}
    out = []
    for n in nodes:
        p = n.params
        sets = []
        for o in n.objects:
            if o.key == "nets":
                continue
            st = o.object_typed_params(p).get("set_state")
            if st:
                sets.append([o.suffix if o.key == "vms" else o.composites[0].suffix, st, o.key])

        def verdict(f):
            if getattr(f, "__func__", f).__name__ != "<lambda>":
                return "d"
            return "T" if f(worker) else "F"
        cfs = [o.component_form for o in n.objects if o.key == "vms"]
        # the regex of update's flag_children worker filter, to check the model's reading of it
        rx = {cf: bool(re.search(r"(?:^|\.)" + cf + r".*" + worker.id + r"(?:$|\.)", p["name"]))
              for cf in {o.component_form for gg, _, _ in [(g, 0, 0)] for nn in gg.nodes for o in nn.objects if o.key == "vms"}}
        out.append({"name": p["name"], "setless": n.setless_form, "vms": p.get("vms", "").split(), "cfs": cfs,
                    "object_root": p.get("object_root", ""), "shared_root": n.is_shared_root(),
                    "cloned": len(n.cloned_nodes) > 0, "sets": sets, "rx": rx,
                    "children": [idx[id(c)] for c in n.cleanup_nodes if id(c) in idx],
                    "parents": [idx[id(c)] for c in n.setup_nodes if id(c) in idx],
                    "run": verdict(n.should_run), "clean": verdict(n.should_clean)})
    return {"gid": id(g), "worker": worker.id, "vm": vm, "nodes": out}


def cleanup():
    if _env:
        os.chdir("/")
        shutil.rmtree(_env["scratch"], ignore_errors=True)
        _env.clear()


def run_driver(lines, timeout=1500):
    """`lake env lean --run Driver/Tools.lean` (no exe entry in the lakefile) or a compiled, current drv_tools"""
    exe = os.path.join(vlib.LEAN, ".lake", "build", "bin", "drv_tools")
    srcs = [os.path.join(vlib.LEAN, "Driver", "Tools.lean"), os.path.join(vlib.LEAN, "I2N", "Model", "Tools.lean")]
    if os.path.exists(exe) and all(os.path.getmtime(exe) >= os.path.getmtime(s) for s in srcs):
        cmd = [exe]
    else:
        cmd = ["lake", "env", "lean", "--run", "Driver/Tools.lean"]
    for l in lines:
        assert "\n" not in l, l
    data = "\n".join(lines) + "\n"
    p = subprocess.run(cmd, cwd=vlib.LEAN, input=data, stdout=subprocess.PIPE, stderr=subprocess.PIPE, text=True,
                       timeout=timeout)
    if p.returncode != 0:
        raise RuntimeError(f"tools driver failed: {p.stderr[-500:]} {p.stdout[-300:]}")
    out = p.stdout.split("\n")
    if out and out[-1] == "":
        out.pop()
    if len(out) != len(lines):
        raise RuntimeError(f"tools driver: {len(lines)} operations but {len(out)} answers")
    return out


class Recorder:
    """One recording session: install the seams and spies, run real tools, collect `events`.

    sched: {worker id: [[duration, status], ...]} cyclic per worker (default 1, PASS)
    fail:  None | {"kind": "status", "pos": i, "status": "FAIL"}   tests of the i-th outer step report FAIL
                | {"kind": "test-raise", "pos": i}                  the test runner raises inside the i-th step
                | {"kind": "start", "pos": i}                       the workers' environments fail to start in step i
    module: a substitute `intertest_setup`-like module (mutation runs), default the real one
    """
    max_events = 4000

    def __init__(self, sched=None, fail=None, module=None, graph_module=None, node_status=None, spy_update=False):
        self.m = env()
        self.sched = sched or {}
        self.fail = fail
        self.mod = module or self.m.intertest_setup
        self.events = []
        self.exec_count = {}
        self.depth = 0
        self.step_idx = -1
        self.spy_update = spy_update
        self.clean_graphs = []          # [(graph object, worker id, call record)] of update's remove-set graphs
        self.node_status = node_status  # optional callable(params, k-th execution of that name) -> status
        self.name_count = {}

    def ev(self, **kw):
        self.events.append(kw)
        if len(self.events) > self.max_events:
            raise EventOverflow()

    # -- seams ---------------------------------------------------------------------------
    def _patches(self):
        rec = self
        m = self.m

        @contextlib.contextmanager
        def new_job(config):
            job = mock.MagicMock()
            job.logdir = "."
            job.timeout = 10 ** 7
            job.config = config
            job.result.tests = []
            loader, runner = config["graph"].l, config["graph"].r
            loader.logdir = job.logdir
            runner.job = job
            yield job

        async def run_test_task(runner, node):
            p = node.params
            wid = p.get("nets")
            k = rec.exec_count.get(wid, 0)
            rec.exec_count[wid] = k + 1
            seq = rec.sched.get(wid) or [[1, "PASS"]]
            dur, status = seq[k % len(seq)]
            f = rec.fail
            if f and f["pos"] == rec.step_idx:
                if f["kind"] == "status":
                    status = f.get("status", "FAIL")
                elif f["kind"] == "test-raise":
                    rec.ev(k="start", worker=node.started_worker.id if node.started_worker else None, nets=wid,
                           vms=p.get("vms"), name=p["name"], shortname=p["shortname"], uid=node.id_test.uid,
                           step=rec.step_idx, params=dict(p), raised=True)
                    raise RuntimeError("injected runner failure")
            nk = rec.name_count.get(p["name"], 0)
            rec.name_count[p["name"]] = nk + 1
            if rec.node_status is not None:
                status = rec.node_status(p, nk) or status
            uid = node.id_test.uid
            rec.ev(k="start", worker=node.started_worker.id if node.started_worker else None, nets=wid,
                   vms=p.get("vms"), name=p["name"], shortname=p["shortname"], uid=uid, step=rec.step_idx,
                   params=dict(p), unknown=sum(1 for r in node.results if r["status"] == "UNKNOWN"))
            await asyncio.sleep(dur)
            tid = type("Mock", (), {"uid": uid, "name": p["name"]})()
            runner.job.result.tests.append({"name": tid, "status": status, "time_elapsed": str(dur), "logdir": "."})
            rec.ev(k="end", worker=node.started_worker.id if node.started_worker else None, nets=wid, name=p["name"],
                   uid=uid, status=status, step=rec.step_idx)

        class Door:
            DUMP_CONTROL_DIR = "/tmp"
            action = None
            params = None

            @staticmethod
            def set_subcontrol_parameter(path, key, val):
                Door.action = val
                return path

            @staticmethod
            def set_subcontrol_parameter_dict(path, key, val):
                Door.params = val
                return path

            @staticmethod
            def run_subcontrol(session, path):
                p, do = Door.params, Door.action
                reqs = {}
                for key, v in p.items():
                    if key.startswith(f"{do}_state") and v:
                        suffix = key[len(f"{do}_state"):]
                        loc_key = ("show" if do == "check" else do) + "_location" + suffix
                        reqs[suffix.lstrip("_")] = {"state": v, "location": p.get(loc_key, ""),
                                                    "mode": p.get(f"{do}_mode{suffix}", "")}
                rec.ev(k="door", do=do, nets=p.get("nets"), vms=p.get("vms"), name=p.get("name"), reqs=reqs,
                       pool_scope=p.get("pool_scope"), step=rec.step_idx)

        def start(worker):
            f = rec.fail
            ok = not (f and f["kind"] == "start" and f["pos"] == rec.step_idx)
            rec.ev(k="wstart", worker=worker.id, ok=ok, step=rec.step_idx)
            return ok

        real_pcn = m.TestGraph.parse_composite_nodes

        def parse_composite_nodes(graph, restriction="", test_object=None, prefix="", params=None, verbose=False):
            nodes = real_pcn(graph, restriction, test_object, prefix, params=params, verbose=verbose)
            rec.ev(k="parse", restr=restriction, net=test_object.params.get("shortname") if test_object else None,
                   prefix=prefix, params=dict(params or {}), names=[n.params["name"] for n in nodes], keys=[n.bridged_form for n in nodes], prefixes=[n.long_prefix for n in nodes], step=rec.step_idx)
            return nodes

        real_pco = m.TestGraph.parse_composite_objects

        def parse_composite_objects(object_name, object_type, restriction="", component_restrs=None, params=None,
                                    verbose=False):
            objs = real_pco(object_name, object_type, restriction, component_restrs, params, verbose)
            rec.ev(k="objects", name=object_name, type=object_type, n=len(objs), step=rec.step_idx)
            return objs

        ps = [mock.patch.object(self.mod, "new_job", new_job),
              mock.patch.object(m.TestGraph, "parse_composite_objects", staticmethod(parse_composite_objects)),
              mock.patch("avocado_i2n.cartgraph.worker.remote.wait_for_login", mock.MagicMock()),
              mock.patch("avocado_i2n.cartgraph.node.door", Door),
              mock.patch("avocado_i2n.cartgraph.worker.TestWorker.start", start),
              mock.patch("avocado_i2n.cartgraph.worker.TestWorker.get_session", lambda self: None),
              mock.patch("avocado_i2n.plugins.runner.SpawnerDispatcher", mock.MagicMock()),
              mock.patch.object(m.TestRunner, "run_test_task", run_test_task),
              mock.patch.object(m.TestGraph, "parse_composite_nodes", parse_composite_nodes)]
        if self.mod is not m.intertest_setup:
            ps.append(mock.patch("avocado_i2n.plugins.manu.intertest", self.mod))
        if self.spy_update:
            ps += self._update_spies()
        # spies on the tool functions (Manu.run resolves them with getattr at call time)
        for name in TOOLS:
            if hasattr(self.mod, name):
                ps.append(mock.patch.object(self.mod, name, self._spy(name, getattr(self.mod, name))))
        return ps

    # -- spies for `update` (C15) ---------------------------------------------------------
    def _update_spies(self):
        rec, m = self, self.m
        real_pot = m.TestGraph.parse_object_trees
        real_fi = m.TestGraph.flag_intersection
        real_fc = m.TestGraph.flag_children
        real_rw = m.TestRunner.run_workers

        def parse_object_trees(worker=None, restriction="", prefix="", object_restrs=None, params=None, verbose=False,
                               with_shared_root=True):
            try:
                g = real_pot(worker, restriction, prefix, object_restrs, params, verbose, with_shared_root)
            except Exception as e:
                rec.ev(k="pot", worker=worker.id if worker else None, restr=restriction, shared=with_shared_root,
                       exc=type(e).__name__, vm=(params or {}).get("vms"))
                raise
            rec.ev(k="pot", worker=worker.id if worker else None, restr=restriction, shared=with_shared_root, exc=None,
                   gid=id(g), n=len(g.nodes), vm=(params or {}).get("vms"))
            if not with_shared_root:
                rec.clean_graphs.append((g, worker, (params or {}).get("vms")))
            return g

        def flag_intersection(self, graph, flag_type="run", flag=None, skip_object_roots=False, skip_shared_root=False):
            rec.ev(k="fi", gid=id(self), same=graph is self, other=[n.params["name"] for n in graph.nodes], type=flag_type,
                   skip_or=skip_object_roots, skip_sr=skip_shared_root)
            return real_fi(self, graph, flag_type=flag_type, flag=flag, skip_object_roots=skip_object_roots,
                           skip_shared_root=skip_shared_root)

        def flag_children(self, node_name="", object_name="", worker_name="", flag_type="run", flag=None,
                          skip_parents=False, skip_children=False):
            rec.ev(k="fc", gid=id(self), node=node_name, obj=object_name, wname=worker_name, type=flag_type,
                   skip_p=skip_parents, skip_c=skip_children)
            try:
                return real_fc(self, node_name, object_name, worker_name, flag_type=flag_type, flag=flag,
                               skip_parents=skip_parents, skip_children=skip_children)
            except AssertionError:
                for g, w, vm in rec.clean_graphs:
                    if g is self:
                        rec.ev(k="rejected-graph", graph=extract_graph(g, w, vm), node=node_name, obj=object_name)
                raise

        def run_workers(runner, graph, params):
            if rec.clean_graphs:
                rec.ev(k="graphs", graphs=[extract_graph(g, w, vm) for g, w, vm in rec.clean_graphs],
                       final_nodes=len(graph.nodes))
            return real_rw(runner, graph, params)

        return [mock.patch.object(m.TestGraph, "parse_object_trees", staticmethod(parse_object_trees)),
                mock.patch.object(m.TestGraph, "flag_intersection", flag_intersection),
                mock.patch.object(m.TestGraph, "flag_children", flag_children),
                mock.patch.object(m.TestRunner, "run_workers", run_workers)]

    def _spy(self, name, fn):
        rec = self

        @functools.wraps(fn)
        def wrapper(config, tag=""):
            outer = rec.depth == 0
            if outer:
                rec.step_idx += 1
            rec.ev(k="tool", tool=name, tag=tag, outer=outer, step=rec.step_idx, pd=dict(config.get("param_dict", {})),
                   vm_strs=dict(config.get("vm_strs", {})))
            rec.depth += 1
            try:
                ret = fn(config, tag=tag)
            except Exception as e:
                rec.depth -= 1
                rec.ev(k="tool-end", tool=name, outer=outer, step=rec.step_idx, ret=None, exc=type(e).__name__,
                       msg=str(e)[:300], pd_after=dict(config.get("param_dict", {})))
                raise
            rec.depth -= 1
            rec.ev(k="tool-end", tool=name, outer=outer, step=rec.step_idx, ret=ret, exc=None,
                   pd_after=dict(config.get("param_dict", {})))
            return ret
        return wrapper

    @contextlib.contextmanager
    def installed(self):
        with contextlib.ExitStack() as st:
            for p in self._patches():
                st.enter_context(p)
            loop = VirtualLoop()
            asyncio.set_event_loop(loop)
            try:
                yield self
            finally:
                loop.close()
                asyncio.set_event_loop(None)

    # -- entry points --------------------------------------------------------------------
    def base_config(self, vm_strs, nets, extra=None, vms_params=None):
        """the config the selftests build by hand (direct tool calls)"""
        config = {}
        config["available_vms"] = {"vm1": "only CentOS\n", "vm2": "only Win10\n", "vm3": "only Ubuntu\n"}
        for vm, restr in vm_strs.items():
            if restr == "":
                config["available_vms"][vm] = ""      # an unrestricted vm stands for all of its variants
        config["available_restrictions"] = ["leaves", "normal", "minimal"]
        config["param_dict"] = {"nets": nets}
        config["param_dict"].update(extra or {})
        config["vm_strs"] = dict(vm_strs)
        config["tests_str"] = {}
        config["tests_params"] = self.m.Params()
        config["vms_params"] = self.m.Params(vms_params or {})
        return config

    def call_tool(self, tool, config, tag):
        """returns ("ret", value) | ("exc", class name) | ("overflow", None)"""
        with self.installed():
            try:
                return ("ret", getattr(self.mod, tool)(config, tag))
            except EventOverflow:
                return ("overflow", None)
            except Exception as e:
                self.last_exc = e
                return ("exc", type(e).__name__)

    def call_manu(self, cmdline, manu_cls=None):
        """real Manu.run on a command line (list of key=value)"""
        config = {"i2n.manu.params": list(cmdline)}
        self.config = config
        with self.installed():
            try:
                return ("ret", (manu_cls or self.m.Manu)().run(config))
            except EventOverflow:
                return ("overflow", None)
            except Exception as e:
                self.last_exc = e
                return ("exc", type(e).__name__)
