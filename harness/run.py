#!/usr/bin/env python3
"""./check <Cxx> [--tier quick|thorough] [--replay file]   — see DESIGN.md §1.1 for the outcome logic."""
import argparse
import importlib
import json
import os
import signal
import sys
import time
import traceback

sys.path.insert(0, os.path.dirname(os.path.abspath(__file__)))
import warnings
warnings.filterwarnings("ignore")
import logging
logging.disable(logging.WARNING)
import vlib  # noqa: E402


def main():
    ap = argparse.ArgumentParser()
    ap.add_argument("prop")
    ap.add_argument("--tier", default=os.environ.get("VERIF_TIER", "quick"), choices=["quick", "thorough"])
    ap.add_argument("--replay")
    ap.add_argument("--no-build", action="store_true", help="(development) skip lake build and audit")
    args = ap.parse_args()
    prop = args.prop.upper()
    seed = int(os.environ.get("VERIF_SEED", "1") or 1)
    mod = importlib.import_module("props." + prop.lower())
    ctx = vlib.Ctx(prop, args.tier, seed)
    rc = 2
    try:
        rc = run(ctx, mod, args)
    except vlib.subprocess.TimeoutExpired as e:
        print(f"TIMEOUT in {prop}: {e}", file=sys.stderr)
        rc = 2
    except Exception:
        traceback.print_exc()
        print(f"HARNESS-ERROR in {prop} (exit 2, not a violation)", file=sys.stderr)
        rc = 2
    finally:
        ctx.cleanup()
    sys.exit(rc)


def run(ctx, mod, args):
    os.makedirs(vlib.EVID, exist_ok=True)
    if args.replay:
        case = json.load(open(args.replay))
        mod.replay(ctx, case)
        return report(ctx, mod, searched=True)

    # 1. proof obligations: regenerate extracted constants, build, audit
    if hasattr(mod, "extract"):
        try:
            mod.extract(ctx)
        except vlib.subprocess.TimeoutExpired:
            raise
        except Exception as e:   # a constant is no longer where/what it was: the proof obligations about it cannot be checked
            ctx.proof_problems.append(f"extraction of constants from /repo failed ({type(e).__name__}: {str(e)[:300]}); "
                                      "the theorems were checked against the constants of an earlier tree only")
    if hasattr(mod, "ANCHORS"):
        vlib.check_anchors(ctx, mod.ANCHORS)
        if ctx.drifted_anchors:
            ctx.extra["drift"] = True
            ctx.notes.append("modelled functions changed since model_anchors.json was committed: "
                             "correspondence sample raised to the thorough size")
    if not args.no_build:
        ok, log = vlib.lake_build(mod.TARGETS)
        if not ok:
            errs = [l for l in log.splitlines() if "error" in l.lower()][:12]
            ctx.proof_problems.append("lake build failed: " + " | ".join(errs)[:1500])
            # try the driver alone so that the correspondence can still run
            vlib.lake_build([t for t in mod.TARGETS if t.startswith("drv_")])
        else:
            vlib.audit(ctx, mod.PROPS_FILE)
            if ctx.tier == "thorough":
                vlib.leanchecker(ctx, [mod.PROPS_FILE[:-5].replace("/", ".")])
    else:
        ctx.theorems = vlib.theorem_names(mod.PROPS_FILE)

    # 2.+3. correspondence and property oracles on the implementation (corpus first)
    try:
        mod.correspondence(ctx)
    except (vlib.subprocess.TimeoutExpired, KeyboardInterrupt):
        raise
    except Exception as e:
        # the implementation did something the adapter does not expect (an exception escaping the code under test, an
        # output it cannot canonicalise): the correspondence cannot be established -> a broken tie, not a harness crash;
        # violations recorded before the exception are still reported, otherwise the search runs
        tb = traceback.format_exc()
        ctx.notes.append("correspondence aborted by an exception:\n" + tb[-1500:])
        ctx.disagreements.append({"where": f"exception:{type(e).__name__}", "case": {"traceback": tb[-1500:]},
                                  "model": "(correspondence completes)", "impl": f"{type(e).__name__}: {str(e)[:300]}"})

    # 4. search when a proof or the correspondence broke and nothing concrete was found yet
    searched = False
    known_keys = {f["key"] for f in vlib.known_findings().get("findings", []) if f["property"] == ctx.prop}
    if (ctx.proof_problems or ctx.disagreements) and not [v for v in ctx.violations if v["key"] not in known_keys]:
        # (violations that are listed known findings do not explain a broken proof or tie: the search still runs)
        searched = True
        reason = "proof" if ctx.proof_problems else "correspondence"
        if hasattr(mod, "search"):
            try:
                mod.search(ctx, reason)
            except (vlib.subprocess.TimeoutExpired, KeyboardInterrupt):
                raise
            except Exception:
                ctx.notes.append("search aborted by an exception:\n" + traceback.format_exc()[-1500:])
    return report(ctx, mod, searched)


def report(ctx, mod, searched):
    kf = vlib.known_findings()
    known = {(f["property"], f["key"]): f for f in kf.get("findings", [])}
    new_viol, seen_known = [], {}
    for v in ctx.violations:
        k = (ctx.prop, v["key"])
        if k in known:
            seen_known[k] = known[k]
        else:
            new_viol.append(v)
    for k, f in seen_known.items():
        print(f"KNOWN-FINDING: property={ctx.prop} {f['key']}: {f['what']}")
    ctx.extra["known_findings_hit"] = [k[1] for k in seen_known]
    rc = 0
    lines = []
    if new_viol:
        # one VIOLATION line per distinct key
        done = set()
        for i, v in enumerate(new_viol):
            if v["key"] in done:
                continue
            done.add(v["key"])
            path = vlib.write_replay(ctx, len(done), {"kind": "failing-input", "key": v["key"], "what": v["what"],
                                                      "case": v["case"]})
            lines.append(f"VIOLATION property={ctx.prop} replay={path}")
        rc = 1
    elif ctx.proof_problems or ctx.disagreements:
        what = {"kind": "unproved", "proof_problems": ctx.proof_problems,
                "correspondence": [{"where": d["where"], "case": d["case"], "model": d["model"], "impl": d["impl"]}
                                   for d in ctx.disagreements[:5]],
                "names": (ctx.proof_problems[:3] or [f"corr:{ctx.prop}:{d['where']}" for d in ctx.disagreements[:3]]),
                "searched": searched}
        path = vlib.write_replay(ctx, 0, what)
        lines.append(f"VIOLATION property={ctx.prop} replay={path} no-failing-input-found")
        rc = 1
    if not ctx.assumptions:
        ctx.assumptions = list(getattr(mod, "TRUSTED", [])) + [
            "the Lean model is tied to /repo only through the correspondence of this run (inputs listed under input_distribution)"]
    level = getattr(mod, "LEVEL", "proof")
    vlib.write_evidence(ctx, level=level, checker_cmd=f"cd lean && lake build {' '.join(mod.TARGETS)} && "
                        f"#print axioms audit of {mod.PROPS_FILE}" + (" && lake env leanchecker" if ctx.tier == "thorough" else ""),
                        trusted_extra=getattr(mod, "TRUSTED", []), violations=len(lines))
    for l in lines:
        print(l)
    if rc == 0:
        print(f"OK property={ctx.prop} tier={ctx.tier} seed={ctx.seed} theorems={len(ctx.theorems)} "
              f"cases={ctx.evaluations} distinct={len(ctx.nontrivial)} wall={time.time()-ctx.t0:.1f}s")
    return rc


if __name__ == "__main__":
    main()
