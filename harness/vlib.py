"""Common machinery of the avocado-i2n verification checks (see DESIGN.md §1.1, §4, §9).

Every property module in harness/props/cXX.py exposes

    PROP      = "C16"
    ENGINE    = "index"
    TARGETS   = ["I2N.Props.C16", "drv_index"]      # lake targets this property depends on
    PROPS_FILE= "I2N/Props/C16.lean"                  # the property theorems (audited)
    def extract(ctx)            -> None                # optional: regenerate Extracted/*.lean from /repo
    def correspondence(ctx)     -> None                # model vs. implementation + spec oracle on the implementation
    def search(ctx, reason)     -> None                # failing-input search on the implementation (bigger, biased)
    def replay(ctx, case)       -> None                # re-execute one replay file

and reports through the Ctx methods below.  The outcome logic is in run.py.
"""
import hashlib
import json
import os
import random
import re
import shutil
import subprocess
import sys
import tempfile
import time

VERIF = os.path.dirname(os.path.dirname(os.path.abspath(__file__)))
LEAN = os.path.join(VERIF, "lean")
REPO = os.environ.get("I2N_REPO", "/repo")
EVID = os.path.join(VERIF, "evidence")
REPLAY = os.path.join(EVID, "replay")
ALLOWED_AXIOMS = {"propext", "Classical.choice", "Quot.sound"}
FORBIDDEN = re.compile(
    r"\bsorry\b|\badmit\b|^\s*axiom\s|native_decide|bv_decide|implemented_by|\bunsafe\s|maxHeartbeats\s+0\b",
    re.M,
)

TRUSTED_BASE = [
    "Lean 4.33.0 kernel (lake build; thorough tier additionally leanchecker)",
    "axioms allowed in property theorems: propext, Classical.choice, Quot.sound (audited by #print axioms on every run)",
    "no native_decide / bv_decide / sorry / own axioms (grep + #print axioms on every run)",
    "Lean code generator: the compiled driver runs the same definitions the theorems are about (no implemented_by)",
    "the Python correspondence harness and its generators (input distribution printed in the evidence)",
]


class Ctx:
    """Collects what one run of one check covered and found."""

    def __init__(self, prop, tier, seed):
        self.prop = prop
        self.tier = tier
        self.seed = seed
        self.rng = random.Random(seed)
        self.t0 = time.time()
        self.evaluations = 0          # correspondence cases executed
        self.nontrivial = set()       # hashes of distinct non-trivial cases
        self.rule = ""
        self.samples = []
        self.distribution = {}        # counters describing the inputs (ops, sizes, branches, error kinds)
        self.disagreements = []       # model != implementation  (dict with 'case', 'model', 'impl', 'where')
        self.violations = []          # property fails on the implementation (dict with 'key', 'what', 'case')
        self.notes = []
        self.assumptions = []
        self.partial_theorems = []
        self.theorems = []
        self.axioms = {}
        self.proof_problems = []      # broken build / audit findings: strings naming theorem or file
        self.drifted_anchors = []
        self.scratch = None
        self.extra = {}
        self.timeout_s = None

    # -- bookkeeping ---------------------------------------------------------------------
    def count(self, key, n=1):
        self.distribution[key] = self.distribution.get(key, 0) + n

    def case(self, case, nontrivial=True, sample_every=0):
        """Record one executed case (any JSON-able object)."""
        self.evaluations += 1
        if nontrivial:
            h = hashlib.sha1(json.dumps(case, sort_keys=True, default=str).encode()).hexdigest()
            self.nontrivial.add(h)
        if len(self.samples) < 3 or (sample_every and self.evaluations % sample_every == 0 and len(self.samples) < 8):
            self.samples.append(case)

    def disagree(self, where, case, model, impl):
        self.disagreements.append({"where": where, "case": case, "model": model, "impl": impl})

    def violate(self, key, what, case):
        """The property itself fails on the implementation for this concrete case."""
        self.violations.append({"key": key, "what": what, "case": case})

    def remaining(self, budget_s):
        return budget_s - (time.time() - self.t0)

    def mkscratch(self):
        if self.scratch is None:
            self.scratch = tempfile.mkdtemp(prefix="i2n-verif-")
        return self.scratch

    def cleanup(self):
        if self.scratch and os.path.isdir(self.scratch):
            shutil.rmtree(self.scratch, ignore_errors=True)


# -- Lean side ---------------------------------------------------------------------------

def lake_build(targets, timeout=1500):
    """Build the given lake targets; returns (ok, log)."""
    env = dict(os.environ)
    # several checks may run at the same time: two `lake build`s in one directory disturb each other (a driver is unlinked
    # while it is relinked), so builds are serialised by an advisory lock
    import fcntl
    with open(os.path.join(LEAN, ".verif-build.lock"), "w") as lk:
        fcntl.flock(lk, fcntl.LOCK_EX)
        try:
            p = subprocess.run(["lake", "build"] + list(targets), cwd=LEAN, env=env,
                               stdout=subprocess.PIPE, stderr=subprocess.STDOUT, text=True, timeout=timeout)
        finally:
            fcntl.flock(lk, fcntl.LOCK_UN)
    return p.returncode == 0, p.stdout


def strip_comments(src):
    src = re.sub(r"/-.*?-/", lambda m: "\n" * m.group(0).count("\n"), src, flags=re.S)
    src = re.sub(r"--.*", "", src)
    return src


def lean_closure(rel):
    """All project-local lean files (relative to LEAN) imported transitively by `rel`."""
    seen, todo = [], [rel]
    while todo:
        f = todo.pop()
        if f in seen or not os.path.exists(os.path.join(LEAN, f)):
            continue
        seen.append(f)
        for m in re.findall(r"^import\s+(I2N[\w.]*)", open(os.path.join(LEAN, f)).read(), flags=re.M):
            todo.append(m.replace(".", "/") + ".lean")
    return seen


def theorem_names(rel):
    """Fully qualified names of the theorems of a Props file (namespace aware, comments ignored)."""
    src = strip_comments(open(os.path.join(LEAN, rel)).read())
    names, ns = [], []
    for line in src.splitlines():
        m = re.match(r"\s*namespace\s+([\w.]+)", line)
        if m:
            ns.append(m.group(1))
            continue
        m = re.match(r"\s*end\s+([\w.]+)", line)
        if m and ns and ns[-1] == m.group(1):
            ns.pop()
            continue
        m = re.match(r"\s*(?:@\[[^\]]*\]\s*)?(?:private\s+|protected\s+)?theorem\s+([\w.']+)", line)
        if m:
            names.append(".".join(ns + [m.group(1)]))
    return names


def audit(ctx, props_rel):
    """grep for forbidden constructs in the closure of the Props file and #print axioms of its theorems."""
    for f in lean_closure(props_rel):
        src = strip_comments(open(os.path.join(LEAN, f)).read())
        for m in FORBIDDEN.finditer(src):
            ctx.proof_problems.append(f"forbidden construct {m.group(0).strip()!r} in {f}")
    names = theorem_names(props_rel)
    ctx.theorems = names
    if not names:
        ctx.proof_problems.append(f"no theorems found in {props_rel}")
        return
    mod = props_rel[:-5].replace("/", ".")
    fd, tmp = tempfile.mkstemp(suffix=".lean", prefix="audit_", dir=LEAN)
    try:
        with os.fdopen(fd, "w") as fh:
            fh.write(f"import {mod}\n")
            for n in names:
                fh.write(f"#print axioms {n}\n")
        p = subprocess.run(["lake", "env", "lean", tmp], cwd=LEAN, stdout=subprocess.PIPE,
                           stderr=subprocess.STDOUT, text=True, timeout=900)
    finally:
        os.unlink(tmp)
    out = p.stdout
    if p.returncode != 0:
        ctx.proof_problems.append("audit file does not elaborate: " + out[-600:])
        return
    # outputs: "'X' depends on axioms: [a, b]"  or "'X' does not depend on any axioms"
    flat = re.sub(r"\s+", " ", out)
    for n in names:
        m = re.search(r"'" + re.escape(n) + r"' (does not depend on any axioms|depends on axioms: \[([^\]]*)\])", flat)
        if not m:
            ctx.proof_problems.append(f"no axiom report for {n}")
            continue
        axs = [a.strip() for a in (m.group(2) or "").split(",") if a.strip()]
        ctx.axioms[n] = axs
        bad = [a for a in axs if a not in ALLOWED_AXIOMS]
        if bad:
            ctx.proof_problems.append(f"theorem {n} depends on {bad}")
    ctx.partial_theorems = [n for n in names if n.endswith("_partial")]


def leanchecker(ctx, modules):
    p = subprocess.run(["lake", "env", "leanchecker"] + modules, cwd=LEAN, stdout=subprocess.PIPE,
                       stderr=subprocess.STDOUT, text=True, timeout=3000)
    if p.returncode != 0:
        ctx.proof_problems.append("leanchecker rejects " + " ".join(modules) + ": " + p.stdout[-400:])
    ctx.extra["leanchecker"] = {"modules": modules, "ok": p.returncode == 0}


def driver(exe, lines, timeout=600):
    """Pipe operation lines to a compiled Lean driver; one answer line per operation line."""
    path = os.path.join(LEAN, ".lake", "build", "bin", exe)
    data = "\n".join(lines) + "\n"
    p = subprocess.run([path], input=data, stdout=subprocess.PIPE, stderr=subprocess.PIPE, text=True,
                       timeout=timeout)
    if p.returncode != 0:
        raise RuntimeError(f"driver {exe} failed: {p.stderr[-500:]}")
    out = p.stdout.split("\n")
    if out and out[-1] == "":
        out.pop()
    if len(out) != len(lines):
        raise RuntimeError(f"driver {exe}: {len(lines)} operations but {len(out)} answers")
    return out


# -- known findings ----------------------------------------------------------------------

def known_findings():
    path = os.path.join(VERIF, "known_findings.json")
    if not os.path.exists(path):
        return {"findings": [], "fixed": []}
    return json.load(open(path))


# -- anchors (drift detector) ------------------------------------------------------------

def ast_fingerprint(path, qualnames):
    """sha1 of ast.dump of each named function/class ('Class.method' or 'func') in a /repo file."""
    import ast
    tree = ast.parse(open(os.path.join(REPO, path)).read())
    out = {}

    def find(body, parts):
        for node in body:
            if isinstance(node, (ast.FunctionDef, ast.AsyncFunctionDef, ast.ClassDef)) and node.name == parts[0]:
                if len(parts) == 1:
                    return node
                return find(node.body, parts[1:])
        return None

    for q in qualnames:
        node = find(tree.body, q.split("."))
        out[f"{path}:{q}"] = None if node is None else hashlib.sha1(ast.dump(node).encode()).hexdigest()[:16]
    return out


def check_anchors(ctx, anchors):
    """anchors: {path: [qualnames]}.  Compares with the committed model_anchors.json; drift is not a
    violation, it raises the correspondence sample (ctx.extra['drift'] = True) and is recorded."""
    cur = {}
    for path, names in anchors.items():
        cur.update(ast_fingerprint(path, names))
    ref_path = os.path.join(VERIF, "model_anchors.json")
    ref = json.load(open(ref_path)) if os.path.exists(ref_path) else {}
    for k, v in cur.items():
        if k in ref and ref[k] != v:
            ctx.drifted_anchors.append(k)
    ctx.extra["anchors"] = cur
    return cur


# -- replay files ------------------------------------------------------------------------

def write_replay(ctx, idx, payload):
    os.makedirs(REPLAY, exist_ok=True)
    path = os.path.join(REPLAY, f"{ctx.prop}-{ctx.tier}-{ctx.seed}-{idx}.json")
    payload = dict(payload)
    payload.update({"property": ctx.prop, "seed": ctx.seed, "tier": ctx.tier})
    with open(path, "w") as fh:
        json.dump(payload, fh, indent=1, sort_keys=True, default=str)
    return path


def _self_check_evidence(ev):
    """the evidence must validate against EVIDENCE.schema.json (an invalid file counts as no evidence); jsonschema is not
    in the repo's venv, so the typed keys of the schema are checked by hand here and fully by tools/validate.py"""
    cov = ev["coverage"]
    ints = ("evaluations", "distinct_nontrivial", "states", "transitions", "traces_validated_against_impl", "obligations",
            "discharged", "programs", "disagreements_checked")
    for k in ints:
        if k in cov and (not isinstance(cov[k], int) or isinstance(cov[k], bool) or cov[k] < 0):
            raise TypeError(f"evidence coverage.{k} must be a non-negative integer, got {cov[k]!r}")
    for k in ("rule", "checker_cmd", "explanation"):
        if k in cov and not isinstance(cov[k], str):
            raise TypeError(f"evidence coverage.{k} must be a string")
    if "exhaustive" in cov and not isinstance(cov["exhaustive"], bool):
        raise TypeError("evidence coverage.exhaustive must be a boolean")
    if "samples" in cov and not isinstance(cov["samples"], list):
        raise TypeError("evidence coverage.samples must be a list")
    if "trusted_base" in cov and not all(isinstance(x, str) for x in cov["trusted_base"]):
        raise TypeError("evidence coverage.trusted_base must be a list of strings")
    if not all(isinstance(x, str) for x in ev.get("assumptions", [])):
        raise TypeError("evidence assumptions must be strings")


def write_evidence(ctx, level="proof", checker_cmd="", trusted_extra=(), violations=0):
    os.makedirs(EVID, exist_ok=True)
    obligations = len(ctx.theorems)
    broken = set()
    for pr in ctx.proof_problems:
        hit = [n for n in ctx.theorems if n in pr]
        broken.update(hit if hit else ctx.theorems)   # a problem not naming a theorem taints all
    discharged = obligations - len(broken)
    cov = {
        "obligations": obligations,
        "discharged": discharged,
        "checker_cmd": checker_cmd or "lake build + #print axioms audit (harness/vlib.py:audit)",
        "trusted_base": TRUSTED_BASE + list(trusted_extra),
        "theorems": ctx.theorems,
        "axioms": ctx.axioms,
        "partial_theorems": ctx.partial_theorems,
        "proof_problems": ctx.proof_problems,
        "evaluations": ctx.evaluations,
        "distinct_nontrivial": len(ctx.nontrivial),
        "rule": ctx.rule,
        "samples": ctx.samples[:8] if ctx.samples else ["<no correspondence case executed>"],
        "input_distribution": ctx.distribution,
        "disagreements_model_vs_impl": len(ctx.disagreements),
        "drifted_anchors": ctx.drifted_anchors,
        "notes": ctx.notes,
    }
    extra = dict(ctx.extra)
    # the schema reserves `exhaustive` for a boolean; what was enumerated completely is described next to it
    if "exhaustive" in extra and not isinstance(extra["exhaustive"], bool):
        extra["exhaustive_parts"] = extra.pop("exhaustive")
        extra["exhaustive"] = False      # parts of the space are enumerated completely, the run as a whole also samples
    cov.update(extra)
    ev = {
        "property_id": ctx.prop,
        "tier": ctx.tier,
        "seed": ctx.seed,
        "level": level,
        "coverage": cov,
        "assumptions": ctx.assumptions,
        "wall_s": round(time.time() - ctx.t0, 2),
        "violations": violations,
    }
    _self_check_evidence(ev)
    with open(os.path.join(EVID, f"{ctx.prop}.json"), "w") as fh:
        json.dump(ev, fh, indent=1, sort_keys=True, default=str)
    return ev


def consts_with_fallback(prop, compute):
    """constants read from /repo's source by `compute`; if they can no longer be read (the source changed shape), the
    committed reference values harness/consts/<prop>.json (tools/mkconsts.py) let the spec oracle still hunt for a failing
    input - the failed extraction itself stays a broken proof obligation (run.py).  Returns (constants, fresh?)."""
    path = os.path.join(VERIF, "harness", "consts", f"{prop}.json")
    try:
        return compute(), True
    except Exception:
        if os.path.exists(path):
            with open(path) as fh:
                return json.load(fh), False
        raise


def shrink_list(items, fails, max_rounds=200):
    """ddmin-style shrinking of a list while `fails(list)` stays true."""
    items = list(items)
    n = 2
    rounds = 0
    while len(items) >= 2 and rounds < max_rounds:
        rounds += 1
        chunk = max(1, len(items) // n)
        reduced = False
        for i in range(0, len(items), chunk):
            cand = items[:i] + items[i + chunk:]
            if cand and fails(cand):
                items = cand
                n = max(n - 1, 2)
                reduced = True
                break
        if not reduced:
            if chunk == 1:
                break
            n = min(len(items), n * 2)
    return items
