"""Self test of the translator harness/pygen.py (development tool, not part of ./check):

    /venv/bin/python harness/pygen_selftest.py

what must be refused is refused (fail closed), and one function that uses every accepted construct translates to the
expected `do` block.  The meaning of the accepted constructs is checked elsewhere: the generated definitions of
/repo's functions are proved equal to hand models that the differential runs compare with the real code.
"""
import ast
import os
import sys

sys.path.insert(0, os.path.dirname(os.path.abspath(__file__)))
import pygen  # noqa: E402

SPEC = pygen.Spec("f", [("d", "SDict"), ("x", "String"), ("o", "Option String")],
                  {"d": ("d", "sdict"), "x": ("x", "str"), "o": ("o", "optstr")}, ret="str", monad="except")

REFUSED = {
    "for loop": "def f(d, x, o):\n    for k in d:\n        return k\n    return x\n",
    "while loop": "def f(d, x, o):\n    while x:\n        return x\n    return x\n",
    "assignment to a parameter": "def f(d, x, o):\n    x = 'a'\n    return x\n",
    "local first assigned in a branch": "def f(d, x, o):\n    if x == 'a':\n        y = 'b'\n    else:\n        y = 'c'\n    return y\n",
    "aliased dictionary": "def f(d, x, o):\n    e = d\n    e['k'] = 'v'\n    return x\n",
    "store into a parameter dictionary": "def f(d, x, o):\n    d['k'] = 'v'\n    return x\n",
    "read behind and": "def f(d, x, o):\n    if x == 'a' and d['k'] == 'b':\n        return 'y'\n    return x\n",
    "read behind or": "def f(d, x, o):\n    if x == 'a' or d['k'] == 'b':\n        return 'y'\n    return x\n",
    "read in a conditional expression": "def f(d, x, o):\n    return d['k'] if x == 'a' else x\n",
    "chained comparison": "def f(d, x, o):\n    if x == 'a' == 'b':\n        return 'y'\n    return x\n",
    "falls off the end": "def f(d, x, o):\n    if x == 'a':\n        return 'y'\n",
    "falls off the end (elif)": "def f(d, x, o):\n    if x == 'a':\n        return 'y'\n    elif x == 'b':\n        return 'z'\n",
    "unknown call": "def f(d, x, o):\n    return x.upper()\n",
    "augmented assignment": "def f(d, x, o):\n    y = 'a'\n    y += x\n    return y\n",
    "try": "def f(d, x, o):\n    try:\n        return d['k']\n    except KeyError:\n        return x\n",
    "with": "def f(d, x, o):\n    with x:\n        return x\n",
    "raise": "def f(d, x, o):\n    if x == 'a':\n        raise ValueError(x)\n    return x\n",
    "assert": "def f(d, x, o):\n    assert x == 'a'\n    return x\n",
    "mixed return types": "def f(d, x, o):\n    if x == 'a':\n        return (x, x)\n    return x\n",
    "bare return": "def f(d, x, o):\n    if x == 'a':\n        return\n    return x\n",
    "decorator": "@cache\ndef f(d, x, o):\n    return x\n",
    "defined twice": "def f(d, x, o):\n    return x\ndef f(d, x, o):\n    return 'b'\n",
    "rebound": "def f(d, x, o):\n    return x\nf = None\n",
    "truthiness of a string": "def f(d, x, o):\n    if x:\n        return 'y'\n    return x\n",
    "truthiness of an optional": "def f(d, x, o):\n    if not o:\n        return 'y'\n    return x\n",
    "substring test": "def f(d, x, o):\n    if x in 'abc':\n        return 'y'\n    return x\n",
    "membership in a variable": "def f(d, x, o):\n    if x in d:\n        return 'y'\n    return x\n",
    "keyword-only parameter": "def f(d, x, o, *, z=1):\n    return x\n",
    "other parameter list": "def f(d, o, x):\n    return x\n",
    "walrus": "def f(d, x, o):\n    if (y := x) == 'a':\n        return y\n    return x\n",
    "lambda": "def f(d, x, o):\n    g = lambda: x\n    return x\n",
    "nested function": "def f(d, x, o):\n    def g():\n        return x\n    return x\n",
    "computed key": "def f(d, x, o):\n    return d[x]\n",
    "statement after return": "def f(d, x, o):\n    return x\n    return 'a'\n",
    "comparison of a string with a Boolean": "def f(d, x, o):\n    if x == True:\n        return 'y'\n    return x\n",
    "changed type of a local": "def f(d, x, o):\n    y = 'a'\n    y = None\n    return x\n",
    "global": "def f(d, x, o):\n    global G\n    return x\n",
    "number": "def f(d, x, o):\n    if x == 1:\n        return 'y'\n    return x\n",
    "f-string": "def f(d, x, o):\n    return f'{x}'\n",
    "concatenation": "def f(d, x, o):\n    return x + 'a'\n",
    "duplicate key": "def f(d, x, o):\n    e = {'a': 'b', 'a': 'c'}\n    return x\n",
    "dictionary unpacking": "def f(d, x, o):\n    e = {**d}\n    return x\n",
    "multiple assignment": "def f(d, x, o):\n    a = b = 'x'\n    return a\n",
    "tuple unpacking": "def f(d, x, o):\n    a, b = 'x', 'y'\n    return a\n",
    "delete": "def f(d, x, o):\n    e = {'a': 'b'}\n    del e['a']\n    return x\n",
    "module constant assigned twice": "K = ['a']\nK = ['b']\ndef f(d, x, o):\n    if x in K:\n        return 'y'\n    return x\n",
    "module constant shadowed by a local": "K = ['a']\ndef f(d, x, o):\n    K = 'q'\n    if x in K:\n        return 'y'\n    return x\n",
    "is on a string": "def f(d, x, o):\n    if x is None:\n        return 'y'\n    return x\n",
    "unknown name": "def f(d, x, o):\n    return y\n",
    "async": "async def f(d, x, o):\n    return x\n",
}

ACCEPTED_SRC = '''K = ("a", "b")


def f(d, x, o):
    """doc"""
    e = {"t": "u"}
    y = "n"
    if x in K and o is not None:
        pass
    elif x not in ["c"] or not o == "q":
        e["t"] = d["k"]
        y = "m" if o != "z" else x
    else:
        return e["t"]
    if o is None:
        return y
    return d["z"]
'''

ACCEPTED_LEAN = ['def f (d : SDict) (x : String) (o : Option String) : Except Err (String) := do',
                 '  let mut e : SDict := ([("t", "u")] : SDict)',
                 '  let mut y : String := "n"',
                 '  if ((["a", "b"].contains x) && (!(o == none))) then',
                 '    pure ()',
                 '  else if ((!(["c"].contains x)) || (!(o == some "q"))) then',
                 '    e := SDict.set e "t" (← SDict.getItem d "k")',
                 '    y := (if (!(o == some "z")) then "m" else x)',
                 '  else',
                 '    return (← SDict.getItem e "t")',
                 '  if (o == none) then',
                 '    return y',
                 '  return (← SDict.getItem d "z")']


def differential():
    """run the accepted function in Python and its translation in Lean on the same 48 inputs (evaluation order, KeyError)"""
    import subprocess
    import tempfile
    import vlib
    ns = {}
    exec(ACCEPTED_SRC, ns)
    tree = ast.parse(ACCEPTED_SRC)
    lean = pygen.translate(pygen.find_function(tree, "f"), SPEC, pygen.module_constants(tree))
    cases, want = [], []
    for d in ({}, {"k": "v"}, {"z": "w"}, {"k": "v", "z": "w"}):
        for x in ("a", "c", "q"):
            for o in (None, "q", "z", "r"):
                try:
                    want.append("ok " + ns["f"](dict(d), x, o))
                except KeyError:
                    want.append("KeyError")
                dl = "[" + ", ".join(f"({pygen.lean_str(k)}, {pygen.lean_str(v)})" for k, v in d.items()) + "]"
                cases.append(f"f {dl} {pygen.lean_str(x)} " + ("none" if o is None else f"(some {pygen.lean_str(o)})"))
    src = ["import I2N.Model.Tunnel", "open I2N.Tunnel"] + lean + [
        "def shw (r : Except Err String) : String := match r with | .ok s => \"ok \" ++ s | .error _ => \"KeyError\"",
        "#eval IO.println (\"\\n\".intercalate [" + ", ".join(f"shw ({c})" for c in cases) + "])"]
    fd, tmp = tempfile.mkstemp(suffix=".lean", prefix="pygen_selftest_", dir=vlib.LEAN)
    try:
        with os.fdopen(fd, "w") as fh:
            fh.write("\n".join(src) + "\n")
        p = subprocess.run(["lake", "env", "lean", tmp], cwd=vlib.LEAN, stdout=subprocess.PIPE, stderr=subprocess.STDOUT,
                           text=True, timeout=600)
    finally:
        os.unlink(tmp)
    got = [l for l in p.stdout.splitlines() if l]
    if p.returncode != 0 or got != want:
        diff = [f"{c}: python {w!r}, lean {g!r}" for c, w, g in zip(cases, want, got) if w != g][:5]
        return [f"differential run: lean exit {p.returncode}, {len(got)} answers for {len(want)} cases; " + "; ".join(diff)
                + (p.stdout[-300:] if p.returncode else "")]
    return []


def main():
    bad = differential() if "--no-lean" not in sys.argv else []
    for what, src in REFUSED.items():
        try:
            tree = ast.parse(src)
            pygen.translate(pygen.find_function(tree, "f"), SPEC, pygen.module_constants(tree))
            bad.append("NOT refused: " + what)
        except pygen.Unsupported:
            pass
    tree = ast.parse(ACCEPTED_SRC)
    got = pygen.translate(pygen.find_function(tree, "f"), SPEC, pygen.module_constants(tree))
    got = got[:got.index("")]
    if got != ACCEPTED_LEAN:
        bad.append("unexpected translation:\n" + "\n".join(got))
    print(f"pygen selftest: {len(REFUSED)} refusals, 1 translation" +
          (", 48 inputs through Python and the generated Lean" if "--no-lean" not in sys.argv else "") +
          f" checked, {len(bad)} problem(s)")
    for b in bad:
        print("  " + b)
    return 1 if bad else 0


if __name__ == "__main__":
    sys.exit(main())
