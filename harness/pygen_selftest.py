"""Self test of the translator harness/pygen.py (development tool, not part of ./check):

    /venv/bin/python harness/pygen_selftest.py

what must be refused is refused (fail closed), and three functions that together use every accepted construct translate
to the expected `do` blocks (`f`: dictionaries, strings, if/elif/else; `g`: loops, comprehensions, sets, integers,
`raise`, `with`, log calls; `h`: a state monad with reading, failing and acting atoms, bare `return`) and compute the
same results in Python and in Lean on sampled inputs.  The meaning of the accepted constructs is checked elsewhere: the generated definitions of
/repo's functions are proved equal to hand models that the differential runs compare with the real code.
"""
import ast
import os
import sys

sys.path.insert(0, os.path.dirname(os.path.abspath(__file__)))
import pygen  # noqa: E402

SPEC = pygen.Spec("f", [("d", "SDict"), ("x", "String"), ("o", "Option String")],
                  {"d": ("d", "sdict"), "x": ("x", "str"), "o": ("o", "optstr")}, ret="str", monad="except")

REFUSED = {
    "for loop": "def f(d, x, o):\n    for k in d:\n        return k\n    return x\n",
    "while loop": "def f(d, x, o):\n    while x:\n        return x\n    return x\n",
    "assignment to a parameter": "def f(d, x, o):\n    x = 'a'\n    return x\n",
    "aliased dictionary": "def f(d, x, o):\n    e = d\n    e['k'] = 'v'\n    return x\n",
    "store into a parameter dictionary": "def f(d, x, o):\n    d['k'] = 'v'\n    return x\n",
    "read in a conditional expression": "def f(d, x, o):\n    return d['k'] if x == 'a' else x\n",
    "chained comparison": "def f(d, x, o):\n    if x == 'a' == 'b':\n        return 'y'\n    return x\n",
    "falls off the end": "def f(d, x, o):\n    if x == 'a':\n        return 'y'\n",
    "falls off the end (elif)": "def f(d, x, o):\n    if x == 'a':\n        return 'y'\n    elif x == 'b':\n        return 'z'\n",
    "unknown call": "def f(d, x, o):\n    return x.upper()\n",
    "try": "def f(d, x, o):\n    try:\n        return d['k']\n    except KeyError:\n        return x\n",
    "with": "def f(d, x, o):\n    with x:\n        return x\n",
    "raise": "def f(d, x, o):\n    if x == 'a':\n        raise ValueError(x)\n    return x\n",
    "assert": "def f(d, x, o):\n    assert x == 'a'\n    return x\n",
    "mixed return types": "def f(d, x, o):\n    if x == 'a':\n        return (x, x)\n    return x\n",
    "bare return": "def f(d, x, o):\n    if x == 'a':\n        return\n    return x\n",
    "decorator": "@cache\ndef f(d, x, o):\n    return x\n",
    "defined twice": "def f(d, x, o):\n    return x\ndef f(d, x, o):\n    return 'b'\n",
    "rebound": "def f(d, x, o):\n    return x\nf = None\n",
    "truthiness of a string": "def f(d, x, o):\n    if x:\n        return 'y'\n    return x\n",
    "truthiness of an optional": "def f(d, x, o):\n    if not o:\n        return 'y'\n    return x\n",
    "membership in a variable": "def f(d, x, o):\n    if x in d:\n        return 'y'\n    return x\n",
    "keyword-only parameter": "def f(d, x, o, *, z=1):\n    return x\n",
    "other parameter list": "def f(d, o, x):\n    return x\n",
    "walrus": "def f(d, x, o):\n    if (y := x) == 'a':\n        return y\n    return x\n",
    "lambda": "def f(d, x, o):\n    g = lambda: x\n    return x\n",
    "nested function": "def f(d, x, o):\n    def g():\n        return x\n    return x\n",
    "computed key": "def f(d, x, o):\n    return d[x]\n",
    "statement after return": "def f(d, x, o):\n    return x\n    return 'a'\n",
    "comparison of a string with a Boolean": "def f(d, x, o):\n    if x == True:\n        return 'y'\n    return x\n",
    "global": "def f(d, x, o):\n    global G\n    return x\n",
    "number": "def f(d, x, o):\n    if x == 1:\n        return 'y'\n    return x\n",
    "f-string": "def f(d, x, o):\n    return f'{x}'\n",
    "duplicate key": "def f(d, x, o):\n    e = {'a': 'b', 'a': 'c'}\n    return x\n",
    "dictionary unpacking": "def f(d, x, o):\n    e = {**d}\n    return x\n",
    "multiple assignment": "def f(d, x, o):\n    a = b = 'x'\n    return a\n",
    "tuple unpacking": "def f(d, x, o):\n    a, b = 'x', 'y'\n    return a\n",
    "delete": "def f(d, x, o):\n    e = {'a': 'b'}\n    del e['a']\n    return x\n",
    "module constant assigned twice": "K = ['a']\nK = ['b']\ndef f(d, x, o):\n    if x in K:\n        return 'y'\n    return x\n",
    "is on a string": "def f(d, x, o):\n    if x is None:\n        return 'y'\n    return x\n",
    "unknown name": "def f(d, x, o):\n    return y\n",
    "async": "async def f(d, x, o):\n    return x\n",
    "changed type of a local": "def f(d, x, o):\n    y = 'a'\n    y = None\n    if y is None:\n        return x\n    return x\n",
    "local assigned in one branch only": "def f(d, x, o):\n    if x == 'a':\n        y = 'b'\n    return y\n",
    "local read in the branch before it is assigned": "def f(d, x, o):\n    if x == 'a':\n        if y == 'q':\n            return 'z'\n        y = 'b'\n    else:\n        y = 'c'\n    return y\n",
    "dead local assigned from an unassigned one": "def f(d, x, o):\n    if x == 'a':\n        z = y\n        y = 'b'\n    else:\n        y = 'c'\n    return y\n",
    "augmented assignment to an undeclared name": "def f(d, x, o):\n    y += x\n    return x\n",
    "truthiness of a number": "def f(d, x, o):\n    n = 1\n    if n:\n        return 'y'\n    return x\n",
    "or between strings as a value": "def f(d, x, o):\n    return x or 'a'\n",
    "and between lists as a value": "def f(d, x, o):\n    l = x.split() and ['a']\n    return x\n",
    "order comparison of strings": "def f(d, x, o):\n    if x < 'a':\n        return 'y'\n    return x\n",
    "division": "def f(d, x, o):\n    n = 4 / 2\n    if n == 2:\n        return 'y'\n    return x\n",
    "float": "def f(d, x, o):\n    n = 1.5\n    if n == 2:\n        return 'y'\n    return x\n",
    "size of a set as a value": "def f(d, x, o):\n    n = len({*x.split()})\n    if n == 2:\n        return 'y'\n    return x\n",
    "size of a set compared with 1": "def f(d, x, o):\n    if len({*x.split()}) > 1:\n        return 'y'\n    return x\n",
    "set minus list": "def f(d, x, o):\n    if len({*x.split()} - x.split()) > 0:\n        return 'y'\n    return x\n",
    "set display of elements": "def f(d, x, o):\n    if len({x, 'a'}) > 0:\n        return 'y'\n    return x\n",
    "set comparison": "def f(d, x, o):\n    if {*x.split()} == {*x.split()}:\n        return 'y'\n    return x\n",
    "empty list without a declared type": "def f(d, x, o):\n    l = []\n    return x\n    ",
    "list of lists": "def f(d, x, o):\n    l = [x.split()]\n    if l:\n        return 'y'\n    return x\n",
    # (two generators are a construct of the translator now: added for harness/pygen_pxloc.py, exercised by pygen_pxloc_selftest.py)
    "nested comprehension": "def f(d, x, o):\n    l = [a + b + c for a in x.split() for b in x.split() for c in x.split()]\n    if l:\n        return 'y'\n    return x\n",
    "comprehension over a string": "def f(d, x, o):\n    l = [c for c in x]\n    if l:\n        return 'y'\n    return x\n",
    "comprehension variable also assigned": "def f(d, x, o):\n    w = 'a'\n    l = [w for w in x.split()]\n    if l:\n        return w\n    return x\n",
    "dictionary read in a comprehension": "def f(d, x, o):\n    l = [d['k'] for w in x.split()]\n    if l:\n        return 'y'\n    return x\n",
    "dictionary comprehension": "def f(d, x, o):\n    e = {w: w for w in x.split()}\n    return x\n",
    "any over a list value": "def f(d, x, o):\n    if any(x.split()):\n        return 'y'\n    return x\n",
    "max of three": "def f(d, x, o):\n    n = max(1, 2, 3)\n    if n == 3:\n        return 'y'\n    return x\n",
    "max of strings": "def f(d, x, o):\n    return max(x, 'a')\n",
    "startswith of a tuple": "def f(d, x, o):\n    if x.startswith(('a', 'b')):\n        return 'y'\n    return x\n",
    "len of a string": "def f(d, x, o):\n    if len(x) == 1:\n        return 'y'\n    return x\n",
    "shadowed builtin": "def f(d, x, o):\n    len = 'a'\n    if len(x.split()) == 1:\n        return 'y'\n    return x\n",
    "loop with continue": "def f(d, x, o):\n    n = 0\n    for w in x.split():\n        n += 1\n        if w == 'a':\n            continue\n        n += 1\n    if n == 1:\n        return 'y'\n    return x\n",
    "loop with break and no else": "def f(d, x, o):\n    n = 0\n    for w in x.split():\n        n += 1\n        if w == 'a':\n            break\n    if n == 1:\n        return 'y'\n    return x\n",
    "flag loop whose else sets True": "def f(d, x, o):\n    for w in x.split():\n        b = w == 'a'\n        if b:\n            break\n    else:\n        b = True\n    if b:\n        return 'y'\n    return x\n",
    "flag loop whose flag is set before": "def f(d, x, o):\n    b = True\n    for w in x.split():\n        b = w == 'a'\n        if b:\n            break\n    else:\n        b = False\n    if b:\n        return 'y'\n    return x\n",
    "flag loop that reads the flag": "def f(d, x, o):\n    for w in x.split():\n        b = w == 'a'\n        b |= not b\n        if b:\n            break\n    else:\n        b = False\n    if b:\n        return 'y'\n    return x\n",
    "flag loop whose flag holds a list": "def f(d, x, o):\n    for w in x.split():\n        b = w.split()\n        if b:\n            break\n    else:\n        b = False\n    if b:\n        return 'y'\n    return x\n",
    "read behind and in an elif": "def f(d, x, o):\n    if x == 'a':\n        return 'y'\n    elif x == 'q' and d['k'] == 'v':\n        return 'z'\n    return x\n",
    "read behind or of a string": "def f(d, x, o):\n    y = x or d['k']\n    return y\n",
    "read behind and in a comprehension": "def f(d, x, o):\n    l = [w for w in x.split() if w == 'a' and d['k'] == w]\n    if l:\n        return 'y'\n    return x\n",
    "loop updating two locals": "def f(d, x, o):\n    n = 0\n    m = 0\n    for w in x.split():\n        n += 1\n        m += 2\n    if n == m:\n        return 'y'\n    return x\n",
    "loop updating an undeclared local": "def f(d, x, o):\n    for w in x.split():\n        n = 1\n    return x\n",
    # (an else branch that only returns is a construct now - `if`-tree search loops of pygen_pxloc_selftest.py)
    "search loop with an else branch": "def f(d, x, o):\n    for w in x.split():\n        if w == 'a':\n            return w\n        else:\n            break\n    return x\n",
    "dictionary read in a loop": "def f(d, x, o):\n    n = 0\n    for w in x.split():\n        if d['k'] == w:\n            n += 1\n    if n == 1:\n        return 'y'\n    return x\n",
    "raise in a loop": "def f(d, x, o):\n    n = 0\n    for w in x.split():\n        if w == 'a':\n            raise ValueError('bad')\n        n += 1\n    return x\n",
    "loop over a dictionary": "def f(d, x, o):\n    n = 0\n    for k in d:\n        n += 1\n    return x\n",
    "loop variable assigned in the body": "def f(d, x, o):\n    n = 0\n    for w in x.split():\n        w = 'a'\n        n += 1\n    return x\n",
    "loop variable used after the loop": "def f(d, x, o):\n    y = 'a'\n    for a in [x, 'b']:\n        y = a\n    return a\n",
    "unrolled loop assigns what it runs over": "def f(d, x, o):\n    y = 'a'\n    for a in [y, 'b']:\n        y = a + 'c'\n    return y\n",
    "unrolled loop with break": "def f(d, x, o):\n    y = 'a'\n    for a in [x, 'b']:\n        if a == 'b':\n            break\n        y = a\n    return y\n",
    "unrolled loop over calls": "def f(d, x, o):\n    y = 'a'\n    for a in [x.lower(), 'b']:\n        y = a\n    return y\n",
    "unrolled loop with a mismatching element": "def f(d, x, o):\n    y = 'a'\n    for a, b in [(x, 'b'), x]:\n        y = a\n    return y\n",
    "undeclared exception": "def f(d, x, o):\n    if x == 'a':\n        raise KeyError('k')\n    return x\n",
    "declared exception with another message": "def f(d, x, o):\n    if x == 'a':\n        raise ValueError('worse')\n    if x == 'b':\n        raise ValueError(f'bad {x}')\n    return x\n",
    "exception message computed": "def f(d, x, o):\n    if x == 'a':\n        raise ValueError(x.upper())\n    if x == 'b':\n        raise ValueError(f'bad {x}')\n    return x\n",
    "re-raise": "def f(d, x, o):\n    if x == 'a':\n        raise\n    if x == 'b':\n        raise ValueError(f'bad {x}')\n    return x\n",
    "raise from": "def f(d, x, o):\n    if x == 'a':\n        raise ValueError('bad') from None\n    return x\n",
    "declared exception no longer raised": "def f(d, x, o):\n    return x\n",
    "log call with a computed argument": "def f(d, x, o):\n    if x == 'b':\n        raise ValueError(f'bad {x}')\n    logging.debug(d.pop('k'))\n    return x\n",
    "unknown call as a statement": "def f(d, x, o):\n    if x == 'b':\n        raise ValueError(f'bad {x}')\n    d.clear()\n    return x\n",
    "print": "def f(d, x, o):\n    if x == 'b':\n        raise ValueError(f'bad {x}')\n    print(x)\n    return x\n",
    "with of an undeclared context manager": "def f(d, x, o):\n    if x == 'b':\n        raise ValueError(f'bad {x}')\n    with open(x) as fh:\n        return x\n",
    "with whose value is used": "def f(d, x, o):\n    if x == 'b':\n        raise ValueError(f'bad {x}')\n    with lock(x) as l:\n        if l == 'a':\n            return 'y'\n    return x\n",
    "raising atom in a conditional expression": "def f(d, x, o):\n    if x == 'b':\n        raise ValueError(f'bad {x}')\n    n = num(x) if x == 'a' else 1\n    if n == 1:\n        return 'y'\n    return x\n",
    "raising atom in a comprehension": "def f(d, x, o):\n    if x == 'b':\n        raise ValueError(f'bad {x}')\n    l = [w for w in x.split() if num(w) == 1]\n    if l:\n        return 'y'\n    return x\n",
    "call atom with a wrongly typed argument": "def f(d, x, o):\n    if x == 'b':\n        raise ValueError(f'bad {x}')\n    if num(1) == 1:\n        return 'y'\n    return x\n",
    "action used as a value": "def f(d, x, o):\n    if x == 'b':\n        raise ValueError(f'bad {x}')\n    y = act(x)\n    if y == 'a':\n        return 'y'\n    return x\n",
    "tuple assignment from a translated value": "def f(d, x, o):\n    a, b = x, x\n    return a\n",
    "tuple assignment from a list without a declared error": "def f(d, x, o):\n    a, b = x.split()\n    return a\n",
    "replace by a non-empty string": "def f(d, x, o):\n    return x.replace('a', 'b')\n",
    "split at a longer separator": "def f(d, x, o):\n    if x.split('ab'):\n        return 'y'\n    return x\n",
    "tuple assignment inside a branch": "def f(d, x, o):\n    if x == 'a':\n        a, b = x.partition(':')\n    return x\n",
    "return None in a function with a value": "def f(d, x, o):\n    if x == 'a':\n        return None\n    return x\n",
    "attribute of a string": "def f(d, x, o):\n    return x.real\n",
    "undeclared field of a list element": "def f(d, x, o):\n    l = [w.name for w in x.split()]\n    if l:\n        return 'y'\n    return x\n",
}

# the specification the refusals above are tried with: one raising call atom, one action, one declared exception, log
# calls ignored, `lock(...)` transparent
REFUSE_SPEC = pygen.Spec("f", [("d", "SDict"), ("x", "String"), ("o", "Option String")],
                         {"d": ("d", "sdict"), "x": ("x", "str"), "o": ("o", "optstr")}, ret="str", monad="except",
                         calls={"num(_1)": ("numOf {1}", "int", "raises", ["str"]), "act(_1)": ("actOn {1}", "unit", "action")},
                         raises=[("ValueError", "bad ", "Err.valueError")],
                         ignored_calls={"logging.debug"}, transparent_with={"lock"})
REFUSE_WITH_SPEC = ("undeclared exception", "declared exception with another message", "exception message computed", "re-raise",
                    "raise from", "declared exception no longer raised", "log call with a computed argument",
                    "unknown call as a statement", "print", "with of an undeclared context manager", "with whose value is used",
                    "raising atom in a conditional expression", "raising atom in a comprehension",
                    "call atom with a wrongly typed argument", "action used as a value", "raise in a loop")

ACCEPTED_SRC = '''K = ("a", "b")


def f(d, x, o):
    """doc"""
    e = {"t": "u"}
    y = "n"
    if x in K and o is not None:
        pass
    elif x not in ["c"] or not o == "q":
        e["t"] = d["k"]
        y = "m" if o != "z" else x
    else:
        return e["t"]
    if x == "q" and d["k"] == "v":
        return "both"
    w = o is None or d["z"] == "w" or x == "c"
    if not w:
        return "neither"
    if o is None:
        return y
    return d["z"]
'''

ACCEPTED_LEAN = ['def f (d : SDict) (x : String) (o : Option String) : Except Err (String) := do',
                 '  let mut e : SDict := ([("t", "u")] : SDict)',
                 '  let mut y : String := "n"',
                 '  if ((["a", "b"].contains x) && (!(o == none))) then',
                 '    pure ()',
                 '  else if ((!(["c"].contains x)) || (!(o == some "q"))) then',
                 '    e := SDict.set e "t" (← SDict.getItem d "k")',
                 '    y := (if (!(o == some "z")) then "m" else x)',
                 '  else',
                 '    return (← SDict.getItem e "t")',
                 '  let mut pyTmp1 : Bool := (x == "q")',
                 '  if pyTmp1 then',
                 '    pyTmp1 := ((← SDict.getItem d "k") == "v")',
                 '  if pyTmp1 then',
                 '    return "both"',
                 '  let mut pyTmp2 : Bool := (o == none)',
                 '  if (!pyTmp2) then',
                 '    pyTmp2 := ((← SDict.getItem d "z") == "w")',
                 '  if (!pyTmp2) then',
                 '    pyTmp2 := (x == "c")',
                 '  let mut w : Bool := pyTmp2',
                 '  if (!w) then',
                 '    return "neither"',
                 '  if (o == none) then',
                 '    return y',
                 '  return (← SDict.getItem d "z")']


ACCEPTED2_SRC = '''K = ("a", "b")


def g(x, l, n):
    """doc"""
    logging.debug(f"called with {x}")
    words = x.split()
    if len(l) == 0 and n < 0:
        raise ValueError(f"negative {n} for {x}")
    if n > 100:
        raise RuntimeError("too big")
    total = 0
    for w in words:
        if w.startswith("a"):
            total += 2
        elif "z" in w:
            total -= 1
        else:
            total = total + len(l)
    for a, b in [(x, "first"), ("zz", "z")]:
        if b in a:
            total += 10
    lows = [w.lower() for w in l if w != "skip"]
    bad = {*lows} - {*words}
    both = {*lows} & {*words}
    if n == 7:
        kind = "seven"
    elif len(bad) > 0:
        kind = "bad"
    else:
        kind = "ok"
    msg = ", ".join(bad) if bad else "NONE"
    logging.info(f"bad: {msg}")
    flag = any(w in l for w in words) or all(len(w.split()) == 1 for w in l)
    with lock(x, n) as held:
        for w in l:
            first = w + "?"
            if first in K or w == x:
                return (first, total, flag, lows)
    for w in l:
        has = w.startswith("q")
        has |= w in words
        has = has or w == "B"
        if has:
            break
    else:
        has = False
    m = max(n, 1) + min(total, 3) - (0 if both else 5) * 2
    picked = words or l
    out = []
    for w in picked:
        if w not in K:
            out.append(w + "!")
        else:
            out += [w, "k"]
    head, tail = x.replace("z", "").split("b")
    out += [head, tail]
    return (kind, m, flag and not has, out)
'''

SPEC2 = pygen.Spec("g", [("x", "String"), ("l", "List String"), ("n", "Int")],
                   {"x": ("x", "str"), "l": ("l", "slist"), "n": ("n", "int")},
                   ret=("tuple", ("str", "int", "bool", "slist")), monad="except",
                   raises=[("ValueError", "negative {} for", "Err.negativeTries"), ("RuntimeError", "too big", "Err.runtimeError")],
                   ignored_calls={"logging.debug", "logging.info"}, transparent_with={"lock"}, local_types={"out": "slist"},
                   unpack_error="Err.negativeTries",
                   prelude=["def pyStartsWith (s p : String) : Bool := isPrefixL p.toList s.toList",
                            "def pyRemoveChar (c : Char) (s : String) : String := String.ofList (s.toList.filter (· != c))"])

ACCEPTED2_LEAN = [
    'def pyStartsWith (s p : String) : Bool := isPrefixL p.toList s.toList',
    'def pyRemoveChar (c : Char) (s : String) : String := String.ofList (s.toList.filter (· != c))',
    '',
    'def g (x : String) (l : List String) (n : Int) : Except Err (String × Int × Bool × List String) := do',
    '  let mut words : List String := (splitWs x)',
    '  if (((Int.ofNat l.length) == (0 : Int)) && (decide (n < (0 : Int)))) then',
    '    throw Err.negativeTries',
    '  if (decide (n > (100 : Int))) then',
    '    throw Err.runtimeError',
    '  let mut total : Int := (0 : Int)',
    '  total := words.foldl (fun total w => (if (pyStartsWith w "a") then (total + (2 : Int)) else '
    '(if (isSubstr "z" w) then (total - (1 : Int)) else (total + (Int.ofNat l.length))))) total',
    '  if (isSubstr "first" x) then',
    '    total := (total + (10 : Int))',
    '  if (isSubstr "z" "zz") then',
    '    total := (total + (10 : Int))',
    '  let mut lows : List String := ((l.filter (fun w => (!(w == "skip")))).map (fun w => (lower w)))',
    '  let mut bad : List String := (lows.filter (fun pyElem => !(words.contains pyElem)))',
    '  let mut both : List String := (lows.filter (fun pyElem => words.contains pyElem))',
    '  let mut kind : String := ""',
    '  if (n == (7 : Int)) then',
    '    kind := "seven"',
    '  else if (!bad.isEmpty) then',
    '    kind := "bad"',
    '  else',
    '    kind := "ok"',
    '  let mut flag : Bool := ((words.any (fun w => (l.contains w))) || (l.all (fun w => ((Int.ofNat (splitWs w).length) == (1 : Int)))))',
    '  match (l.find? (fun w => let first : String := (w ++ "?"); ((["a", "b"].contains first) || (w == x)))) with',
    '  | some w =>',
    '    let first : String := (w ++ "?")',
    '    return (first, total, flag, lows)',
    '  | none => pure ()',
    '  let mut has : Bool := (l.any (fun w => ((pyStartsWith w "q") || (words.contains w) || (w == "B"))))',
    '  let mut m : Int := (((max n (1 : Int)) + (min total (3 : Int))) - ((if (!both.isEmpty) then (0 : Int) else (5 : Int)) * (2 : Int)))',
    '  let mut picked : List String := (let pyOrLeft : List String := words; if pyOrLeft.isEmpty then l else pyOrLeft)',
    '  let mut out : List String := []',
    '  out := picked.foldl (fun out w => (if (!(["a", "b"].contains w)) then (out ++ [(w ++ "!")]) else (out ++ [w, "k"]))) out',
    '  let mut head : String := ""',
    '  let mut tail : String := ""',
    "  match (splitChar 'b' (pyRemoveChar 'z' x)) with",
    '  | [pyPart1_1, pyPart1_2] =>',
    '    head := pyPart1_1',
    '    tail := pyPart1_2',
    '  | _ => throw Err.negativeTries',
    '  out := (out ++ [head, tail])',
    '  return (kind, m, (flag && (!has)), out)']


def differential2():
    """the second accepted function (loops, comprehensions, sets, integers, raise, with, log calls) in Python and its
    translation in Lean on the same 150 inputs"""
    import logging
    import subprocess
    import tempfile
    import contextlib
    import vlib
    ns = {"logging": logging, "lock": lambda *a: contextlib.nullcontext()}
    exec(ACCEPTED2_SRC, ns)
    tree = ast.parse(ACCEPTED2_SRC)
    lean = pygen.translate(pygen.find_function(tree, "g"), SPEC2, pygen.module_constants(tree))
    cases, want = [], []

    def ll(xs):
        return "([" + ", ".join(pygen.lean_str(v) for v in xs) + "] : List String)"
    for x in ("", "a b", "ab zq a", "skip q", "A  b\tzz", "first"):
        for l in ([], ["a"], ["Skip", "skip", "B"], ["q x", "zz"], ["ab zq a", "b"]):
            for n in (-1, 0, 7, 3, 101):
                try:
                    k, m, f, o = ns["g"](x, list(l), n)
                    want.append(f"ok {k} {m} {str(f).lower()} [{', '.join(o)}]")
                except ValueError:
                    want.append("ValueError")
                except RuntimeError:
                    want.append("RuntimeError")
                cases.append(f"g {pygen.lean_str(x)} {ll(l)} ({n})")
    src = ["import I2N.Model.Rules", "open I2N.Rules"] + lean + [
        "def shw (r : Except Err (String × Int × Bool × List String)) : String := match r with",
        "  | .ok (k, m, f, o) => s!\"ok {k} {m} {f} {o}\"",
        "  | .error .negativeTries => \"ValueError\" | .error .runtimeError => \"RuntimeError\" | .error _ => \"other\"",
        "#eval IO.println (\"\\n\".intercalate [" + ", ".join(f"shw ({c})" for c in cases) + "])"]
    fd, tmp = tempfile.mkstemp(suffix=".lean", prefix="pygen_selftest_", dir=vlib.LEAN)
    try:
        with os.fdopen(fd, "w") as fh:
            fh.write("\n".join(src) + "\n")
        p = subprocess.run(["lake", "env", "lean", tmp], cwd=vlib.LEAN, stdout=subprocess.PIPE, stderr=subprocess.STDOUT,
                           text=True, timeout=600)
    finally:
        os.unlink(tmp)
    got = [l for l in p.stdout.splitlines() if l]
    if p.returncode != 0 or got != want:
        diff = [f"{c}: python {w!r}, lean {g!r}" for c, w, g in zip(cases, want, got) if w != g][:5]
        return [f"differential run 2: lean exit {p.returncode}, {len(got)} answers for {len(want)} cases; " + "; ".join(diff)
                + (p.stdout[-600:] if p.returncode else "")]
    return []


ACCEPTED3_SRC = '''def h(x, n):
    os.makedirs(os.path.dirname(x), exist_ok=True)
    limit = cfg.get_numeric("limit", 3)
    if peek() > n and not small(n):
        return
    with lock(x, limit) as held:
        bump(n)
        if x == "boom" or peek() == 7:
            raise ValueError(f"bad {x}")
        if digest(x) == "":
            bump(100)
        if n == 5:
            twice = n + n
            bump(twice)
            cfg.hook = lambda _: None
        other(x, n)
    bump(1)
'''

SPEC3 = pygen.Spec("h", [("x", "String"), ("n", "Int")], {"x": ("x", "str"), "n": ("n", "int")}, ret="unit",
                   monad="StateT Int (Except Err)",
                   calls={"peek()": ("peekM", "int", "reads"), "small(_1)": ("(decide ({1} < 2))", "bool", "pure", ["int"]),
                          "bump(_1)": ("bumpM {1}", "unit", "action", ["int"]),
                          "digest(_1)": ("(digestOf {1})", "Option Nat", "pure", ["str"]),
                          "other(_1, _2)": ("otherM {1} {2}", "unit", "action", ["str", "int"])},
                   atoms={"''": ("(none : Option Nat)", "Option Nat")}, type_defaults={"Option Nat": "none"},
                   stmts={"cfg.hook = lambda _: None": "bumpM 1000"},
                   raises=[("ValueError", "bad {}", "Err.valueError")], ignored_calls={"os.makedirs"},
                   transparent_with={"lock"},
                   prelude=["def peekM : StateT Int (Except Err) Int := get",
                            "def bumpM (k : Int) : StateT Int (Except Err) Unit := modify (· + k)",
                            "def digestOf (x : String) : Option Nat := if x == \"void\" then none else some x.length",
                            "def otherM (x : String) (n : Int) : StateT Int (Except Err) Unit :=",
                            "  if x == \"other\" then throw Err.keyError else modify (· * 2 + n)"])

ACCEPTED3_LEAN = ['def h (x : String) (n : Int) : StateT Int (Except Err) (Unit) := do',
                  '  if ((decide ((← peekM) > n)) && (!(decide (n < 2)))) then',
                  '    return ()',
                  '  bumpM n',
                  '  if ((x == "boom") || ((← peekM) == (7 : Int))) then',
                  '    throw Err.valueError',
                  '  if ((digestOf x) == (none : Option Nat)) then',
                  '    bumpM (100 : Int)',
                  '  if (n == (5 : Int)) then',
                  '    let mut twice : Int := (n + n)',
                  '    bumpM twice',
                  '    bumpM 1000',
                  '  otherM x n',
                  '  bumpM (1 : Int)',
                  '  return ()']


def differential3():
    """a function with effects (state monad: reads, actions, raise, `with`, bare return, dropped calls) in Python and
    its translation in Lean from the same 48 start states / inputs"""
    import contextlib
    import subprocess
    import tempfile
    import types
    import vlib
    st = [0]

    def other(x, n):
        if x == "other":
            raise KeyError(x)
        st[0] = st[0] * 2 + n
    class Cfg:
        def get_numeric(self, k, d):
            return d

        def __setattr__(self, k, v):                     # the pinned statement `cfg.hook = …` stands for `bumpM 1000`
            st[0] += 1000
    ns = {"os": types.SimpleNamespace(makedirs=lambda *a, **k: None, path=types.SimpleNamespace(dirname=lambda p: p)),
          "cfg": Cfg(), "lock": lambda *a: contextlib.nullcontext(),
          "peek": lambda: st[0], "small": lambda n: n < 2, "digest": lambda x: "" if x == "void" else "h" + x,
          "bump": lambda k: st.__setitem__(0, st[0] + k), "other": other}
    exec(ACCEPTED3_SRC, ns)
    tree = ast.parse(ACCEPTED3_SRC)
    lean = pygen.translate(pygen.find_function(tree, "h"), SPEC3, {})
    cases, want = [], []
    for x in ("a", "boom", "void", "other"):
        for n in (0, 1, 3, 5):
            for s0 in (0, 4, 6):
                st[0] = s0
                try:
                    ns["h"](x, n)
                    want.append(f"ok {st[0]}")
                except ValueError:
                    want.append("ValueError")
                except KeyError:
                    want.append("KeyError")
                cases.append(f"(h {pygen.lean_str(x)} ({n})).run ({s0})")
    src = ["import I2N.Model.Tunnel", "open I2N.Tunnel"] + lean + [
        "def shw (r : Except Err (Unit × Int)) : String := match r with",
        "  | .ok (_, s) => s!\"ok {s}\" | .error .valueError => \"ValueError\" | .error .keyError => \"KeyError\"",
        "  | .error _ => \"other\"",
        "#eval IO.println (\"\\n\".intercalate [" + ", ".join(f"shw ({c})" for c in cases) + "])"]
    fd, tmp = tempfile.mkstemp(suffix=".lean", prefix="pygen_selftest_", dir=vlib.LEAN)
    try:
        with os.fdopen(fd, "w") as fh:
            fh.write("\n".join(src) + "\n")
        p = subprocess.run(["lake", "env", "lean", tmp], cwd=vlib.LEAN, stdout=subprocess.PIPE, stderr=subprocess.STDOUT,
                           text=True, timeout=600)
    finally:
        os.unlink(tmp)
    got = [l for l in p.stdout.splitlines() if l]
    if p.returncode != 0 or got != want:
        diff = [f"{c}: python {w!r}, lean {g!r}" for c, w, g in zip(cases, want, got) if w != g][:5]
        return [f"differential run 3: lean exit {p.returncode}, {len(got)} answers for {len(want)} cases; " + "; ".join(diff)
                + (p.stdout[-600:] if p.returncode else "")]
    return []


def differential():
    """run the accepted function in Python and its translation in Lean on the same 48 inputs (evaluation order, KeyError)"""
    import subprocess
    import tempfile
    import vlib
    ns = {}
    exec(ACCEPTED_SRC, ns)
    tree = ast.parse(ACCEPTED_SRC)
    lean = pygen.translate(pygen.find_function(tree, "f"), SPEC, pygen.module_constants(tree))
    cases, want = [], []
    for d in ({}, {"k": "v"}, {"z": "w"}, {"k": "v", "z": "w"}):
        for x in ("a", "c", "q"):
            for o in (None, "q", "z", "r"):
                try:
                    want.append("ok " + ns["f"](dict(d), x, o))
                except KeyError:
                    want.append("KeyError")
                dl = "[" + ", ".join(f"({pygen.lean_str(k)}, {pygen.lean_str(v)})" for k, v in d.items()) + "]"
                cases.append(f"f {dl} {pygen.lean_str(x)} " + ("none" if o is None else f"(some {pygen.lean_str(o)})"))
    src = ["import I2N.Model.Tunnel", "open I2N.Tunnel"] + lean + [
        "def shw (r : Except Err String) : String := match r with | .ok s => \"ok \" ++ s | .error _ => \"KeyError\"",
        "#eval IO.println (\"\\n\".intercalate [" + ", ".join(f"shw ({c})" for c in cases) + "])"]
    fd, tmp = tempfile.mkstemp(suffix=".lean", prefix="pygen_selftest_", dir=vlib.LEAN)
    try:
        with os.fdopen(fd, "w") as fh:
            fh.write("\n".join(src) + "\n")
        p = subprocess.run(["lake", "env", "lean", tmp], cwd=vlib.LEAN, stdout=subprocess.PIPE, stderr=subprocess.STDOUT,
                           text=True, timeout=600)
    finally:
        os.unlink(tmp)
    got = [l for l in p.stdout.splitlines() if l]
    if p.returncode != 0 or got != want:
        diff = [f"{c}: python {w!r}, lean {g!r}" for c, w, g in zip(cases, want, got) if w != g][:5]
        return [f"differential run: lean exit {p.returncode}, {len(got)} answers for {len(want)} cases; " + "; ".join(diff)
                + (p.stdout[-300:] if p.returncode else "")]
    return []


def main():
    bad = differential() + differential2() + differential3() if "--no-lean" not in sys.argv else []
    import pygen_pxindex_selftest                       # constructs added for harness/pygen_pxindex.py (C16, C17)
    bad4, nref4, nin4 = pygen_pxindex_selftest.run("--no-lean" not in sys.argv)
    bad += bad4
    import pygen_selftest_pxready              # leading `continue` guards, lambdas in declared calls, `l[0]`
    bad += pygen_selftest_pxready.run("--no-lean" not in sys.argv)
    import pygen_pxloc_selftest                # `if`-tree search loops, two-generator comprehensions, opaque set operations
    bad += pygen_pxloc_selftest.run("--no-lean" not in sys.argv)
    for what, src in REFUSED.items():
        try:
            tree = ast.parse(src)
            pygen.translate(pygen.find_function(tree, "f"), REFUSE_SPEC if what in REFUSE_WITH_SPEC else SPEC,
                            pygen.module_constants(tree))
            bad.append("NOT refused: " + what)
        except pygen.Unsupported:
            pass
    for what in REFUSE_WITH_SPEC:
        if what not in REFUSED:
            bad.append("unknown refusal " + what)
    tree = ast.parse(ACCEPTED2_SRC)
    got2 = pygen.translate(pygen.find_function(tree, "g"), SPEC2, pygen.module_constants(tree))
    got2 = got2[:got2.index("", 3)]
    if got2 != ACCEPTED2_LEAN:
        bad.append("unexpected translation of g:\n" + "\n".join(got2))
    tree = ast.parse(ACCEPTED3_SRC)
    got3 = pygen.translate(pygen.find_function(tree, "h"), SPEC3, {})
    got3 = got3[len(SPEC3.prelude) + 1:]
    got3 = got3[:got3.index("")]
    if got3 != ACCEPTED3_LEAN:
        bad.append("unexpected translation of h:\n" + "\n".join(got3))
    tree = ast.parse(ACCEPTED_SRC)
    got = pygen.translate(pygen.find_function(tree, "f"), SPEC, pygen.module_constants(tree))
    got = got[:got.index("")]
    if got != ACCEPTED_LEAN:
        bad.append("unexpected translation:\n" + "\n".join(got))
    print(f"pygen selftest: {len(REFUSED)} + {nref4} refusals, 3 + 1 translations" +
          (f", 48 + 150 + 48 + {nin4} inputs through Python and the generated Lean" if "--no-lean" not in sys.argv else "") +
          f" checked, {len(bad)} problem(s)")
    for b in bad:
        print("  " + b)
    return 1 if bad else 0


if __name__ == "__main__":
    sys.exit(main())
