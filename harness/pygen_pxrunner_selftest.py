"""Self test of the translator addition made for harness/pygen_pxrunner.py (development tool, not part of ./check):

    /venv/bin/python harness/pygen_pxrunner_selftest.py

`any(...)` / `all(...)` over a generator whose element IS one Boolean atom that may raise becomes `List.anyM` / `allM`
(element by element, stops at the first decisive one: the exception is raised exactly when Python raises it).  Accepted
only as a statement-level value of a monadic function; refused behind and/or, in a pure function, for a non-Boolean
atom.  Also: the cut of pygen_pxrunner refuses a handful of reshaped `run_test_node`s.  The meaning of the accepted form
is covered by the proofs (`Lemmas/RunnerGen.anyM_filter_eq_anyOk` compares it with the hand written short-circuit
recursion `anyOk`) and by the `decide`d examples of Props/C10.lean (KeyError before / after an acceptable record).
"""
import ast
import os
import sys
import tempfile

sys.path.insert(0, os.path.dirname(os.path.abspath(__file__)))
import pygen  # noqa: E402
import pygen_pxrunner as px  # noqa: E402
import vlib  # noqa: E402


def spec(monad="except", kind="raises", ty="bool"):
    return pygen.Spec("f", [("l", "List T")], {}, ret="bool", monad=monad,
                      atoms={"L": ("l", ("list", "T")), "M[t]": ("look t", ty, kind), "t.ok": ("t.ok", "bool")})


def tr(src, sp):
    fn = ast.parse(src).body[0]
    out = pygen.translate(fn, sp)
    out = out[:next(i for i, l in enumerate(out) if l.startswith("/- the Python"))]
    return [l.strip() for l in out if l.startswith("  ")]


def main():
    bad = []
    got = tr("def f():\n    return any(M[t] for t in L if t.ok)\n", spec())
    if got != ["return (← ((l.filter (fun t => t.ok)).anyM (fun t => look t)))"]:
        bad.append(("accepted any", got))
    got = tr("def f():\n    return all(M[t] for t in L)\n", spec())
    if got != ["return (← (l.allM (fun t => look t)))"]:
        bad.append(("accepted all", got))
    got = tr("def f():\n    return any(M[t] for t in L)\n", spec(kind="pure"))
    if got != ["return (l.any (fun t => look t))"]:
        bad.append(("pure atom unchanged", got))
    refused = {
        "behind or": ("def f():\n    x = True or any(M[t] for t in L)\n    return x\n", spec()),
        "pure function": ("def f():\n    return any(M[t] for t in L)\n", spec(monad="pure")),
        "non-Boolean element": ("def f():\n    return any(M[t] for t in L)\n", spec(ty="str")),
        "element is more than the atom": ("def f():\n    return any(not M[t] for t in L)\n", spec()),
    }
    for name, (src, sp) in refused.items():
        try:
            out = tr(src, sp)
        except pygen.Unsupported:
            continue
        if any("anyM" in l for l in out) and name == "behind or" and any("if" in l for l in out):
            continue          # lowered to statements in front: the action runs only when Python runs it
        bad.append((name, out))
    # the cut
    src = open(os.path.join(vlib.REPO, px.RUNNER)).read()
    cuts = {
        "third await": ("        node.prefix = original_prefix\n", "        await asyncio.sleep(0)\n        node.prefix = original_prefix\n"),
        "return inside the try": ("                break\n            except StopIteration:", "                return True\n            except StopIteration:"),
        "broader handler": ("except StopIteration:", "except Exception:"),
        "else does something": ('defaulting to ERROR"\n            )\n', 'defaulting to ERROR"\n            )\n            test_status = "fail"\n'),
        "new live local": ("        uid = node.id_test.uid\n", "        uid = node.id_test.uid\n        extra = node.prefix\n"),
        "loop counter used": ('                test_status = "error"\n', '                test_status = "error" if i < 9 else "fail"\n'),
    }
    tmp = tempfile.mkdtemp(prefix="i2n-verif-pxsel-")
    for name, (old, new) in cuts.items():
        if old not in src:
            bad.append((name, "text to edit not found"))
            continue
        s = src.replace(old, new, 1)
        if name == "new live local":
            s = s.replace("        node.prefix = original_prefix\n", "        node.prefix = original_prefix or extra\n", 1)
        path = os.path.join(tmp, "m.py")
        open(path, "w").write(s)
        try:
            px.runner_source(path)
            bad.append((name, "accepted"))
        except pygen.Unsupported:
            pass
    try:
        px.runner_source()
    except pygen.Unsupported as e:
        bad.append(("unchanged source", str(e)))
    for b in bad:
        print("FAIL", *b)
    print("pygen_pxrunner selftest:", "FAILED" if bad else "ok")
    return 1 if bad else 0


if __name__ == "__main__":
    sys.exit(main())
