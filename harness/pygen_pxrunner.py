"""pygen_pxrunner — regenerated model (translator tie, see harness/pygen.py) of the runner's result bookkeeping (C10, C03).

    GenRunner.lean   `TestRunner.run_test_node` (avocado_i2n/plugins/runner.py), cut at its two awaits, and
                     `TestRunner.all_results_ok`

`run_test_node` is a coroutine with two awaits: `await self.run_test_task(node)` (the test runs; other workers run
meanwhile) and `await asyncio.sleep(30)` inside the result lookup loop.  asyncio is cooperative, so the code between two
awaits is atomic: `cut_run_test_node` cuts the function AT the awaits into straight-line segments — mechanically and
failing closed — and hands `pygen.translate` synthetic functions whose bodies are the very AST nodes of the source:

    before   the statements between the (pinned) flat-node guard and `await self.run_test_task(node)`: retry number,
             uid, the UNKNOWN placeholder appended to `node.results`                    -> genRunBefore
    lookup   the generator inside `next(...)`, as a list comprehension                   -> genLookup
    found    the `try` body of one poll after `test_result = next(...)` up to its `break` -> genPollFound
    miss     the `except StopIteration` body behind its `await asyncio.sleep(30)`          -> genPollMiss
    after    the statements behind the loop                                               -> genRunAfter

What the cut adds to a segment (nothing else is rewritten): a final `return <frame>` where the frame is the tuple of
the locals that are assigned in the segment and read in a later one (computed from the AST and compared with the
expected frame: a new live local is refused); the generator expression of `next(...)` becomes the list comprehension
with the same element and clauses (`next` = its first element, StopIteration when it is empty).  The awaits are the
suspension points of the hand written models (`Rules.start` / `Rules.finish`, `Trav.startTest` / `Trav.resumeTest`);
the loop `for i in range(status_timeout): try … except StopIteration … else …` is matched structurally and written
out in Lean by `RUN_SKELETON` (genPoll, genPolls, genRunTestNode) with the environment (what other coroutines append
to `job.result.tests` during an await) as an explicit argument.

The state of the segments is `RSt` = (`node.results`, `job.result.tests`, `node.prefix`), the monad of the generated
definitions is `StateT RSt (Except Err)`.

Trusted with this module (in addition to harness/pygen.py): the cut; the atom / statement tables below (each Python
statement on the left means the Lean action on the right; they are printed side by side in the generated file), in
particular `node.id_test.uid` = the current `node.prefix` (`TestNode.id_test` is `TestID(self.prefix, params["name"])`),
a result dictionary is the structure `Result` / `JobRes`, `float(time_elapsed)` is a natural number (the model's
durations), and the PASS -> WARN duration rule, which is a pinned statement (it compares floats: `d > 1.25 * m` is
written `4 * d > 5 * m`).
"""
import ast
import os
import sys

HERE = os.path.dirname(os.path.abspath(__file__))
if HERE not in sys.path:
    sys.path.insert(0, HERE)
import pygen  # noqa: E402
from pygen import Unsupported, Spec  # noqa: E402

RUNNER = "avocado_i2n/plugins/runner.py"


class _harmless_calls:
    """message expressions that are known to be pure, for the duration of one translation"""

    def __init__(self, *names):
        self.names = set(names)

    def __enter__(self):
        self.added = self.names - pygen.HARMLESS_FUNCS
        pygen.HARMLESS_FUNCS |= self.added

    def __exit__(self, *exc):
        pygen.HARMLESS_FUNCS -= self.added


# ---------------------------------------------------------------------------------------------------------------------
# the cut

FLAT_GUARD = '''
if node.is_flat():
    raise AssertionError(
        "Cannot run test nodes not using any test objects, here %s" % node
    )
'''
TASK_AWAIT = "await self.run_test_task(node)"
SLEEP_AWAIT = "await asyncio.sleep(30)"
FRAME_BEFORE = ["original_prefix", "run_times", "uid", "name", "node_result"]
FRAME_POLL = ["test_status"]


def _find_method(tree, cls, name, want_async):
    classes = [n for n in tree.body if isinstance(n, ast.ClassDef) and n.name == cls]
    if len(classes) != 1:
        raise Unsupported(f"{cls}: defined {len(classes)} times")
    hits = [n for n in classes[0].body if isinstance(n, (ast.FunctionDef, ast.AsyncFunctionDef)) and n.name == name]
    rebinds = [n for n in classes[0].body if isinstance(n, (ast.Assign, ast.AnnAssign))
               and any(isinstance(x, ast.Name) and x.id == name for x in ast.walk(n))]
    if len(hits) != 1 or rebinds:
        raise Unsupported(f"{cls}.{name}: defined {len(hits)} times / rebound {len(rebinds)} times")
    fn = hits[0]
    if isinstance(fn, ast.AsyncFunctionDef) != want_async:
        raise Unsupported(f"{cls}.{name}: is a {type(fn).__name__}")
    if fn.decorator_list:
        raise Unsupported(f"{cls}.{name}: decorated")
    return fn


def _strip_doc(body):
    body = list(body)
    if body and isinstance(body[0], ast.Expr) and isinstance(body[0].value, ast.Constant) \
            and isinstance(body[0].value.value, str):
        body = body[1:]
    return body


def _synth(name, params, body, like, ret=None):
    body = list(body)
    if ret is not None:
        value = ast.Name(id=ret[0], ctx=ast.Load()) if len(ret) == 1 else \
            ast.Tuple(elts=[ast.Name(id=r, ctx=ast.Load()) for r in ret], ctx=ast.Load())
        body.append(ast.Return(value=value))
    fn = ast.FunctionDef(name=name, args=ast.arguments(posonlyargs=[], args=[ast.arg(arg=p) for p in params], vararg=None,
                                                       kwonlyargs=[], kw_defaults=[], kwarg=None, defaults=[]),
                         body=body, decorator_list=[], returns=None, type_comment=None, type_params=[])
    fn.lineno, fn.col_offset = like.lineno, like.col_offset
    for n in ast.walk(fn):
        if not hasattr(n, "lineno") and isinstance(n, (ast.stmt, ast.expr)):
            n.lineno, n.col_offset = like.lineno, like.col_offset
    return ast.fix_missing_locations(fn)


def _stored(stmts):
    return {x.id for s in stmts for x in ast.walk(s) if isinstance(x, ast.Name) and isinstance(x.ctx, ast.Store)}


def _loaded(stmts):
    return {x.id for s in stmts for x in ast.walk(s) if isinstance(x, ast.Name) and isinstance(x.ctx, ast.Load)}


def _no(stmts, kinds, what, where):
    for s in stmts:
        for n in ast.walk(s):
            if isinstance(n, kinds):
                raise Unsupported(f"{where}:{getattr(n, 'lineno', '?')}: {type(n).__name__} in {what}")


def _is_await(stmt, src):
    return isinstance(stmt, ast.Expr) and isinstance(stmt.value, ast.Await) \
        and pygen.dump_stmts([stmt]) == pygen.norm_block(src)


def cut_run_test_node(path):
    """the segments of `TestRunner.run_test_node` (synthetic FunctionDefs over the source's own AST nodes) + what the
    skeleton needs (`status_timeout` default); refuses every shape but the expected one"""
    tree = ast.parse(open(path).read(), filename=path)
    where = "TestRunner.run_test_node"
    fn = _find_method(tree, "TestRunner", "run_test_node", True)
    a = fn.args
    if [x.arg for x in a.args] != ["self", "node", "status_timeout"] or a.vararg or a.kwarg or a.kwonlyargs or a.posonlyargs \
            or len(a.defaults) != 1 or not (isinstance(a.defaults[0], ast.Constant) and type(a.defaults[0].value) is int
                                            and a.defaults[0].value >= 1):
        raise Unsupported(f"{where}: parameters changed (self, node, status_timeout=<positive int> expected)")
    timeout = a.defaults[0].value
    body = _strip_doc(fn.body)
    if not body or pygen.dump_stmts(body[:1]) != pygen.norm_block(FLAT_GUARD):
        raise Unsupported(f"{where}: the flat-node guard in front changed (it is pinned: the models start behind it)")
    body = body[1:]
    awaits = [n for n in ast.walk(fn) if isinstance(n, ast.Await)]
    if len(awaits) != 2:
        raise Unsupported(f"{where}: {len(awaits)} awaits (two expected: the task and the sleep of the lookup loop)")
    at = [i for i, s in enumerate(body) if _is_await(s, TASK_AWAIT)]
    if len(at) != 1:
        raise Unsupported(f"{where}: `{TASK_AWAIT}` is not a top level statement any more")
    before, rest = body[:at[0]], body[at[0] + 1:]
    if not rest or not isinstance(rest[0], ast.For):
        raise Unsupported(f"{where}: the lookup loop does not follow the task await")
    loop, after = rest[0], rest[1:]
    if ast.unparse(loop.target) != "i" or ast.unparse(loop.iter) != "range(status_timeout)":
        raise Unsupported(f"{where}: lookup loop header `for {ast.unparse(loop.target)} in {ast.unparse(loop.iter)}`")
    if len(loop.body) != 1 or not isinstance(loop.body[0], ast.Try):
        raise Unsupported(f"{where}: the body of the lookup loop is not a single `try`")
    t = loop.body[0]
    if t.orelse or t.finalbody or len(t.handlers) != 1 or t.handlers[0].name is not None \
            or ast.unparse(t.handlers[0].type or ast.Constant(None)) != "StopIteration":
        raise Unsupported(f"{where}: the `try` of the lookup loop changed its shape (one `except StopIteration`, no "
                          "else / finally expected)")
    tb, hb = list(t.body), list(t.handlers[0].body)
    first = tb[0] if tb else None
    if not (isinstance(first, ast.Assign) and len(first.targets) == 1 and ast.unparse(first.targets[0]) == "test_result"
            and isinstance(first.value, ast.Call) and ast.unparse(first.value.func) == "next" and len(first.value.args) == 1
            and not first.value.keywords and isinstance(first.value.args[0], ast.GeneratorExp)):
        raise Unsupported(f"{where}: the `try` body does not start with `test_result = next(<generator>)`")
    if len(tb) < 2 or not isinstance(tb[-1], ast.Break):
        raise Unsupported(f"{where}: the `try` body does not end with `break`")
    found = tb[1:-1]
    jumps = (ast.Return, ast.Break, ast.Continue, ast.Raise, ast.Await, ast.Try, ast.For, ast.While, ast.Yield,
             ast.YieldFrom, ast.With)
    _no(found, jumps, "the found branch of a poll", where)
    # StopIteration must come from the lookup only
    for n in [x for s in found for x in ast.walk(s)]:
        if isinstance(n, ast.Call) and ast.unparse(n.func) in ("next", "iter"):
            raise Unsupported(f"{where}:{n.lineno}: a second `next` inside the `try` body")
    if not hb or not _is_await(hb[0], SLEEP_AWAIT):
        raise Unsupported(f"{where}: the handler does not start with `{SLEEP_AWAIT}`")
    miss = hb[1:]
    _no(miss, jumps, "the handler of a poll", where)
    _no(before, jumps, "the segment in front of the task await", where)
    _no(after, (ast.Break, ast.Continue, ast.Await, ast.Try, ast.For, ast.While, ast.Yield, ast.YieldFrom, ast.With),
        "the segment behind the loop", where)
    if not after or not pygen._terminates(after):
        raise Unsupported(f"{where}: the segment behind the loop does not end in a return")
    # the `else` of the loop: log calls only
    for s in loop.orelse:
        if not (isinstance(s, ast.Expr) and isinstance(s.value, ast.Call) and pygen._dotted(s.value.func) in LOGS):
            raise Unsupported(f"{where}:{s.lineno}: the `else` of the lookup loop does something (log calls only expected)")
    # the loop counter and the parameter `status_timeout` are read by log messages only, and never assigned
    every = before + [loop] + after
    logged = {id(x) for s in every for n in ast.walk(s)
              if isinstance(n, ast.Expr) and isinstance(n.value, ast.Call) and pygen._dotted(n.value.func) in LOGS
              for x in ast.walk(n)}
    for s in every:
        for x in ast.walk(s):
            if isinstance(x, ast.Name) and x.id in ("i", "status_timeout") and id(x) not in logged \
                    and x is not loop.target and not any(x is y for y in ast.walk(loop.iter)):
                raise Unsupported(f"{where}:{x.lineno}: {x.id!r} is used outside log messages")
    # frames: locals that live across a suspension point
    later = _loaded(found) | _loaded(miss) | _loaded(after) | _loaded([ast.Expr(first.value)])
    frame_a = [n for n in FRAME_BEFORE if n in _stored(before) and n in later]
    extra = sorted((_stored(before) & later) - set(FRAME_BEFORE))
    if frame_a != FRAME_BEFORE or extra:
        raise Unsupported(f"{where}: the locals alive at the task await are {frame_a + extra}, expected {FRAME_BEFORE}")
    poll_stores = (_stored(found) | _stored(miss) | {"test_result"})
    live = sorted(poll_stores & _loaded(after))
    if live != FRAME_POLL or not set(FRAME_POLL) <= _stored(found) or not set(FRAME_POLL) <= _stored(miss):
        raise Unsupported(f"{where}: the locals a poll hands to the code behind the loop are {live}, expected {FRAME_POLL} "
                          "(assigned by both branches of a poll)")
    if (_stored(after) | poll_stores) & set(FRAME_BEFORE):
        raise Unsupported(f"{where}: a local of the first segment is assigned again later")
    g = first.value.args[0]
    comp = ast.ListComp(elt=g.elt, generators=g.generators)
    segs = {
        "before": _synth("run_test_node_before", ["node"], before, fn, FRAME_BEFORE),
        "lookup": _synth("run_test_node_lookup", ["name", "uid"], [ast.Return(value=comp)], first),
        "found": _synth("run_test_node_found", ["name", "uid", "node_result"], [first] + found, first, FRAME_POLL),
        "miss": _synth("run_test_node_miss", [], miss, t.handlers[0], FRAME_POLL),
        "after": _synth("run_test_node_after", ["original_prefix", "run_times", "test_status"], after, after[0]),
    }
    return segs, pygen.dump_stmts([first]), timeout, pygen.module_constants(tree)


# ---------------------------------------------------------------------------------------------------------------------
# the specs

LOGS = {"logging.debug", "logging.info", "logging.warning", "logging.error"}

RUN_PRELUDE = [
    "/-- what the segments of `run_test_node` read and write: `node.results`, `self.job.result.tests`, `node.prefix` -/",
    "structure RSt where",
    "  results : List Result",
    "  job : List JobRes",
    "  pfx : String",
    "deriving Repr, DecidableEq",
    "",
    "abbrev M := StateT RSt (Except Err)",
    "def readSt {α : Type} (f : RSt → α) : M α := fun st => .ok (f st, st)",
    "def modSt (f : RSt → RSt) : M Unit := fun st => .ok ((), f st)",
    "/-- `node.results.remove(r)`: the first equal entry is removed, ValueError when there is none -/",
    "def removeM (r : Result) : M Unit := fun st =>",
    "  if st.results.contains r then .ok ((), { st with results := st.results.erase r }) else .error Err.removeMissing",
    "/-- `max(l, default=d)` -/",
    "def pyMaxDefault (l : List Nat) (d : Nat) : Nat :=",
    "  match l with",
    "  | [] => d",
    "  | t :: ts => ts.foldl max t",
    "/-- `test_result[\"status\"] = \"WARN\"` on the record the lookup returned (the first one with that name and uid): the",
    "dictionary is the element of `job.result.tests` itself -/",
    "def warnInPlace (name uid : String) : M Unit := modSt (fun st => { st with job := warnFirst name uid st.job })",
]

S_PREFIX = 'node.prefix = original_prefix + f"r{run_times}"'
S_PLACEHOLDER = 'node_result = {"name": name, "status": "UNKNOWN"}'
S_APPEND_PH = "node.results += [node_result]"
S_MAX_ALLOWED = '''
max_allowed = max(
    [
        float(r["time_elapsed"])
        for r in node.results
        if r["status"] == "PASS"
    ],
    default=duration,
)
'''
S_WARN_RULE = '''
if (
    test_result["status"] == "PASS"
    and float(duration) > 1.25 * max_allowed
):
    logging.warning(
        f"Test result {uid} was obtained but test took much longer ({duration}) than usual"
    )
    # TODO: could we replace with WARN before the status is announced to the status server?
    test_result["status"] = "WARN"
'''
S_COPY = "job_result = {key: value for key, value in test_result.items()}"
S_COPY_NAME = 'job_result["name"] = test_result["name"].name'
S_APPEND_RES = "node.results += [job_result]"
S_RESTORE = "node.prefix = original_prefix"
S_LOG_STATUS = 'logging.info(f"Finished running test with status {test_status.upper()}")'
S_LOG_TIMES = '''
if run_times > 0:
    logging.info(f"Finished running test {run_times + 1} times")
'''


def run_specs(first_stmt_dump):
    before = Spec(
        "genRunBefore", binders=[("nm", "String"), ("k", "Nat")], params={"node": None},
        ret=("tuple", ("str", "int", "str", "str", "Result")), monad="M",
        atoms={
            "node.prefix": ("readSt (·.pfx)", "str", "reads"),
            "node.shared_results": ("(List.replicate k ())", ("list", "Unit")),
            "node.id_test.uid": ("readSt (·.pfx)", "str", "reads"),
            "node.params['name']": ("nm", "str"),
            "node_result": ("node_result", "Result"),
        },
        stmts={
            S_PREFIX: 'modSt (fun st => { st with pfx := original_prefix ++ "r" ++ toString run_times.toNat })',
            S_PLACEHOLDER: 'let node_result : Result := { name := name, status := "UNKNOWN", time := none }',
            S_APPEND_PH: "modSt (fun st => { st with results := st.results ++ [node_result] })",
        },
        prelude=RUN_PRELUDE,
        doc="`run_test_node` from behind the flat-node guard up to `await self.run_test_task(node)`: `nm` = "
            "`node.params[\"name\"]`, `k` = `len(node.shared_results)` (only the length of that list is read); the value "
            "is the frame (original_prefix, run_times, uid, name, node_result) the later segments read")
    lookup = Spec(
        "genLookup", binders=[("tests", "List JobRes"), ("name", "String"), ("uid", "String")],
        params={"name": ("name", "str"), "uid": ("uid", "str")}, ret=("list", "JobRes"), monad="pure",
        atoms={"self.job.result.tests": ("tests", ("list", "JobRes")),
               "x['name'].name": ("x.name", "str"), "x['name'].uid": ("x.uid", "str")},
        doc="the generator inside `next(...)` of one poll as a list: the records of `job.result.tests` with that name and "
            "uid, in order (`next` takes the first; StopIteration when there is none)")
    found = Spec(
        "genPollFound", binders=[("name", "String"), ("uid", "String"), ("node_result", "Result"), ("x", "JobRes")],
        params={"name": ("name", "str"), "uid": ("uid", "str"), "node_result": ("node_result", "Result")},
        ret="str", monad="M",
        atoms={
            "node.results": ("readSt (·.results)", ("list", "Result"), "reads"),
            "test_result['time_elapsed']": ("test_result.time", "Nat"),
            "test_result['status']": ("test_result.status", "str"),
        },
        calls={"float(_1)": ("{1}", "Nat", "pure", ["Nat"]),
               "node.results.remove(_1)": ("removeM {1}", "unit", "action", ["Result"])},
        stmts={
            S_MAX_ALLOWED: "let max_allowed : Nat := pyMaxDefault (((← readSt (·.results)).filter (fun r => r.status == "
                           "\"PASS\")).map (fun r => r.time.getD 0)) duration",
            S_WARN_RULE: "if test_result.status == \"PASS\" && decide (4 * duration > 5 * max_allowed) then "
                         "test_result := { test_result with status := \"WARN\" }; warnInPlace name uid",
            S_COPY: "let mut job_result : Result := { name := \"\", status := test_result.status, time := some test_result.time }",
            S_COPY_NAME: "job_result := { job_result with name := test_result.name }",
            S_APPEND_RES: "modSt (fun st => { st with results := st.results ++ [job_result] })",
        },
        ignored_calls=LOGS, type_defaults={"Nat": "0"},
        doc="one poll of the lookup loop when `next(...)` returned the record `x` (the `try` body up to its `break`): "
            "duration rule, the result appended to `node.results`, the placeholder removed; the value is `test_status`")
    # `test_result = next(<generator>)` stands for `test_result := x` (x = what `next` returned; the generator itself is
    # translated as genLookup); the key is the statement as it is in the source
    found.stmts[first_stmt_dump] = "let mut test_result : JobRes := x"
    miss = Spec("genPollMiss", binders=[], params={}, ret="str", monad="pure", ignored_calls=LOGS,
                doc="one poll of the lookup loop when `next(...)` raised StopIteration, behind `await asyncio.sleep(30)`: "
                    "the value is `test_status`")
    after = Spec(
        "genRunAfter", binders=[("original_prefix", "String"), ("test_status", "String")],
        params={"original_prefix": ("original_prefix", "str"), "run_times": None, "test_status": ("test_status", "str")},
        ret="bool", monad="M",
        stmts={S_RESTORE: "modSt (fun st => { st with pfx := original_prefix })", S_LOG_STATUS: "pure ()",
               S_LOG_TIMES: "pure ()"},
        ignored_calls=LOGS,
        doc="`run_test_node` behind the lookup loop: the prefix is restored, the value is the returned Boolean")
    return before, lookup, found, miss, after


RUN_SKELETON = [
    "/-- `for i in range(status_timeout)`: the default of the parameter -/",
    "def genStatusTimeout : Nat := {timeout}",
    "",
    "/-- ONE iteration of the lookup loop up to its next suspension or `break`.  NOT translated but matched structurally by",
    "harness/pygen_pxrunner.py (`try: test_result = next(<genLookup>); <genPollFound>; break` / `except StopIteration: await",
    "asyncio.sleep(30); <genPollMiss>`): `some st` = the loop was left by `break` with `test_status = st`, `none` = the",
    "coroutine is suspended in the sleep -/",
    "def genPoll (name uid : String) (node_result : Result) : M (Option String) := do",
    "  match genLookup (← readSt (·.job)) name uid with",
    "  | x :: _ => return some (← genPollFound name uid node_result x)",
    "  | [] => return none",
    "",
    "/-- the lookup loop from its `i`-th iteration on; `env j` = the records other coroutines append to `job.result.tests`",
    "while this one sleeps for the `j`-th time (j = 1 …).  After `status_timeout` misses the loop ends through its `else`",
    "(a log line) with the `test_status` of the last handler -/",
    "def genPolls (env : Nat → List JobRes) (name uid : String) (node_result : Result) : Nat → Nat → M String",
    "  | _, 0 => pure genPollMiss",
    "  | i, n + 1 => do",
    "    match (← genPoll name uid node_result) with",
    "    | some st => pure st",
    "    | none =>",
    "      modSt (fun st => { st with job := st.job ++ env (i + 1) })",
    "      genPolls env name uid node_result (i + 1) n",
    "",
    "/-- the part of `run_test_node` behind `await self.run_test_task(node)`, given the frame of the first segment -/",
    "def genRunResume (env : Nat → List JobRes) (fr : String × Int × String × String × Result) : M Bool := do",
    "  let st ← genPolls env fr.2.2.2.1 fr.2.2.1 fr.2.2.2.2 0 genStatusTimeout",
    "  genRunAfter fr.1 st",
    "",
    "/-- `run_test_node` of a node that is not flat: `env 0` = what is appended to `job.result.tests` while the task runs -/",
    "def genRunTestNode (env : Nat → List JobRes) (nm : String) (k : Nat) : M Bool := do",
    "  let fr ← genRunBefore nm k",
    "  modSt (fun st => { st with job := st.job ++ env 0 })",
    "  genRunResume env fr",
]


# ---------------------------------------------------------------------------------------------------------------------
# all_results_ok

OK_INIT = "shared_status = True"
OK_TEST = "if not shared_status:\n    return False\n"
OK_END = "return True"

OK_PRELUDE = [
    "/-- `STATUSES_MAPPING[status]` (avocado.core.teststatus; the mapping itself is `Extracted.Rules.statusesMapping`) -/",
    "def statusOkM (s : String) : Except Err Bool :=",
    "  match statusOk s with",
    "  | some b => pure b",
    "  | none => throw Err.keyError",
]

OK_SKELETON = [
    "/-- the loop of `all_results_ok` from the test `test` on.  NOT translated but matched structurally by",
    "harness/pygen_pxrunner.py: `shared_status = True` / `for test in self.job.result.tests:` `shared_status &= <genAnyOk>`;",
    "`if not shared_status: return False` / `return True` (`&=` evaluates its right side whatever the flag is) -/",
    "def genAllOkLoop (tests : List JobRes) : Bool → List JobRes → Except Err Bool",
    "  | _, [] => pure true",
    "  | shared, test :: rest => do",
    "    let shared' := shared && (← genAnyOk tests test)",
    "    if !shared' then return false",
    "    genAllOkLoop tests shared' rest",
    "",
    "def genAllResultsOk (tests : List JobRes) : Except Err Bool := genAllOkLoop tests true tests",
]


def cut_all_results_ok(path):
    tree = ast.parse(open(path).read(), filename=path)
    where = "TestRunner.all_results_ok"
    fn = _find_method(tree, "TestRunner", "all_results_ok", False)
    if [x.arg for x in fn.args.args] != ["self"] or fn.args.vararg or fn.args.kwarg or fn.args.kwonlyargs:
        raise Unsupported(f"{where}: parameters changed")
    imports = [n for n in tree.body if isinstance(n, ast.ImportFrom) and any(al.name == "STATUSES_MAPPING" for al in n.names)]
    rebound = [x for x in ast.walk(tree) if isinstance(x, ast.Name) and x.id == "STATUSES_MAPPING"
               and isinstance(x.ctx, (ast.Store, ast.Del))]
    if len(imports) != 1 or imports[0].module != "avocado.core.teststatus" or rebound \
            or any(al.asname for al in imports[0].names if al.name == "STATUSES_MAPPING"):
        raise Unsupported(f"{where}: STATUSES_MAPPING is not (only) avocado.core.teststatus.STATUSES_MAPPING")
    body = _strip_doc(fn.body)
    if len(body) != 3 or pygen.dump_stmts(body[:1]) != pygen.norm_block(OK_INIT) \
            or pygen.dump_stmts(body[2:]) != pygen.norm_block(OK_END) or not isinstance(body[1], ast.For):
        raise Unsupported(f"{where}: not `shared_status = True; for …; return True` any more")
    loop = body[1]
    if loop.orelse or ast.unparse(loop.target) != "test" or ast.unparse(loop.iter) != "self.job.result.tests":
        raise Unsupported(f"{where}: loop header `for {ast.unparse(loop.target)} in {ast.unparse(loop.iter)}`")
    lb = loop.body
    if len(lb) != 2 or pygen.dump_stmts(lb[1:]) != pygen.norm_block(OK_TEST) or not isinstance(lb[0], ast.AugAssign) \
            or not isinstance(lb[0].op, ast.BitAnd) or ast.unparse(lb[0].target) != "shared_status":
        raise Unsupported(f"{where}: the loop body is not `shared_status &= …; if not shared_status: return False`")
    return _synth("all_results_ok_any", ["test"], [ast.Return(value=lb[0].value)], lb[0]), pygen.module_constants(tree)


def ok_spec():
    return Spec(
        "genAnyOk", binders=[("tests", "List JobRes"), ("test", "JobRes")], params={"test": None}, ret="bool",
        monad="except",
        atoms={"self.job.result.tests": ("tests", ("list", "JobRes")),
               "t['name'].name": ("t.name", "str"), "test['name'].name": ("test.name", "str"),
               "STATUSES_MAPPING[t['status']]": ("statusOkM t.status", "bool", "raises")},
        prelude=OK_PRELUDE,
        doc="the right side of `shared_status &= any(…)` in the loop of `TestRunner.all_results_ok`: some record with the "
            "name of `test` has an acceptable status (`any` stops at the first one; an unmapped status met before is Python's "
            "KeyError)")


# ---------------------------------------------------------------------------------------------------------------------

def runner_source(path=None):
    path = path or pygen._src("PYGEN_RUNNER_SRC", RUNNER)
    segs, first_dump, timeout, consts = cut_run_test_node(path)
    before, lookup, found, miss, after = run_specs(first_dump)
    defs = [pygen.translate(segs["before"], before, consts),
            pygen.translate(segs["lookup"], lookup, consts),
            pygen.translate(segs["found"], found, consts),
            pygen.translate(segs["miss"], miss, consts)]
    with _harmless_calls("test_status.upper"):
        defs.append(pygen.translate(segs["after"], after, consts))
    defs.append([l.replace("{timeout}", str(timeout)) for l in RUN_SKELETON])
    anyfn, consts2 = cut_all_results_ok(path)
    defs.append(pygen.translate(anyfn, ok_spec(), consts2))
    defs.append(OK_SKELETON)
    return pygen.render_file("harness/pygen_pxrunner.py:extract_runner (called by harness/props/c10.py:extract) from "
                             "avocado_i2n/plugins/runner.py", ["I2N.Model.Rules"], "I2N.Extracted.GenRunner", ["I2N.Rules"],
                             defs)


def extract_runner(ctx=None):
    return pygen.write_if_changed(pygen._lean_path("GenRunner.lean"), runner_source())


if __name__ == "__main__":
    print(runner_source(sys.argv[1] if len(sys.argv) > 1 else None))
