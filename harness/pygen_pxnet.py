"""pygen_pxnet — translator tie (see harness/pygen.py) for avocado_i2n/vmnet/netconfig.py (engine E4 `net`, C18):

    VMNetconfig.get_allocatable_address   -> genAllocTest / genAllocFound / genAllocate      (allocate)
    VMNetconfig.has_interface             -> genHasInterface                                  (hasInterface)
    VMNetconfig.can_add_interface         -> genCanAdd                                        (canAdd)
    VMNetconfig.add_interface             -> genAddInterface                                  (addInterface)
    VMNetconfig.translate_address         -> genTranslate                                     (translate)
    VMNetconfig.mask_bit (getter)         -> genMaskBit                                       (maskBit)
    VMNetconfig.validate                  -> genValidateHost / genValidateAddrs / genValidateIface / genValidate
                                                                                              (validate)

and for avocado_i2n/vmnet/network.py (generated file lean/I2N/Extracted/GenNetwork.lean):

    VMNetwork.reattach_interface          -> genReattachProxySelected / genReattachAttach / genReattachProxyPart /
                                             genReattachProxy / genReattach                          (reattach)
    VMNetwork.integrate_node              -> genIntegrateTest / genIntegrateFound / genIntegrateNew / genFindNc /
                                             genPlace / genPlaceAll / genIntegrateNode               (integrateNode)

`extract_net(ctx)` regenerates lean/I2N/Extracted/GenNet.lean and GenNetwork.lean from /repo's CURRENT source
(PYGEN_NETCONFIG_SRC / PYGEN_NETWORK_SRC name another file for mutation sanity runs); it is called by `extract(ctx)` of
harness/props/c18.py.  The equality theorems `allocate_matches_source`, …, `validate_matches_source`,
`reattach_matches_source`, `integrateNode_matches_source` are at the end of lean/I2N/Props/C18.lean.

HOW ADDRESSES ARE REPRESENTED (the atom table; trusted, see the docstring of pygen.py).  The hand model
(lean/I2N/Model/Net.lean) has an IPv4 address, a dotted string and a netmask as ONE natural number.  The generated
definitions use Python's integers (`Int`: the difference `int(source_ip) - int(net_ip)` may be negative), and:

  ipaddress.IPv4Address(<dotted string of the model>)      the number (pure: parameters and attributes of the model
  ipaddress.IPv4Address(str(self.net_ip))                  hold valid dotted strings)
  int(<address>), str(<address>), str(<integer>)           the number itself
  ipaddress.IPv4Address(<integer expression>)              `ipv4 n`: AddressValueError (`Err.valueError`) unless
                                                           0 <= n < 2^32, else n.  `address + integer` is
                                                           IPv4Address.__add__ = IPv4Address(int(address) + integer):
                                                           translated as the integer sum, the range check is made by
                                                           the enclosing `ipaddress.IPv4Address(str(·))` (in this
                                                           module every such sum is wrapped in one; the same exception)
  ipaddress.ip_interface("%s/%s" % (x, self.mask_bit))     the pair (x, c.bits);  `.network` the same pair,
  <iface>.network.network_address                          `networkIp x bits` (the hand model's `_get_network_ip`),
  <iface> in <own>.network                                 `networkIp x bits == networkIp own bits` (the hand model's
                                                           `inNet`) — the library is NOT re-modelled, only named
  self._get_network_ip(interface.ip, self.mask_bit)        `networkIp f.ip c.bits`
  self.mask_bit                                            `c.bits` = `maskBit c.netmask` (tied separately: genMaskBit)
  self.range (iterated)                                    the keys in insertion order; `self.range[val]` the lookup
  self.interfaces                                          `c.ifs`: address |-> interface id (object identity)
  self.netmask.split(".")                                  the four octets of the number, most significant first
  bin(int(octet))[2:].zfill(w)                             `binZfill w octet`: binary digits, most significant first,
                                                           left-padded with "0" to width w (defined for every number)
  s.rstrip("0")                                            `rstripZeros s`

NEVER pinned: the order of the tests, the comparisons (`==`, `!=`, `and`), the subtraction / addition of
`translate_address`, the `zfill` width, the first-free search and which exception ends it.

Five functions are outside pygen's statement subset and are CUT by this module (mechanically, failing closed, like
harness/pygen_pxcmd.py): the for/else of `get_allocatable_address`, the getter half of `mask_bit`, the loops / the
address dictionary / the asserts of `validate` (section (5)), `reattach_interface` (assigns to its parameters; section
(6)) and the nested for/else of `integrate_node` (section (7)); the cut pieces are handed to `pygen.translate` as synthetic functions whose bodies are the very AST nodes
of the source, and a fixed Lean skeleton (printed in the generated file) puts them together.
"""
import ast
import os
import sys

HERE = os.path.dirname(os.path.abspath(__file__))
if HERE not in sys.path:
    sys.path.insert(0, HERE)
import pygen  # noqa: E402
from pygen import Unsupported, Spec  # noqa: E402

NETCONFIG = "avocado_i2n/vmnet/netconfig.py"

ERR = {"IndexError": "Err.indexError", "KeyError": "Err.keyError", "ValueError": "Err.valueError",
       "exceptions.TestError": "Err.testError", "AssertionError": "Err.assertion"}

IFACE = "ipaddress.ip_interface('%s/%s' % ({0}, self.mask_bit))"


# ---------------------------------------------------------------------------------------------------------------------
# helpers for the cuts

def _class_function(tree, cls, name, rebind=None):
    """the FunctionDef `cls.name`; `rebind` = source of the ONE later class level assignment to the same name that is
    known (`mask_bit = property(fget=mask_bit, fset=mask_bit)`), None = pygen.find_function decides"""
    if rebind is None:
        return pygen.find_function(tree, f"{cls}.{name}")
    classes = [n for n in tree.body if isinstance(n, ast.ClassDef) and n.name == cls]
    if len(classes) != 1:
        raise Unsupported(f"{cls}: defined {len(classes)} times")
    body = classes[0].body
    defs = [n for n in body if isinstance(n, (ast.FunctionDef, ast.AsyncFunctionDef, ast.ClassDef)) and n.name == name]
    binds = [n for n in body if isinstance(n, (ast.Assign, ast.AnnAssign, ast.AugAssign))
             and any(isinstance(x, ast.Name) and x.id == name
                     for t in (n.targets if isinstance(n, ast.Assign) else [n.target]) for x in ast.walk(t))]
    if len(defs) != 1 or not isinstance(defs[0], ast.FunctionDef) or defs[0].decorator_list:
        raise Unsupported(f"{cls}.{name}: defined {len(defs)} times / decorated")
    if len(binds) != 1 or pygen.dump_stmts(binds) != pygen.norm_block(rebind) or body.index(binds[0]) < body.index(defs[0]):
        raise Unsupported(f"{cls}.{name}: the class rebinds {name!r} other than by `{rebind}`")
    return defs[0]


def _body(fn):
    body = list(fn.body)
    if body and isinstance(body[0], ast.Expr) and isinstance(body[0].value, ast.Constant) \
            and isinstance(body[0].value.value, str):
        body = body[1:]
    return body


def _synth(name, args, body, like):
    fn = ast.FunctionDef(name=name, args=ast.arguments(posonlyargs=[], args=[ast.arg(arg=a) for a in args], vararg=None,
                                                       kwonlyargs=[], kw_defaults=[], kwarg=None, defaults=[]),
                         body=body, decorator_list=[], returns=None, type_comment=None, type_params=[])
    fn.lineno, fn.col_offset = like.lineno, like.col_offset
    return ast.fix_missing_locations(fn)


def _args(fn, expected):
    a = fn.args
    got = [x.arg for x in a.args]
    if got != expected or a.vararg or a.kwarg or a.kwonlyargs or a.posonlyargs:
        raise Unsupported(f"{fn.name}: parameters {got}, expected {expected}")


def _raise_term(s, where):
    """`raise Cls(<message>)` -> the Lean error; the message may only read (names, attributes, constants, `%`, len)"""
    e = getattr(s, "exc", None)
    if not isinstance(s, ast.Raise) or s.cause is not None or not isinstance(e, ast.Call) or len(e.args) != 1 or e.keywords:
        raise Unsupported(f"{where}: `{ast.unparse(s)[:80]}` (only `raise Cls(message)`)")
    cls = pygen._dotted(e.func)
    if cls not in ERR:
        raise Unsupported(f"{where}: exception class {cls!r} is not declared")
    for n in ast.walk(e.args[0]):
        if isinstance(n, ast.Call) and pygen._dotted(n.func) not in ("len", "str"):
            raise Unsupported(f"{where}: the message of `{ast.unparse(s)[:60]}` calls {ast.unparse(n.func)}")
        if isinstance(n, (ast.NamedExpr, ast.Await, ast.Yield, ast.YieldFrom, ast.Lambda)):
            raise Unsupported(f"{where}: the message of `{ast.unparse(s)[:60]}` is not a plain message")
    return ERR[cls]


def _no_jumps(stmts, where, allow_return=False):
    for st in stmts:
        for n in ast.walk(st):
            if isinstance(n, (ast.Break, ast.Continue, ast.For, ast.While, ast.Try, ast.With, ast.Yield, ast.Await)) \
                    or (isinstance(n, ast.Return) and not allow_return):
                raise Unsupported(f"{where}: {type(n).__name__} inside a cut piece")


# ---------------------------------------------------------------------------------------------------------------------
# the prelude of the generated file: the atom table in Lean

PRELUDE = [
    "/-- `ipaddress.IPv4Address(n)` for an integer `n` (also the check of `address + n`): AddressValueError, a",
    "ValueError, unless `0 ≤ n < 2^32` -/",
    "def ipv4 (n : Int) : Except Err Int := if n < 0 ∨ n ≥ (ipSpace : Int) then .error .valueError else .ok n",
    "",
    "/-- `for val in self.range`: the keys of the dictionary in insertion order -/",
    "def rangeKeys (c : Netconfig) : List Int := c.range.map (fun p => Int.ofNat p.1)",
    "/-- `self.range[val] is False` -/",
    "def rangeFree (c : Netconfig) (val : Int) : Bool := alookup val.toNat c.range == some false",
    "/-- the state of a method of `VMNetconfig` that updates `self` is the netconfig; an exception ends the call -/",
    "abbrev NcM := StateT Netconfig (Except Err)",
    "def readNc {α : Type} (f : Netconfig → α) : NcM α := fun c => .ok (f c, c)",
    "/-- `self.range[val] = True` -/",
    "def markTaken (val : Int) : NcM Unit := fun c => .ok ((), { c with range := aset val.toNat true c.range })",
    "",
    "/-- `self.interfaces[ip]` (KeyError when missing) -/",
    "def ifsGet (c : Netconfig) (ip : Nat) : Except Err Nat :=",
    "  match alookup ip c.ifs with | some i => .ok i | none => .error .keyError",
    "",
    "/-- the state of `add_interface` / `validate` is the whole network (the interface objects are shared) -/",
    "abbrev NetM := StateT Net (Except Err)",
    "/-- `self.interfaces[interface.ip] = interface` in netconfig `n` -/",
    "def storeIface (n i : Nat) : NetM Unit := fun s =>",
    "  .ok ((), s.setNc n (fun c => { c with ifs := aset (s.iface i).ip i c.ifs }))",
    "/-- `self.interfaces[interface.ip].netconfig = self`: the netconfig reference of the object FOUND under the",
    "address of `interface` (KeyError when there is none) -/",
    "def setStoredNetconfig (n i : Nat) : NetM Unit := fun s =>",
    "  match alookup (s.iface i).ip (s.nc n).ifs with",
    "  | some j => .ok ((), s.setIface j (fun f => { f with nc := some n }))",
    "  | none => .error .keyError",
    "",
    "/-- `ipaddress.ip_interface(\"%s/%s\" % (x, self.mask_bit))` is the pair (x, prefix length); `.network` the same pair -/",
    "abbrev IpIface := Nat × Nat",
    "abbrev IpNetwork := Nat × Nat",
    "",
    "/-- `self.netmask.split(\".\")`: the four octets of the dotted string, most significant first -/",
    "def octets (m : Nat) : List Nat := [m / 2 ^ 24 % 256, m / 2 ^ 16 % 256, m / 2 ^ 8 % 256, m % 256]",
    "/-- the binary digits of `n`, least significant first, at most `fuel` of them (`[false]` for 0) -/",
    "def binDigitsLE : Nat → Nat → List Bool",
    "  | 0, _ => []",
    "  | fuel + 1, n => if n < 2 then [n == 1] else (n % 2 == 1) :: binDigitsLE fuel (n / 2)",
    "/-- `bin(n)[2:].zfill(w)` as a list of bits (`true` = \"1\"), most significant first -/",
    "def binZfill (w : Int) (n : Nat) : List Bool :=",
    "  let d := (binDigitsLE (n + 1) n).reverse",
    "  List.replicate (w.toNat - d.length) false ++ d",
    "/-- `s.rstrip(\"0\")` -/",
    "def rstripZeros (s : List Bool) : List Bool := (s.reverse.dropWhile (fun b => !b)).reverse",
]

BITS = ("list", "Bit")


# ---------------------------------------------------------------------------------------------------------------------
# (1) get_allocatable_address

ALLOC_DOC = ("`VMNetconfig.get_allocatable_address` of avocado_i2n/vmnet/netconfig.py, cut at its for/else by "
             "harness/pygen_pxnet.py: ")


def alloc_defs(tree, consts):
    fn = _class_function(tree, "VMNetconfig", "get_allocatable_address")
    _args(fn, ["self"])
    body = _body(fn)
    where = f"get_allocatable_address:{fn.lineno}"
    if not body or not isinstance(body[0], ast.For):
        raise Unsupported(f"{where}: the function no longer starts with its search loop")
    loop, rest = body[0], body[1:]
    if ast.unparse(loop.target) != "val" or ast.unparse(loop.iter) != "self.range":
        raise Unsupported(f"{where}: the loop is no longer `for val in self.range`")
    if len(loop.body) != 1 or not isinstance(loop.body[0], ast.If) or loop.body[0].orelse \
            or len(loop.body[0].body) < 2 or not isinstance(loop.body[0].body[-1], ast.Break):
        raise Unsupported(f"{where}: the loop body is no longer `if <test>: <statements>; break`")
    test, found = loop.body[0].test, loop.body[0].body[:-1]
    _no_jumps(found, where)
    _no_jumps(rest, where, allow_return=True)
    if len(loop.orelse) != 1:
        raise Unsupported(f"{where}: the `else` of the loop is no longer one `raise`")
    exhausted = _raise_term(loop.orelse[0], where)
    for n in ast.walk(test):
        if isinstance(n, (ast.Call, ast.NamedExpr)):
            raise Unsupported(f"{where}: the loop test calls something (it must be a pure test)")
    test_fn = _synth("get_allocatable_address_test", ["val"], [ast.Return(value=test)], loop)
    found_fn = _synth("get_allocatable_address_found", ["val"], found + rest, loop)
    test_spec = Spec("genAllocTest", binders=[("c", "Netconfig"), ("val", "Int")], params={"val": ("val", "int")},
                     ret="bool", monad="pure", atoms={"self.range[val] is False": ("(rangeFree c val)", "bool")},
                     doc=ALLOC_DOC + "the test of `for val in self.range: if <test>:`")
    found_spec = Spec(
        "genAllocFound", binders=[("val", "Int")], params={"val": ("val", "int")}, ret="int", monad="NcM",
        atoms={"ipaddress.IPv4Address(str(self.net_ip))": ("readNc (fun c => Int.ofNat c.netIp)", "int", "reads")},
        calls={"str(_1)": ("{1}", "int", "pure", ("int",)),
               "ipaddress.IPv4Address(_1)": ("ipv4 {1}", "int", "raises", ("int",))},
        stmts={"self.range[val] = True": "markTaken val"},
        doc=ALLOC_DOC + "the statements of the `if` in front of its `break`, followed by the statements behind the loop "
                        "(what Python executes for the first `val` that passes the test)")
    d1 = pygen.translate(test_fn, test_spec, consts)
    d2 = pygen.translate(found_fn, found_spec, consts)
    skeleton = [
        "/-- the for/else of `get_allocatable_address` (matched structurally: `for val in self.range: if <genAllocTest>:",
        "<…>; break` `else: raise " + ast.unparse(loop.orelse[0].exc.func) + "(…)`, then the rest of the function): the first key that passes the",
        "test runs `genAllocFound`; when none does, the `else` of the loop raises -/",
        "def genAllocate : NcM Int := fun c =>",
        "  match (rangeKeys c).find? (fun val => genAllocTest c val) with",
        "  | some val => genAllocFound val c",
        f"  | none => .error {exhausted}",
    ]
    return [d1, d2, skeleton]


# ---------------------------------------------------------------------------------------------------------------------
# (2) has_interface / can_add_interface / add_interface

HAS_IF_ERR = '''
raise IndexError(
    "Interface %s already present in the "
    "network %s" % (interface.ip, self.net_ip)
)
'''
MASK_ERR = '''
raise IndexError(
    "Interface %s has different netmask %s from the "
    "network %s (%s)"
    % (interface.ip, interface.params["netmask"], self.net_ip, self.netmask)
)
'''


def has_spec():
    return Spec(
        "genHasInterface", binders=[("c", "Netconfig"), ("i", "Nat"), ("f", "Iface")],
        params={"interface": ("i", "Nat")}, ret="bool", monad="except",
        atoms={"interface.ip in self.interfaces.keys()": ("(hasKey f.ip c.ifs)", "bool"),
               "self.interfaces[interface.ip]": ("ifsGet c f.ip", "Nat", "raises")},
        type_defaults={"Nat": "0"},
        doc="`VMNetconfig.has_interface` of avocado_i2n/vmnet/netconfig.py; `i` = the interface object (its id), `f` = "
            "its attributes; `==` on interface objects is identity")


def canadd_spec():
    return Spec(
        "genCanAdd", binders=[("c", "Netconfig"), ("i", "Nat"), ("f", "Iface")],
        params={"interface": ("i", "Nat")}, ret="bool", monad="except",
        atoms={"self._get_network_ip(interface.ip, self.mask_bit)": ("(networkIp f.ip c.bits)", "Nat"),
               "self.net_ip": ("c.netIp", "Nat"),
               "interface.params['netmask']": ("f.netmask", "Nat"),
               "self.netmask": ("c.netmask", "Nat")},
        calls={"self.has_interface(_1)": ("genHasInterface c i f", "bool", "raises", ("_",))},
        stmts={HAS_IF_ERR: "throw Err.indexError", MASK_ERR: "throw Err.indexError"},
        type_defaults={"Nat": "0"},
        doc="`VMNetconfig.can_add_interface` of avocado_i2n/vmnet/netconfig.py (the two `raise IndexError(…)` statements "
            "are pinned verbatim)")


def addif_spec():
    return Spec(
        "genAddInterface", binders=[("n", "Nat"), ("i", "Nat")], params={"interface": None}, ret="unit", monad="NetM",
        stmts={"self.interfaces[interface.ip] = interface": "storeIface n i",
               "self.interfaces[interface.ip].netconfig = self": "setStoredNetconfig n i"},
        calls={"self.validate()": ("validate_ n", "unit", "action")},
        prelude=["/-- `self.validate()` on netconfig `n` (the hand model's `validate`; its own tie: genValidate) -/",
                 "def validate_ (n : Nat) : NetM Unit := fun s => match validate s n with | .error e => .error e | .ok () => .ok ((), s)"],
        doc="`VMNetconfig.add_interface` of avocado_i2n/vmnet/netconfig.py on netconfig object `n` for interface object "
            "`i`: three statements, each an action on the network state")


# ---------------------------------------------------------------------------------------------------------------------
# (3) translate_address

def translate_spec():
    return Spec(
        "genTranslate", binders=[("c", "Netconfig"), ("ip", "Nat"), ("nat_ip", "Nat")],
        params={"ip": None, "nat_ip": None}, ret="int", monad="except",
        atoms={"ipaddress.IPv4Address(ip)": ("(Int.ofNat ip)", "int"),
               "ipaddress.IPv4Address(str(self.net_ip))": ("(Int.ofNat c.netIp)", "int"),
               IFACE.format("nat_ip"): ("(nat_ip, c.bits)", "IpIface")},
        calls={"int(_1)": ("{1}", "int", "pure", ("int",)),
               "str(_1)": ("{1}", "int", "pure", ("int",)),
               "ipaddress.IPv4Address(_1)": ("ipv4 {1}", "int", "raises", ("int",))},
        fields={("IpIface", ".network"): ("{0}", "IpNetwork"),
                ("IpNetwork", ".network_address"): ("(Int.ofNat (networkIp {0}.1 {0}.2))", "int")},
        doc="`VMNetconfig.translate_address` of avocado_i2n/vmnet/netconfig.py; the subtraction and the addition are "
            "Python's integer arithmetic, `ipv4` is the range check of `ipaddress.IPv4Address(<integer>)`")


# ---------------------------------------------------------------------------------------------------------------------
# (4) mask_bit (getter)

MASK_BIT_REBIND = "mask_bit = property(fget=mask_bit, fset=mask_bit)"
MASK_BIT_SETTER = '''
interface = ipaddress.ip_interface("%s/%s" % (self.net_ip, value))
self.netmask = str(interface.network.netmask)
return None
'''
MASK_BIT_NONE = '''
if self.netmask is None:
    return None
'''


def maskbit_defs(tree, consts):
    fn = _class_function(tree, "VMNetconfig", "mask_bit", rebind=MASK_BIT_REBIND)
    _args(fn, ["self", "value"])
    if len(fn.args.defaults) != 1 or ast.unparse(fn.args.defaults[0]) != "None":
        raise Unsupported("mask_bit: the default of `value` is no longer None (the getter is the call without a value)")
    body = _body(fn)
    where = f"mask_bit:{fn.lineno}"
    if len(body) != 1 or not isinstance(body[0], ast.If) or ast.unparse(body[0].test) != "value is not None" \
            or not body[0].orelse:
        raise Unsupported(f"{where}: the function is no longer `if value is not None: <setter> else: <getter>`")
    if pygen.dump_stmts(body[0].body) != pygen.norm_block(MASK_BIT_SETTER):
        raise Unsupported(f"{where}: the setter half changed (it is pinned: the model's `netmaskOfBits`)")
    getter = body[0].orelse
    if pygen.dump_stmts(getter[:1]) != pygen.norm_block(MASK_BIT_NONE):
        raise Unsupported(f"{where}: the getter no longer starts with `if self.netmask is None: return None` (pinned: a "
                          "netconfig of the model always has a netmask)")
    getter_fn = _synth("mask_bit_getter", [], getter[1:], body[0])
    spec = Spec(
        "genMaskBit", binders=[("m", "Nat")], params={}, ret="int", monad="pure",
        atoms={"self.netmask.split('.')": ("(octets m)", ("list", "Nat")),
               "''": ("([] : List Bool)", ("list", "Bool"))},
        calls={"bin(int(octet))[2:].zfill(_1)": ("(binZfill {1} octet)", ("list", "Bool"), "pure", ("int",)),
               "str(_1)": ("{1}", "int", "pure", ("int",))},
        fields={(("list", "Bool"), ".rstrip('0')"): ("(rstripZeros {0})", ("list", "Bool"))},
        doc="the getter half of `VMNetconfig.mask_bit` of avocado_i2n/vmnet/netconfig.py (the `else` of `if value is not "
            "None`, behind the pinned `if self.netmask is None: return None`); `m` = the netmask `self.netmask`, a "
            "string of \"0\"/\"1\" is a list of bits")
    return [pygen.translate(getter_fn, spec, consts)]


# ---------------------------------------------------------------------------------------------------------------------
# (5) validate
#
# Outside pygen's statement subset (a dictionary of address objects, `assert`, two loops that raise), so it is CUT and
# REWRITTEN mechanically (every rewrite is checked and fails closed):
#
#   part 1   the statements in front of the first loop, which must start with `addresses = {}` and end with the pinned
#            `own = ipaddress.ip_interface(...)`: the dictionary is only read by the first loop, in insertion order, and
#            its keys are DISTINCT string constants (checked), so it is the list of its values:
#            `addresses = {}` -> `addresses = []`, `addresses["k"] = e` -> `addresses += [e]`, `return addresses` added;
#            `assert self.ip_start is not None` / `ip_end` are pinned: they evaluate the property (AddressValueError)
#   loop 1   `for key in addresses.keys(): <body>`: the body is translated as a function of the value `addresses[key]`
#   loop 2   `for interface in self.interfaces.values(): <body>`: the body is translated
#   in both bodies `assert X` is rewritten to `if not X: raise AssertionError("assert")` (Python without -O) and
#   `a in b` / `a not in b` with `b` = `own.network` to `b.__contains__(a)` / `not b.__contains__(a)`; the two
#   `raise exceptions.TestError(...)` statements are pinned verbatim (class + message)

VALIDATE_PRELUDE = [
    "/-- `<iface> in own.network` (`IPv4Network.__contains__` of an address object: `ip & netmask == network_address`;",
    "the hand model's `inNet`) -/",
    "def inNetwork (c : Netconfig) (a : IpIface) : Bool := inNet c a.1",
    "/-- `ipaddress.ip_interface(\"%s/%s\" % (self.ip_start, self.mask_bit))`: the property `ip_start` is",
    "`str(IPv4Address(self.net_ip) + minint)` (AddressValueError when it leaves the address space); `minint` is the hand",
    "model's `minOff` (NOT tied here) -/",
    "def ipStartIface (c : Netconfig) : Except Err IpIface := do",
    "  let a ← ipv4 (Int.ofNat c.netIp + Int.ofNat (minOff c.range)); pure (a.toNat, c.bits)",
    "def ipEndIface (c : Netconfig) : Except Err IpIface := do",
    "  let a ← ipv4 (Int.ofNat c.netIp + Int.ofNat (maxOff c.range)); pure (a.toNat, c.bits)",
    "/-- `interface.netconfig` / `self` as object references -/",
    "abbrev NcRef := Option Nat",
]

VALIDATE_HOST_TEST = "self.host_ip is not None and self.host_ip != ''"
VALIDATE_OWN = "own = " + IFACE.format("self.net_ip")
VALIDATE_RAISE_ADDR = """
raise exceptions.TestError('The predefined %s %s is not in the netconfig %s' % (key, addresses[key], self.net_ip))
"""
VALIDATE_RAISE_IFACE = """
raise exceptions.TestError('The interface with ip %s is not in the netconfig %s' % (ip, self.net_ip))
"""
VALIDATE_DOC = "`VMNetconfig.validate` of avocado_i2n/vmnet/netconfig.py, cut and rewritten by harness/pygen_pxnet.py: "
ASSERT_RAISES = [("AssertionError", "assert", "Err.assertion")]
CONTAINS = {"own.network.__contains__(_1)": ("(inNetwork c {1})", "bool", "pure", ("IpIface",))}


def _rw_expr(e):
    """`a in own.network` -> `own.network.__contains__(a)`, `a not in own.network` -> `not own.network.__contains__(a)`"""
    import copy

    class T(ast.NodeTransformer):
        def visit_Compare(self, n):
            self.generic_visit(n)
            if len(n.ops) == 1 and isinstance(n.ops[0], (ast.In, ast.NotIn)) \
                    and ast.unparse(n.comparators[0]) == "own.network":
                call = ast.Call(func=ast.Attribute(value=n.comparators[0], attr="__contains__", ctx=ast.Load()),
                                args=[n.left], keywords=[])
                return call if isinstance(n.ops[0], ast.In) else ast.UnaryOp(op=ast.Not(), operand=call)
            return n
    return T().visit(copy.deepcopy(e))


def _rw_body(stmts, where, keys=None, pinned=()):
    """the rewrites of (5); `keys` collects the keys of `addresses[...] = e` (None: such a store is refused)"""
    out = []
    for st in stmts:
        if pygen.dump_stmts([st]) in pinned:
            out.append(st)
        elif isinstance(st, ast.Assert):
            if st.msg is not None:
                raise Unsupported(f"{where}: `{ast.unparse(st)[:60]}` (an assert with a message)")
            out.append(ast.If(test=ast.UnaryOp(op=ast.Not(), operand=_rw_expr(st.test)),
                              body=[ast.Raise(exc=ast.Call(func=ast.Name(id="AssertionError", ctx=ast.Load()),
                                                           args=[ast.Constant(value="assert")], keywords=[]), cause=None)],
                              orelse=[]))
        elif isinstance(st, ast.Assign) and len(st.targets) == 1 and isinstance(st.targets[0], ast.Subscript) \
                and ast.unparse(st.targets[0].value) == "addresses":
            k = st.targets[0].slice
            if keys is None or not isinstance(k, ast.Constant) or not isinstance(k.value, str) or k.value in keys:
                raise Unsupported(f"{where}: `{ast.unparse(st)[:60]}` (only `addresses[<a new string constant>] = e` in "
                                  "front of the loops)")
            keys.append(k.value)
            out.append(ast.AugAssign(target=ast.Name(id="addresses", ctx=ast.Store()), op=ast.Add(),
                                     value=ast.List(elts=[_rw_expr(st.value)], ctx=ast.Load())))
        elif isinstance(st, ast.If):
            out.append(ast.If(test=_rw_expr(st.test), body=_rw_body(st.body, where, keys, pinned),
                              orelse=_rw_body(st.orelse, where, keys, pinned)))
        elif isinstance(st, (ast.Assign, ast.Expr, ast.Raise, ast.Pass)):
            for n in ast.walk(st):
                if isinstance(n, ast.Name) and n.id == "addresses" and isinstance(n.ctx, (ast.Store, ast.Del)):
                    raise Unsupported(f"{where}: `{ast.unparse(st)[:60]}` rebinds `addresses`")
            if isinstance(st, ast.Assign):
                st = ast.Assign(targets=st.targets, value=_rw_expr(st.value), type_comment=None)
            out.append(st)
        else:
            raise Unsupported(f"{where}: `{ast.unparse(st)[:60]}` ({type(st).__name__} inside a rewritten part)")
    return out


def validate_defs(tree, consts):
    import copy
    fn = _class_function(tree, "VMNetconfig", "validate")
    _args(fn, ["self"])
    where = f"validate:{fn.lineno}"
    body = _strip_logs(_body(fn), where)
    loops = [k for k, st in enumerate(body) if isinstance(st, ast.For)]
    if len(loops) != 2 or loops != [len(body) - 2, len(body) - 1] or loops[0] < 2:
        raise Unsupported(f"{where}: the function is no longer <statements>; <loop over addresses>; <loop over interfaces>")
    part1, loop1, loop2 = body[:loops[0]], body[-2], body[-1]
    _pinned(part1[:1], "addresses = {}", where, "`addresses = {}`")
    _pinned(part1[-1:], VALIDATE_OWN, where, "`own = ipaddress.ip_interface(...)` in front of the loops")
    _no_jumps(part1, where)
    for lp, target, it in ((loop1, "key", "addresses.keys()"), (loop2, "interface", "self.interfaces.values()")):
        if lp.orelse or ast.unparse(lp.target) != target or ast.unparse(lp.iter) != it:
            raise Unsupported(f"{where}: a loop is no longer `for {target} in {it}:` (without an else)")
        _no_jumps(lp.body, where)
    pins = {"assert self.ip_start is not None": "let _ ← ipStartIface c",
            "assert self.ip_end is not None": "let _ ← ipEndIface c"}
    keys = []
    mid = _rw_body(copy.deepcopy(part1[1:-1]), where, keys, {pygen.norm_block(k) for k in pins})
    first = ast.parse("addresses = []").body[0]
    last = ast.parse("return addresses").body[0]
    addr_fn = _synth("validate_addresses", [], [first] + mid + [last], part1[0])
    addr_spec = Spec(
        "genValidateAddresses", binders=[("c", "Netconfig")], params={}, ret=("list", "IpIface"), monad="except",
        atoms={VALIDATE_HOST_TEST: ("c.host.isSome", "bool"),
               IFACE.format("self.host_ip"): ("(c.host.getD 0, c.bits)", "IpIface"),
               IFACE.format("self.ip_start"): ("ipStartIface c", "IpIface", "raises"),
               IFACE.format("self.ip_end"): ("ipEndIface c", "IpIface", "raises")},
        stmts=pins, local_types={"addresses": ("list", "IpIface")},
        doc=VALIDATE_DOC + "the statements in front of the loops; the dictionary `addresses` (distinct constant keys "
                           + ", ".join(keys) + "; only iterated) is the list of its values in insertion order; `c.host` is "
                           "`none` for None and for the empty string")
    b1 = _rw_body(copy.deepcopy(loop1.body), where)
    _no_names_bound(b1, (), where)
    a_fn = _synth("validate_address", [], b1, loop1)
    a_spec = Spec("genValidateAddress", binders=[("c", "Netconfig"), ("a", "IpIface")], params={}, ret="unit",
                  monad="except", atoms={"addresses[key]": ("a", "IpIface")}, calls=CONTAINS,
                  stmts={VALIDATE_RAISE_ADDR: "throw Err.testError"},
                  doc=VALIDATE_DOC + "the body of `for key in addresses.keys():`; `a` = `addresses[key]`")
    b2 = _rw_body(copy.deepcopy(loop2.body), where)
    _no_names_bound(b2, ("ip",), where)
    i_fn = _synth("validate_interface", [], b2, loop2)
    i_spec = Spec(
        "genValidateIface", binders=[("n", "Nat"), ("c", "Netconfig"), ("i", "Nat"), ("f", "Iface")], params={},
        ret="unit", monad="except",
        atoms={"interface.netconfig": ("f.nc", "NcRef"), "self": ("(some n : NcRef)", "NcRef"),
               "self.interfaces[interface.ip]": ("ifsGet c f.ip", "Nat", "raises"), "interface": ("i", "Nat"),
               IFACE.format("interface.ip"): ("(f.ip, c.bits)", "IpIface")},
        calls=CONTAINS, stmts={VALIDATE_RAISE_IFACE: "throw Err.testError"}, raises=ASSERT_RAISES,
        type_defaults={"NcRef": "none", "Nat": "0"},
        doc=VALIDATE_DOC + "the body of `for interface in self.interfaces.values():`; `n` = self (the netconfig object), "
                           "`i` = the interface object, `f` = its attributes; `==` on objects is identity")
    d1 = pygen.translate(addr_fn, addr_spec, consts)
    d2 = pygen.translate(a_fn, a_spec, consts)
    d3 = pygen.translate(i_fn, i_spec, consts)
    skeleton = [
        "/-- `for key in addresses.keys(): <genValidateAddress>` -/",
        "def genValidateAddrs (c : Netconfig) : List IpIface → Except Err Unit",
        "  | [] => pure ()",
        "  | a :: rest => do",
        "    genValidateAddress c a",
        "    genValidateAddrs c rest",
        "/-- `for interface in self.interfaces.values(): <genValidateIface>` -/",
        "def genValidateIfaces (s : Net) (n : Nat) (c : Netconfig) : List (Nat × Nat) → Except Err Unit",
        "  | [] => pure ()",
        "  | (_, i) :: rest => do",
        "    genValidateIface n c i (s.iface i)",
        "    genValidateIfaces s n c rest",
        "/-- `validate` of netconfig object `n` (skeleton matched structurally): the statements in front of the loops,",
        "the loop over the addresses, the loop over the interfaces -/",
        "def genValidate (s : Net) (n : Nat) : Except Err Unit := do",
        "  let c := s.nc n",
        "  genValidateAddrs c (← genValidateAddresses c)",
        "  genValidateIfaces s n c c.ifs",
    ]
    return [VALIDATE_PRELUDE, d1, d2, d3, skeleton]


# ---------------------------------------------------------------------------------------------------------------------
# (6) VMNetwork.reattach_interface (avocado_i2n/vmnet/network.py) -> lean/I2N/Extracted/GenNetwork.lean
#
# The function assigns to its parameters `client_nic` / `server_nic` (pygen refuses that), so it is CUT here:
#
#   head (pinned verbatim)      the four statements that resolve the nic roles to the two interface objects: in the model
#                               these are the ids `c` (interface) and `r` (ref_interface)
#   proxy selection             `proxy_interface = None` / `if <test>: proxy_interface = self.interfaces[<server>.<proxy_nic>]`
#                               matched structurally, the TEST is translated (genReattachProxySelected); a nic name of the
#                               server is the id of the interface object registered under it (`none` = the empty name,
#                               `some r` = the resolved `server_nic`: integrate_node registers one new object per name)
#   `netconfig = ref_interface.netconfig` (+ a logging.debug)   pinned: `tn`
#   attach part (translated)    every statement up to `if proxy_interface is not None:` (genReattachAttach)
#   proxy part (translated)     the body of that `if` (genReattachProxyPart); the `if` itself is matched structurally
#   tail (pinned verbatim)      the three `self.params[...] = ...` updates and a logging.debug: no effect on the registry
#
# Inside the translated parts every statement is ONE attribute store / `del` / call on the object heap; each is pinned
# to the composition of the primitive heap actions of the prelude that it spells (order, presence and the branch are
# translated; a statement that is not in the table is refused).

NETWORK = "avocado_i2n/vmnet/network.py"

NETWORK_PRELUDE = [
    "/-- `<interface>.netconfig` used as an object (the model's `assertion` when it is None; Python: AttributeError) -/",
    "def ncOf (i : Nat) : NetM Nat := fun s => match (s.iface i).nc with | some n => .ok (n, s) | none => .error .assertion",
    "/-- `<interface>.ip` -/",
    "def ipOf (i : Nat) : NetM Nat := fun s => .ok ((s.iface i).ip, s)",
    "/-- `del <netconfig n>.interfaces[ip]` (KeyError when missing) -/",
    "def delIfs (n ip : Nat) : NetM Unit := fun s =>",
    "  if !hasKey ip (s.nc n).ifs then .error .keyError else .ok ((), s.setNc n (fun k => { k with ifs := adel ip k.ifs }))",
    "/-- `<netconfig n>.get_allocatable_address()` (the hand model's `allocate`; its own tie: genAllocate) -/",
    "def allocM (n : Nat) : NetM Nat := fun s =>",
    "  match allocate (s.nc n) with | .error e => .error e | .ok (a, k) => .ok (a, s.setNc n (fun _ => k))",
    "/-- `<interface i>.ip = a` -/",
    "def setIp (i a : Nat) : NetM Unit := fun s => .ok ((), s.setIface i (fun f => { f with ip := a }))",
    "/-- `<interface i>.netconfig = <netconfig n>` -/",
    "def setNcRef (i n : Nat) : NetM Unit := fun s => .ok ((), s.setIface i (fun f => { f with nc := some n }))",
    "/-- a nic name of the server: the id of the interface object registered under it, `none` = the empty name -/",
    "abbrev NicName := Option Nat",
    "/-- `self.interfaces[\"%s.%s\" % (server.name, proxy_nic)]`: the object registered under the name; nothing is",
    "registered under the empty nic name (KeyError) -/",
    "def lookupNic (p : NicName) : NetM Nat := fun s => match p with | some pi => .ok (pi, s) | none => .error .keyError",
]

REATTACH_ARGS = ["self", "client", "server", "client_nic", "server_nic", "proxy_nic"]
REATTACH_DEFAULTS = ["'internet_nic'", "'lan_nic'", "''"]
REATTACH_HEAD = """
client_nic = self.nodes[client.name].params[client_nic]
server_nic = self.nodes[server.name].params[server_nic]
interface = self.interfaces['%s.%s' % (client.name, client_nic)]
ref_interface = self.interfaces['%s.%s' % (server.name, server_nic)]
"""
REATTACH_PROXY_NONE = "proxy_interface = None"
REATTACH_PROXY_GET = "proxy_interface = self.interfaces['%s.%s' % (server.name, proxy_nic)]"
REATTACH_NETCONFIG = "netconfig = ref_interface.netconfig"
REATTACH_TAIL = """
self.params['netdst_%s_%s' % (client_nic, client.name)] = netconfig.netdst
self.params['ip_%s_%s' % (client_nic, client.name)] = interface.ip
self.params['netmask_%s_%s' % (client_nic, client.name)] = netconfig.netmask
"""

REATTACH_ATTACH_STMTS = {
    "del interface.netconfig.interfaces[interface.ip]": "delIfs (← ncOf c) (← ipOf c)",
    "interface.ip = netconfig.get_allocatable_address()": "setIp c (← allocM tn)",
    "netconfig.add_interface(interface)": "genAddInterface tn c",
}
REATTACH_PROXY_STMTS = {
    "del netconfig.interfaces[interface.ip]": "delIfs tn (← ipOf c)",
    "ref_interface.ip = proxy_interface.ip": "setIp r (← ipOf pi)",
    "interface.ip = proxy_interface.netconfig.get_allocatable_address()": "setIp c (← allocM (← ncOf pi))",
    "interface.netconfig = proxy_interface.netconfig": "setNcRef c (← ncOf pi)",
}

REATTACH_DOC = "`VMNetwork.reattach_interface` of avocado_i2n/vmnet/network.py, cut by harness/pygen_pxnet.py: "


def _is_log(st):
    return isinstance(st, ast.Expr) and isinstance(st.value, ast.Call) and pygen._dotted(st.value.func) == "logging.debug"


def _pinned(stmts, text, where, what):
    if pygen.dump_stmts(stmts) != pygen.norm_block(text):
        raise Unsupported(f"{where}: {what} changed (pinned verbatim)")


def reattach_defs(tree, consts):
    fn = pygen.find_function(tree, "VMNetwork.reattach_interface")
    _args(fn, REATTACH_ARGS)
    if [ast.unparse(d) for d in fn.args.defaults] != REATTACH_DEFAULTS:
        raise Unsupported("reattach_interface: the defaults of client_nic / server_nic / proxy_nic changed")
    where = f"reattach_interface:{fn.lineno}"
    body = _body(fn)
    if len(body) < 12:
        raise Unsupported(f"{where}: the function has {len(body)} statements, it no longer has the shape of the cut")
    _pinned(body[:4], REATTACH_HEAD, where, "the head that resolves the nic roles to interface objects")
    _pinned(body[4:5], REATTACH_PROXY_NONE, where, "`proxy_interface = None`")
    sel = body[5]
    if not isinstance(sel, ast.If) or sel.orelse:
        raise Unsupported(f"{where}: the proxy selection is no longer `if <test>: proxy_interface = …` without an else")
    _pinned(sel.body, REATTACH_PROXY_GET, where, "the lookup of the proxy interface")
    for n in ast.walk(sel.test):
        if isinstance(n, (ast.Call, ast.NamedExpr, ast.Attribute, ast.Subscript)):
            raise Unsupported(f"{where}: the proxy selection test is no longer a test on the nic names only")
    _pinned(body[6:7], REATTACH_NETCONFIG, where, "`netconfig = ref_interface.netconfig`")
    rest = body[7:]
    if rest and _is_log(rest[0]):
        rest = rest[1:]
    # tail: three parameter updates + an optional logging.debug
    tail_at = next((k for k, st in enumerate(rest) if isinstance(st, ast.Assign)
                    and ast.unparse(st.targets[0]).startswith("self.params[")), None)
    if tail_at is None:
        raise Unsupported(f"{where}: the parameter updates at the end are gone")
    core, tail = rest[:tail_at], rest[tail_at:]
    if tail and _is_log(tail[-1]):
        tail = tail[:-1]
    _pinned(tail, REATTACH_TAIL, where, "the tail (the three updates of self.params)")
    if not core or not isinstance(core[-1], ast.If) or core[-1].orelse \
            or ast.unparse(core[-1].test) != "proxy_interface is not None":
        raise Unsupported(f"{where}: the statements between `netconfig = …` and the parameter updates no longer end with "
                          "`if proxy_interface is not None: <proxy part>` (without an else)")
    attach, proxy = core[:-1], core[-1].body
    _no_jumps(attach, where)
    _no_jumps(proxy, where)
    for st in attach + proxy:
        for n in ast.walk(st):
            if isinstance(n, ast.Name) and isinstance(n.ctx, (ast.Store, ast.Del)):
                raise Unsupported(f"{where}: `{ast.unparse(st)[:60]}` rebinds the local {n.id!r} inside the translated part")
    sel_fn = _synth("reattach_proxy_selected", ["proxy_nic", "server_nic"], [ast.Return(value=sel.test)], sel)
    sel_spec = Spec(
        "genReattachProxySelected", binders=[("r", "Nat"), ("p", "NicName")],
        params={"proxy_nic": ("p", "NicName"), "server_nic": ("(some r : NicName)", "NicName")}, ret="bool", monad="pure",
        atoms={"''": ("(none : NicName)", "NicName")}, type_defaults={"NicName": "none"},
        doc=REATTACH_DOC + "the test of the proxy selection (`server_nic` is the resolved name of the pinned head); a nic "
                           "name is the id of the interface registered under it, the empty name is `none`")
    attach_fn = _synth("reattach_attach", [], attach, core[0])
    attach_spec = Spec("genReattachAttach", binders=[("c", "Nat"), ("tn", "Nat")], params={}, ret="unit", monad="NetM",
                       stmts=REATTACH_ATTACH_STMTS, ignored_calls=("logging.debug",),
                       doc=REATTACH_DOC + "the statements between `netconfig = ref_interface.netconfig` and `if "
                                          "proxy_interface is not None:`; `c` = interface, `tn` = netconfig")
    proxy_fn = _synth("reattach_proxy_part", [], proxy, core[-1])
    proxy_spec = Spec("genReattachProxyPart", binders=[("c", "Nat"), ("r", "Nat"), ("tn", "Nat"), ("pi", "Nat")],
                      params={}, ret="unit", monad="NetM", stmts=REATTACH_PROXY_STMTS, ignored_calls=("logging.debug",),
                      doc=REATTACH_DOC + "the body of `if proxy_interface is not None:`; `r` = ref_interface, `pi` = "
                                         "proxy_interface")
    d1 = pygen.translate(sel_fn, sel_spec, consts)
    d2 = pygen.translate(attach_fn, attach_spec, consts)
    d3 = pygen.translate(proxy_fn, proxy_spec, consts)
    skeleton = [
        "/-- the skeleton of `reattach_interface` (matched structurally): the pinned head gives the interface objects `c`,",
        "`r`; `proxy_interface` is None unless the selection test holds, then it is looked up (genReattachProxy);",
        "`netconfig = ref_interface.netconfig`; the attach",
        "part; `if proxy_interface is not None:` the proxy part; the pinned tail does not touch the registry -/",
        "def genReattachProxy (r : Nat) (p : NicName) : NetM (Option Nat) :=",
        "  if genReattachProxySelected r p then (do let pi ← lookupNic p; pure (some pi)) else pure none",
        "def genReattach (c r : Nat) (p : NicName) : NetM Unit := do",
        "  let proxy_interface ← genReattachProxy r p",
        "  let tn ← ncOf r",
        "  genReattachAttach c tn",
        "  match proxy_interface with",
        "  | some pi => genReattachProxyPart c r tn pi",
        "  | none => pure ()",
    ]
    return [d1, d2, d3, skeleton]


# ---------------------------------------------------------------------------------------------------------------------
# (7) VMNetwork.integrate_node -> genIntegrateTest / genIntegrateFound / genIntegrateNew / genFindNc / genPlace /
#     genPlaceAll / genIntegrateNode                                                              (integrateNode)
#
#   prefix (pinned verbatim)    the two guards (`node in self.nodes`, `len(node.interfaces) > 0`: a node is integrated once)
#                               and the FIRST loop, which creates one new interface object per nic: in the model the ids
#                               `first … first+count-1` in creation order, none of them attached
#   second loop                 `for interface in node.interfaces.values():` with ONE statement besides logging, the
#                               for/else over `self.netconfigs.values()`: `if <test>: <found part>; break` /
#                               `else: <new part>`; test, found part and new part are translated, the for/else (first
#                               registered netconfig that passes the test, else the new part) is the fixed skeleton

INTEGRATE_PRELUDE = [
    "/-- `<netconfig n>.can_add_interface(<interface i>)` (genCanAdd on the current objects) -/",
    "def canAddM (n i : Nat) : NetM Bool := fun s =>",
    "  match genCanAdd (s.nc n) i (s.iface i) with | .error e => .error e | .ok b => .ok (b, s)",
    "/-- `self.new_netconfig()`: a new netconfig object (the next id), nothing set yet -/",
    "def newNetconfig : NetM Nat := fun s =>",
    "  .ok (s.nNc, { s with nNc := s.nNc + 1, nc := fun m => if m = s.nNc then default else s.nc m })",
    "/-- `<netconfig n>.from_interface(<interface i>)` (the hand model's `fromInterface`: every attribute is set) -/",
    "def fromInterfaceM (n i : Nat) : NetM Unit := fun s => .ok ((), s.setNc n (fun _ => fromInterface (s.iface i)))",
    "/-- `self.netconfigs[<netconfig n>.net_ip] = <netconfig n>` -/",
    "def registerNc (n : Nat) : NetM Unit := fun s => .ok ((), { s with reg := aset (s.nc n).netIp n s.reg })",
    "/-- `self.netconfigs.values()` when the loop starts -/",
    "def registered : NetM (List (Nat × Nat)) := fun s => .ok (s.reg, s)",
]

INTEGRATE_PREFIX = """
if node in self.nodes:
    raise AssertionError('The vm node has already been integrated')
if len(node.interfaces) > 0:
    raise AssertionError('The integrated vm node must not have any initialized interfaces')
for nic_name in node.platform.params.objects('nics'):
    ikey = '%s.%s' % (node.name, nic_name)
    nic_params = node.platform.params.object_params(nic_name)
    new_interface = self.new_interface(nic_name, nic_params)
    node.interfaces[nic_name] = new_interface
    self.interfaces[ikey] = new_interface
    self.interfaces[ikey].node = node
    logging.debug('Generated interface {0}: {1}'.format(ikey, self.interfaces[ikey]))
"""
INTEGRATE_FOUND_STMTS = {"netconfig.add_interface(interface)": "genAddInterface n i"}
INTEGRATE_NEW_STMTS = {
    "netconfig = self.new_netconfig()": "let n ← newNetconfig",
    "netconfig.from_interface(interface)": "fromInterfaceM n i",
    "netconfig.add_interface(interface)": "genAddInterface n i",
    "self.netconfigs[netconfig.net_ip] = netconfig": "registerNc n",
}
INTEGRATE_DOC = "`VMNetwork.integrate_node` of avocado_i2n/vmnet/network.py, cut by harness/pygen_pxnet.py: "


def _strip_logs(stmts, where):
    """drop `logging.debug(<message>)` statements whose message only reads (constants, names, attributes and
    `"…".format(…)` of those): no effect on the registry"""
    out = []
    for st in stmts:
        if not _is_log(st):
            out.append(st)
            continue
        for a in list(st.value.args) + [k.value for k in st.value.keywords]:
            for n in ast.walk(a):
                ok = isinstance(n, (ast.Constant, ast.Name, ast.Attribute, ast.Load)) or (
                    isinstance(n, ast.Call) and isinstance(n.func, ast.Attribute) and n.func.attr == "format"
                    and isinstance(n.func.value, ast.Constant) and not n.keywords)
                if not ok:
                    raise Unsupported(f"{where}: the message of `{ast.unparse(st)[:60]}` is not a plain message")
    return out


def _no_names_bound(stmts, allowed, where):
    for st in stmts:
        for n in ast.walk(st):
            if isinstance(n, ast.Name) and isinstance(n.ctx, (ast.Store, ast.Del)) and n.id not in allowed:
                raise Unsupported(f"{where}: `{ast.unparse(st)[:60]}` binds the local {n.id!r} inside a translated part")


def integrate_defs(tree, consts):
    fn = pygen.find_function(tree, "VMNetwork.integrate_node")
    _args(fn, ["self", "node"])
    where = f"integrate_node:{fn.lineno}"
    body = _strip_logs(_body(fn), where)
    if len(body) != 4:
        raise Unsupported(f"{where}: {len(body)} statements besides logging (expected: two guards and two loops)")
    _pinned(body[:3], INTEGRATE_PREFIX, where, "the guards / the loop that creates the interface objects")
    outer = body[3]
    if not isinstance(outer, ast.For) or outer.orelse or ast.unparse(outer.target) != "interface" \
            or ast.unparse(outer.iter) != "node.interfaces.values()":
        raise Unsupported(f"{where}: the second loop is no longer `for interface in node.interfaces.values():`")
    obody = _strip_logs(outer.body, where)
    if len(obody) != 1 or not isinstance(obody[0], ast.For):
        raise Unsupported(f"{where}: the body of the second loop is no longer the one for/else over the netconfigs")
    loop = obody[0]
    if ast.unparse(loop.target) != "netconfig" or ast.unparse(loop.iter) != "self.netconfigs.values()":
        raise Unsupported(f"{where}: the inner loop is no longer `for netconfig in self.netconfigs.values():`")
    if len(loop.body) != 1 or not isinstance(loop.body[0], ast.If) or loop.body[0].orelse \
            or len(loop.body[0].body) < 2 or not isinstance(loop.body[0].body[-1], ast.Break):
        raise Unsupported(f"{where}: the inner loop body is no longer `if <test>: <statements>; break`")
    if not loop.orelse:
        raise Unsupported(f"{where}: the inner loop lost its `else` (a new netconfig for an interface that fits nowhere)")
    test, found, new = loop.body[0].test, _strip_logs(loop.body[0].body[:-1], where), _strip_logs(loop.orelse, where)
    if not found or not new:
        raise Unsupported(f"{where}: the found part / the new part of the inner loop is empty")
    _no_jumps(found, where)
    _no_jumps(new, where)
    _no_names_bound(found, (), where)
    _no_names_bound(new, ("netconfig",), where)
    test_fn = _synth("integrate_node_test", [], [ast.Return(value=test)], loop)
    test_spec = Spec("genIntegrateTest", binders=[("n", "Nat"), ("i", "Nat")], params={}, ret="bool", monad="NetM",
                     atoms={"netconfig.can_add_interface(interface)": ("canAddM n i", "bool", "raises")},
                     doc=INTEGRATE_DOC + "the test of `for netconfig in self.netconfigs.values(): if <test>:`; `n` = "
                                         "netconfig, `i` = interface")
    found_fn = _synth("integrate_node_found", [], found, loop)
    found_spec = Spec("genIntegrateFound", binders=[("n", "Nat"), ("i", "Nat")], params={}, ret="unit", monad="NetM",
                      stmts=INTEGRATE_FOUND_STMTS, ignored_calls=("logging.debug",),
                      doc=INTEGRATE_DOC + "the statements of the `if` in front of its `break`")
    new_fn = _synth("integrate_node_new", [], new, loop)
    new_spec = Spec("genIntegrateNew", binders=[("i", "Nat")], params={}, ret="unit", monad="NetM",
                    stmts=INTEGRATE_NEW_STMTS, ignored_calls=("logging.debug",),
                    doc=INTEGRATE_DOC + "the `else` of the inner loop (no registered netconfig takes the interface)")
    d1 = pygen.translate(test_fn, test_spec, consts)
    d2 = pygen.translate(found_fn, found_spec, consts)
    d3 = pygen.translate(new_fn, new_spec, consts)
    skeleton = [
        "/-- the inner for/break of `integrate_node` (matched structurally): the first registered netconfig, in the order",
        "of the dictionary, that passes `genIntegrateTest` (the test may raise, which ends the call) -/",
        "def genFindNc (i : Nat) : List (Nat × Nat) → NetM (Option Nat)",
        "  | [] => pure none",
        "  | (_, n) :: rest => do",
        "    if (← genIntegrateTest n i) then return some n",
        "    genFindNc i rest",
        "/-- the body of `for interface in node.interfaces.values():` — the for/else: the found part for the first netconfig",
        "that passes the test (then `break`), the `else` part when none does -/",
        "def genPlace (i : Nat) : NetM Unit := do",
        "  match (← genFindNc i (← registered)) with",
        "  | some n => genIntegrateFound n i",
        "  | none => genIntegrateNew i",
        "def genPlaceAll : List Nat → NetM Unit",
        "  | [] => pure ()",
        "  | i :: rest => do",
        "    genPlace i",
        "    genPlaceAll rest",
        "/-- `integrate_node` for a node whose (new, pinned first loop) interface objects are `first … first+count-1`, in",
        "the order of `node.interfaces.values()` -/",
        "def genIntegrateNode (first count : Nat) : NetM Unit := genPlaceAll (List.range' first count)",
    ]
    return [INTEGRATE_PRELUDE, d1, d2, d3, skeleton]


# ---------------------------------------------------------------------------------------------------------------------
# (8) VMNetwork.__init__ -> genInitNode / genInit                                                       (build)
#
#   in front of the loop (checked)   `self.interfaces = {}` and `self.netconfigs = {}` are assigned exactly once, at the top
#                                    level, and nothing else mentions them or calls integrate_node: the registry is empty
#                                    (the model's `init`, with the interface objects created up front)
#   the loop                         must be the LAST statement besides logging: `for vm_name in params.objects("vms"):`;
#                                    the statements that get / create the vm object are pinned verbatim (no registry
#                                    access), the last two — the node object and the call of integrate_node — are
#                                    translated (genInitNode); the loop itself is the fixed skeleton `genInit` over the
#                                    number of nics of every vm, in order

INIT_VM = """
vm = env.get_vm(vm_name)
vm_params = params.object_params(vm_name)
if vm is None:
    vm = env.create_vm(params.get('vm_type'), params.get('target'), vm_name, vm_params, '/tmp')
else:
    vm.params = vm_params
"""
INIT_STMTS = {"self.nodes[vm_name] = self.new_node(vm)": "newNode",
              "self.integrate_node(self.nodes[vm_name])": "genIntegrateNode first count"}
INIT_PRELUDE = [
    "/-- `self.nodes[vm_name] = self.new_node(vm)`: a node object without interfaces; not part of the registry state -/",
    "def newNode : NetM Unit := pure ()",
]
INIT_DOC = "`VMNetwork.__init__` of avocado_i2n/vmnet/network.py, cut by harness/pygen_pxnet.py: "


def init_defs(tree, consts):
    fn = pygen.find_function(tree, "VMNetwork.__init__")
    _args(fn, ["self", "params", "env"])
    where = f"__init__:{fn.lineno}"
    body = _strip_logs(_body(fn), where)
    if not body or not isinstance(body[-1], ast.For) or any(isinstance(n, (ast.For, ast.While, ast.Try, ast.With))
                                                            for st in body[:-1] for n in ast.walk(st)):
        raise Unsupported(f"{where}: the constructor no longer ends with its one loop over the vms")
    front, loop = body[:-1], body[-1]
    for attr in ("interfaces", "netconfigs"):
        hits = [st for st in front if f"self.{attr}" in ast.unparse(st)]
        if len(hits) != 1 or pygen.dump_stmts(hits) != pygen.norm_block(f"self.{attr} = {{}}"):
            raise Unsupported(f"{where}: `self.{attr} = {{}}` is no longer the only statement in front of the loop that "
                              f"mentions self.{attr}")
    for st in front:
        if "integrate_node" in ast.unparse(st) or isinstance(st, (ast.Return, ast.Raise)):
            raise Unsupported(f"{where}: `{ast.unparse(st)[:60]}` in front of the loop")
    if loop.orelse or ast.unparse(loop.target) != "vm_name" or ast.unparse(loop.iter) != "params.objects('vms')":
        raise Unsupported(f"{where}: the loop is no longer `for vm_name in params.objects('vms'):`")
    lbody = _strip_logs(loop.body, where)
    _no_jumps(lbody, where)
    if len(lbody) < 3:
        raise Unsupported(f"{where}: the loop body has {len(lbody)} statements")
    _pinned(lbody[:-2], INIT_VM, where, "the statements of the loop that get / create the vm object")
    # the model has no registry of nodes: `self.nodes[vm_name]` read before it is stored (KeyError) would be invisible in
    # the generated Lean, so the ORDER of the two statements is checked here (mutant `init-node-after`)
    _pinned(lbody[-2:], "\n".join(INIT_STMTS), where, "the node object stored, THEN integrated (the last two statements)")
    node_fn = _synth("init_node", [], lbody[-2:], loop)
    node_spec = Spec("genInitNode", binders=[("first", "Nat"), ("count", "Nat")], params={}, ret="unit", monad="NetM",
                     stmts=INIT_STMTS,
                     doc=INIT_DOC + "the last two statements of the loop over the vms; the interface objects of this vm "
                                    "are `first … first+count-1`")
    d1 = pygen.translate(node_fn, node_spec, consts)
    skeleton = [
        "/-- `for vm_name in params.objects(\"vms\"):` (matched structurally): `counts` = the number of nics of every vm, in",
        "order; the interface objects are numbered in creation order -/",
        "def genInit : Nat → List Nat → NetM Unit",
        "  | _, [] => pure ()",
        "  | first, count :: rest => do",
        "    genInitNode first count",
        "    genInit (first + count) rest",
    ]
    return [INIT_PRELUDE, d1, skeleton]


def network_source(path=None):
    path = path or pygen._src("PYGEN_NETWORK_SRC", NETWORK)
    tree = ast.parse(open(path).read(), filename=path)
    consts = pygen.module_constants(tree)
    defs = [NETWORK_PRELUDE]
    defs += reattach_defs(tree, consts)
    defs += integrate_defs(tree, consts)
    defs += init_defs(tree, consts)
    return pygen.render_file("harness/pygen_pxnet.py:extract_net (called by harness/props/c18.py:extract) from "
                             "avocado_i2n/vmnet/network.py", ["I2N.Extracted.GenNet"], "I2N.Extracted.GenNetwork",
                             ["I2N.Net", "I2N.Extracted.GenNet"], defs)


# ---------------------------------------------------------------------------------------------------------------------

def net_source(path=None):
    path = path or pygen._src("PYGEN_NETCONFIG_SRC", NETCONFIG)
    tree = ast.parse(open(path).read(), filename=path)
    consts = pygen.module_constants(tree)
    defs = [PRELUDE]
    defs += alloc_defs(tree, consts)
    for name, spec in (("has_interface", has_spec()), ("can_add_interface", canadd_spec()),
                       ("add_interface", addif_spec()), ("translate_address", translate_spec())):
        defs.append(pygen.translate(pygen.find_function(tree, "VMNetconfig." + name), spec, consts))
    defs += maskbit_defs(tree, consts)
    defs += validate_defs(tree, consts)
    return pygen.render_file("harness/pygen_pxnet.py:extract_net (called by harness/props/c18.py:extract) from "
                             "avocado_i2n/vmnet/netconfig.py", ["I2N.Model.Net"], "I2N.Extracted.GenNet", ["I2N.Net"], defs)


def extract_net(ctx=None):
    a = pygen.write_if_changed(pygen._lean_path("GenNet.lean"), net_source())
    b = pygen.write_if_changed(pygen._lean_path("GenNetwork.lean"), network_source())
    return a or b


SOURCES = {"net": net_source, "network": network_source}


if __name__ == "__main__":
    for name in sys.argv[1:] or list(SOURCES):
        print(SOURCES[name]())
